"""Shared harness for the simulator properties (C01-C06, C15): generator of single-product networks, adapter to
stockpyl's simulator, Coq-model evaluation (Sim/Model.v through Sim/Obs.v), comparison, and the property monitors
(oracles) evaluated on the IMPLEMENTATION's own state variables."""
import copy, itertools, json
from fractions import Fraction
from vlib import *

POL_TYPES = ['BS', 'sS', 'rQ', 'FQ']
DTYPES = ['OP', 'SP', 'TP', 'RP']
NODE_FIELDS = ['IL', 'OQFG', 'PFG', 'DMFS', 'DC', 'DMC', 'FR', 'HC', 'SC', 'ITHC', 'REV', 'TC']
CUST_FIELDS = ['IO', 'OS', 'BO', 'ODI']
SUPP_FIELDS = ['IS', 'IDI', 'RM', 'OO', 'OQ']


# ------------------------------------------------------------------------------------------------
# generator

def gen_topology(rng, nmax):
    n = rng.randint(1, nmax)
    kind = rng.choice(['serial', 'assembly', 'distribution', 'dag', 'dag']) if n > 1 else 'single'
    u = rng.random()
    if u < 0.5: ids = rng.sample(range(1, 60), n)
    elif u < 0.75: ids = list(range(1, n + 1))
    else:                            # node index 0 is a valid index (truthiness slips show up only there)
        ids = rng.sample(range(0, n + 2), n)
        if 0 not in ids: ids[rng.randrange(n)] = 0
    edges = []
    if kind == 'serial':
        edges = [(ids[i], ids[i + 1]) for i in range(n - 1)]
    elif kind == 'assembly':       # in-tree: every node but the last has one successor with larger position
        for i in range(n - 1):
            edges.append((ids[i], ids[rng.randint(i + 1, n - 1)]))
    elif kind == 'distribution':   # out-tree
        for i in range(1, n):
            edges.append((ids[rng.randint(0, i - 1)], ids[i]))
    elif kind == 'dag':
        for i in range(1, n):
            k = 1 if rng.random() < 0.6 else 2
            for p in rng.sample(range(i), min(k, i)):
                edges.append((ids[p], ids[i]))
    rng.shuffle(edges)
    return kind, ids, edges


def gen_case(rng, nmax=5, tmax=12, bias=None, policies=None, disruptions=True, olt_max=2, slt_max=3, ebs=False):
    kind, ids, edges = gen_topology(rng, nmax)
    T = rng.randint(max(4, tmax // 2), tmax)
    succs = {i: [b for a, b in edges if a == i] for i in ids}
    preds = {i: [a for a, b in edges if b == i] for i in ids}
    nodes = {}
    pols = policies or POL_TYPES
    for i in ids:
        sink = not succs[i]
        has_dem = sink or rng.random() < 0.25
        pt = rng.choice(pols)
        if pt == 'EBS' and len(preds[i]) not in (0, 1, 2, 4):
            pt = 'BS'      # echelon position averages over the suppliers: keep the division exact in binary64
        if pt == 'BS':
            pol = ['BS', rng.randint(0, 25)]
        elif pt == 'sS':
            s_ = rng.randint(0, 12); pol = ['sS', s_, s_ + rng.randint(0, 15)]
        elif pt == 'rQ':
            pol = ['rQ', rng.randint(0, 12), rng.randint(1, 15)]
        elif pt == 'FQ':
            pol = ['FQ', rng.randint(0, 8)]
        else:
            pol = ['EBS', rng.randint(0, 40)]
        dl = None
        if has_dem:
            L = rng.choice([1, 2, 3, T, T + 3])
            dl = [rng.choice([0, 1, 2, 3, 5, 8, 13]) for _ in range(L)]
        dis = None
        if disruptions and rng.random() < (0.55 if bias else 0.4):
            dt = rng.choice(DTYPES)
            if bias == 'SP' and preds[i] and rng.random() < 0.7:
                dt = 'SP'
            L = rng.choice([2, 3, 5, T])
            dis = [dt, [rng.random() < 0.4 for _ in range(L)]]
        nodes[i] = dict(
            slt=rng.randint(0, slt_max), olt=rng.randint(0, olt_max) if rng.random() < 0.6 else 0, pol=pol,
            cap=(rng.randint(1, 12) if rng.random() < 0.3 else None),
            init_il=(rng.randint(0, 20) if rng.random() < 0.5 else None),
            h=Fraction(rng.randint(0, 12), 4), p=Fraction(rng.randint(0, 80), 4) if has_dem or rng.random() < .3 else Fraction(0),
            ith=rng.choice([None, None, Fraction(0), Fraction(rng.randint(1, 8), 4)]),
            rev=Fraction(rng.randint(0, 8), 4) if rng.random() < 0.3 else Fraction(0),
            demand=dl, dis=dis,
            init_orders=rng.choice([0, 0, 1, 3]), init_ships=rng.choice([0, 0, 2, 4]))
    return dict(kind=kind, ids=ids, edges=[list(e) for e in edges], T=T, nodes=nodes)


def case_from_json(c):
    c = copy.deepcopy(c)
    c['nodes'] = {int(k): v for k, v in c['nodes'].items()}
    for v in c['nodes'].values():
        for f in ('h', 'p', 'rev'):
            v[f] = Fraction(v[f])
        if v['ith'] is not None:
            v['ith'] = Fraction(v['ith'])
        for f in ('hf', 'pf'):
            if v.get(f): v[f] = [Fraction(x) for x in v[f]]
    return c


def cost_fn(ab, stockout=False):
    """optional cost functions of a node: holding f(x) = a x + b x^2 of the items held (not clamped, so a wrong argument shows),
    stockout g(IL) = a (-IL)+ + b ((-IL)+)^2 of the signed ending inventory level"""
    a, b = float(ab[0]), float(ab[1])
    if stockout:
        return lambda il: a * max(0.0, -il) + b * max(0.0, -il) ** 2
    return lambda x: a * x + b * x * x


def has_cost_fn(case):
    return any(v.get('hf') or v.get('pf') for v in case['nodes'].values())


# ------------------------------------------------------------------------------------------------
# implementation

def build_impl(case):
    from stockpyl.supply_chain_network import network_from_edges
    from stockpyl.policy import Policy
    from stockpyl.demand_source import DemandSource
    from stockpyl.disruption_process import DisruptionProcess
    ids = case['ids']; nd = case['nodes']
    def pol(p):
        if p[0] == 'BS': return Policy(type='BS', base_stock_level=p[1])
        if p[0] == 'sS': return Policy(type='sS', reorder_point=p[1], order_up_to_level=p[2])
        if p[0] == 'rQ': return Policy(type='rQ', reorder_point=p[1], order_quantity=p[2])
        if p[0] == 'FQ': return Policy(type='FQ', order_quantity=p[1])
        if p[0] == 'EBS': return Policy(type='EBS', base_stock_level=p[1])
        raise ValueError(p)
    kw = dict(
        local_holding_cost={i: float(nd[i]['h']) for i in ids},
        stockout_cost={i: float(nd[i]['p']) for i in ids},
        in_transit_holding_cost={i: (None if nd[i]['ith'] is None else float(nd[i]['ith'])) for i in ids},
        revenue={i: float(nd[i]['rev']) for i in ids},
        shipment_lead_time={i: nd[i]['slt'] for i in ids},
        order_lead_time={i: nd[i]['olt'] for i in ids},
        inventory_policy={i: pol(nd[i]['pol']) for i in ids},
        order_capacity={i: nd[i]['cap'] for i in ids},
        initial_inventory_level={i: nd[i]['init_il'] for i in ids},
        initial_orders={i: nd[i]['init_orders'] for i in ids},
        initial_shipments={i: nd[i]['init_ships'] for i in ids},
        demand_source={i: (DemandSource(type='D', demand_list=list(nd[i]['demand'])) if nd[i]['demand'] is not None else None) for i in ids},
        disruption_process={i: (DisruptionProcess(random_process_type='E', disruption_type=nd[i]['dis'][0],
                                                  disruption_state_list=list(nd[i]['dis'][1])) if nd[i]['dis'] else None) for i in ids})
    net = network_from_edges(edges=[tuple(e) for e in case['edges']], node_order_in_lists=list(ids), **kw)
    for n in net.nodes:
        if nd[n.index].get('hf'): n.local_holding_cost_function = cost_fn(nd[n.index]['hf'])
        if nd[n.index].get('pf'): n.stockout_cost_function = cost_fn(nd[n.index]['pf'], stockout=True)
    return net


def extract_records(net, T):
    """per period: {node: {field: Fraction, 'cust': {c: {...}}, 'supp': {p: {...}}}}; c, p are node ids or None"""
    recs = []
    for t in range(T):
        R = {}
        for n in net.nodes:
            sv = n.state_vars[t]
            prod = n._dummy_product.index
            r = dict(IL=F(sv.inventory_level[prod]), OQFG=F(sv.order_quantity_fg[prod]), PFG=F(sv.pending_finished_goods[prod]),
                     DMFS=F(sv.demand_met_from_stock[prod]), DC=F(sv.demand_cumul[prod]), DMC=F(sv.demand_met_from_stock_cumul[prod]),
                     FR=F(sv.fill_rate[prod]), HC=F(sv.holding_cost_incurred), SC=F(sv.stockout_cost_incurred),
                     ITHC=F(sv.in_transit_holding_cost_incurred), REV=F(sv.revenue_earned), TC=F(sv.total_cost_incurred),
                     DIS=bool(sv.disrupted), cust={}, supp={})
            for c in n.successor_indices(include_external=True):
                r['cust'][c] = dict(IO=F(sv.inbound_order[c][prod]), OS=F(sv.outbound_shipment[c][prod]),
                                    BO=F(sv.backorders_by_successor[c][prod]), ODI=F(sv.outbound_disrupted_items[c][prod]),
                                    OP=[F(x) for x in sv.inbound_order_pipeline[c][prod]])
            for p in n.predecessor_indices(include_external=True):
                rm = net.nodes_by_index[p]._dummy_product.index if p is not None else n._external_supplier_dummy_product.index
                r['supp'][p] = dict(IS=F(sv.inbound_shipment[p][rm]), IDI=F(sv.inbound_disrupted_items[p][rm]),
                                    RM=F(sv.raw_material_inventory[rm]), OO=F(sv.on_order_by_predecessor[p][rm]),
                                    OQ=F(sv.order_quantity[p][rm]), SP=[F(x) for x in sv.inbound_shipment_pipeline[p][rm]])
            R[n.index] = r
        recs.append(R)
    return recs


def structure(net):
    """what the model takes from the implementation as configuration: node order, neighbour orders"""
    return dict(order=[n.index for n in net.nodes],
                preds={n.index: list(n.predecessor_indices()) for n in net.nodes},
                succs={n.index: list(n.successor_indices()) for n in net.nodes},
                ext_sup={n.index: bool(n.has_external_supplier) for n in net.nodes},
                has_dem={n.index: bool(n.has_external_customer) for n in net.nodes})


def run_impl(case, step_split=None, seed=1, overrides=None):
    """returns dict(recs, total, struct) or dict(error=...).  overrides: {period: {node: quantity}} passed to step() as
    order_quantity_override in the single-supplier shorthand {node: {None: {None: q}}} (only with step_split)"""
    import stockpyl.sim as sim
    import warnings
    sim.issued_backorder_warning = False
    net = build_impl(case)
    T = case['T']
    with warnings.catch_warnings():
        warnings.simplefilter('ignore')
        if step_split is None:
            total = sim.simulation(net, T, rand_seed=seed, progress_bar=False, consistency_checks='N')
        else:
            sim.initialize(net, T, rand_seed=seed)
            for t in range(T):
                ov = (overrides or {}).get(t) or (overrides or {}).get(str(t))
                if ov:
                    sim.step(net, order_quantity_override={int(i): ({None: {None: q}} if q is not None else None) for i, q in ov.items()}, consistency_checks='N')
                else:
                    sim.step(net, consistency_checks='N')
            total = sim.close(net)
    return dict(recs=extract_records(net, T), total=F(total), struct=structure(net), net=net)


# ------------------------------------------------------------------------------------------------
# model

def cN(i):
    return '%d%%N' % i


def coq_policy(p):
    if p[0] == 'BS': return '(BS %s)' % cq(p[1])
    if p[0] == 'sS': return '(SS %s %s)' % (cq(p[1]), cq(p[2]))
    if p[0] == 'rQ': return '(RQ %s %s)' % (cq(p[1]), cq(p[2]))
    if p[0] == 'FQ': return '(FQ %s)' % cq(p[1])
    if p[0] == 'EBS': return '(EBS %s)' % cq(p[1])


def coq_case(case, struct):
    """Gallina term: obs_run net inputs"""
    nd = case['nodes']; T = case['T']
    cfgs = []
    for i in struct['order']:
        v = nd[i]
        cfgs.append('(%s, {| preds := %s; succs := %s; ext_sup := %s; has_dem := %s; slt := %s; olt := %s; pol := %s; cap := %s; '
                    'init_il := %s; hc := %s; pc := %s; ith := %s; rev := %s; dtype := %s; init_orders := %s; init_ships := %s |})' % (
                        cN(i), clist([cN(x) for x in struct['preds'][i]]), clist([cN(x) for x in struct['succs'][i]]),
                        cbool(struct['ext_sup'][i]), cbool(struct['has_dem'][i]), cnat(v['slt']), cnat(v['olt']), coq_policy(v['pol']),
                        copt(v['cap'] if v['cap'] else None), copt(v['init_il']), cq(v['h']), cq(v['p']), copt(v['ith']), cq(v['rev']),
                        ('(Some d%s)' % v['dis'][0]) if v['dis'] else 'None', cq(v['init_orders']), cq(v['init_ships'])))
    net = '{| nodes := %s; cfg := tbl dflt_cfg %s |}' % (clist([cN(i) for i in struct['order']]), clist(cfgs))
    inputs = []
    for t in range(T):
        dis = clist(['(%s, %s)' % (cN(i), cbool(nd[i]['dis'][1][t % len(nd[i]['dis'][1])])) for i in struct['order'] if nd[i]['dis']])
        dem = clist(['(%s, %s)' % (cN(i), cq(nd[i]['demand'][t % len(nd[i]['demand'])])) for i in struct['order'] if nd[i]['demand'] is not None])
        inputs.append('(tbl false %s, tbl 0 %s)' % (dis, dem))
    return 'obs_run %s %s' % (net, clist(inputs))


def parse_model(val, case, struct):
    recs_raw, total = val
    recs = []
    for per in recs_raw:
        R = {}
        for i, nodeobs in zip(struct['order'], per):
            vals = [qv(x) for x in nodeobs[0]]
            r = dict(zip(NODE_FIELDS, vals)); r['cust'] = {}; r['supp'] = {}
            custs = list(struct['succs'][i]) + ([None] if struct['has_dem'][i] else [])
            supps = list(struct['preds'][i]) + ([None] if struct['ext_sup'][i] else [])
            k = 1
            for c in custs:
                v = [qv(x) for x in nodeobs[k]]; k += 1
                r['cust'][c] = dict(zip(CUST_FIELDS, v[:4])); r['cust'][c]['OP'] = v[4:]
            for p in supps:
                v = [qv(x) for x in nodeobs[k]]; k += 1
                r['supp'][p] = dict(zip(SUPP_FIELDS, v[:5])); r['supp'][p]['SP'] = v[5:]
            R[i] = r
        recs.append(R)
    return dict(recs=recs, total=qv(total))


def run_model(cases_structs, name='sim', shard=20, jobs=14):
    exprs = [coq_case(c, s) for c, s in cases_structs]
    vals = coq_eval_sharded(name, 'Sim.Model Sim.Obs', '', exprs, shard=shard, jobs=jobs, timeout=1500)
    return [parse_model(v, c, s) for v, (c, s) in zip(vals, cases_structs)]


def compare(impl, model, fields=None):
    """list of (period, node, field, impl value, model value) that differ (exact)"""
    diffs = []
    for t, (RI, RM) in enumerate(zip(impl['recs'], model['recs'])):
        for i in RI:
            a, b = RI[i], RM[i]
            for f in NODE_FIELDS:
                if fields and f not in fields: continue
                if f == 'FR':      # non-dyadic quotient: both sides correctly rounded to binary64
                    if float(a[f]) != float(b[f]): diffs.append((t, i, f, a[f], b[f]))
                elif a[f] != b[f]: diffs.append((t, i, f, a[f], b[f]))
            for c in a['cust']:
                for f in CUST_FIELDS + ['OP']:
                    if fields and f not in fields: continue
                    if a['cust'][c][f] != b['cust'][c][f]: diffs.append((t, i, '%s[%s]' % (f, c), a['cust'][c][f], b['cust'][c][f]))
            for p in a['supp']:
                for f in SUPP_FIELDS + ['SP']:
                    if fields and f not in fields: continue
                    if a['supp'][p][f] != b['supp'][p][f]: diffs.append((t, i, '%s[%s]' % (f, p), a['supp'][p][f], b['supp'][p][f]))
    if (not fields or 'TOTAL' in fields) and impl['total'] != model['total']:
        diffs.append((-1, None, 'TOTAL', impl['total'], model['total']))
    return diffs


# ------------------------------------------------------------------------------------------------
# classification

def nontrivial(case, impl):
    bo = any(v['BO'] > 0 for R in impl['recs'] for r in R.values() for v in r['cust'].values())
    pipe = any(sum(v['SP']) > 0 for R in impl['recs'] for r in R.values() for v in r['supp'].values())
    return bo and pipe


def case_key(case):
    return json.dumps(jsonable([case['edges'], case['T'], {k: v for k, v in sorted(case['nodes'].items())}]), sort_keys=True)
