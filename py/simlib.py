"""Shared harness for the simulator properties (C01-C06, C15): generator of single-product networks, adapter to
stockpyl's simulator, Coq-model evaluation (Sim/Model.v through Sim/Obs.v), comparison, and the property monitors
(oracles) evaluated on the IMPLEMENTATION's own state variables."""
import copy, itertools, json, os
from fractions import Fraction
from vlib import *

POL_TYPES = ['BS', 'sS', 'rQ', 'FQ']
DTYPES = ['OP', 'SP', 'TP', 'RP']
NODE_FIELDS = ['IL', 'OQFG', 'PFG', 'DMFS', 'DC', 'DMC', 'FR', 'HC', 'SC', 'ITHC', 'REV', 'TC']
CUST_FIELDS = ['IO', 'OS', 'BO', 'ODI']
SUPP_FIELDS = ['IS', 'IDI', 'RM', 'OO', 'OQ']


# ------------------------------------------------------------------------------------------------
# generator

def gen_topology(rng, nmax):
    n = rng.randint(1, nmax)
    kind = rng.choice(['serial', 'assembly', 'distribution', 'dag', 'dag']) if n > 1 else 'single'
    u = rng.random()
    if u < 0.5: ids = rng.sample(range(1, 60), n)
    elif u < 0.75: ids = list(range(1, n + 1))
    else:                            # node index 0 is a valid index (truthiness slips show up only there)
        ids = rng.sample(range(0, n + 2), n)
        if 0 not in ids: ids[rng.randrange(n)] = 0
    edges = []
    if kind == 'serial':
        edges = [(ids[i], ids[i + 1]) for i in range(n - 1)]
    elif kind == 'assembly':       # in-tree: every node but the last has one successor with larger position
        for i in range(n - 1):
            edges.append((ids[i], ids[rng.randint(i + 1, n - 1)]))
    elif kind == 'distribution':   # out-tree
        for i in range(1, n):
            edges.append((ids[rng.randint(0, i - 1)], ids[i]))
    elif kind == 'dag':
        for i in range(1, n):
            k = 1 if rng.random() < 0.6 else 2
            for p in rng.sample(range(i), min(k, i)):
                edges.append((ids[p], ids[i]))
    rng.shuffle(edges)
    return kind, ids, edges


def gen_case(rng, nmax=5, tmax=12, bias=None, policies=None, disruptions=True, olt_max=2, slt_max=3, ebs=False, levels=0.0):
    kind, ids, edges = gen_topology(rng, nmax)
    T = rng.randint(max(4, tmax // 2), tmax)
    succs = {i: [b for a, b in edges if a == i] for i in ids}
    preds = {i: [a for a, b in edges if b == i] for i in ids}
    nodes = {}
    pols = policies or POL_TYPES
    for i in ids:
        sink = not succs[i]
        has_dem = sink or rng.random() < 0.25
        pt = rng.choice(pols)
        if pt == 'EBS' and len(preds[i]) not in (0, 1, 2, 4):
            pt = 'BS'      # echelon position averages over the suppliers: keep the division exact in binary64
        if pt == 'BS':
            pol = ['BS', rng.randint(0, 25)]
        elif pt == 'sS':
            s_ = rng.randint(0, 12); pol = ['sS', s_, s_ + rng.randint(0, 15)]
        elif pt == 'rQ':
            pol = ['rQ', rng.randint(0, 12), rng.randint(1, 15)]
        elif pt == 'FQ':
            pol = ['FQ', rng.randint(0, 8)]
        else:
            pol = ['EBS', rng.randint(0, 40)]
        dl = None
        if has_dem:
            L = rng.choice([1, 2, 3, T, T + 3])
            dl = [rng.choice([0, 1, 2, 3, 5, 8, 13]) for _ in range(L)]
        dis = None
        if disruptions and rng.random() < (0.55 if bias else 0.4):
            dt = rng.choice(DTYPES)
            if bias == 'SP' and preds[i] and rng.random() < 0.7:
                dt = 'SP'
            L = rng.choice([2, 3, 5, T])
            dis = [dt, [rng.random() < 0.4 for _ in range(L)]]
        nodes[i] = dict(
            slt=rng.randint(0, slt_max), olt=rng.randint(0, olt_max) if rng.random() < 0.6 else 0, pol=pol,
            cap=(rng.randint(1, 12) if rng.random() < 0.3 else None),
            init_il=(rng.randint(0, 20) if rng.random() < 0.5 else None),
            h=Fraction(rng.randint(0, 12), 4), p=Fraction(rng.randint(0, 80), 4) if has_dem or rng.random() < .3 else Fraction(0),
            ith=rng.choice([None, None, Fraction(0), Fraction(rng.randint(1, 8), 4)]),
            rev=Fraction(rng.randint(0, 8), 4) if rng.random() < 0.3 else Fraction(0),
            demand=dl, dis=dis,
            init_orders=rng.choice([0, 0, 1, 3]), init_ships=rng.choice([0, 0, 2, 4]))
    case = dict(kind=kind, ids=ids, edges=[list(e) for e in edges], T=T, nodes=nodes)
    if levels and rng.random() < levels:
        gen_levels(rng, case)
    return case


# attributes that SupplyChainNode.get_attribute() resolves per product: a (node, product) entry of a dict at the node, else the node's own
# (singleton) value unless that is the default None, else the value of the SupplyChainProduct handled by the node
LEVEL_ATTRS = {'slt': 'shipment_lead_time', 'olt': 'order_lead_time', 'h': 'local_holding_cost', 'p': 'stockout_cost', 'ith': 'in_transit_holding_cost',
               'rev': 'revenue', 'cap': 'order_capacity', 'init_il': 'initial_inventory_level', 'init_orders': 'initial_orders',
               'init_ships': 'initial_shipments', 'pol': 'inventory_policy', 'demand': 'demand_source',
               'hf': 'local_holding_cost_function', 'pf': 'stockout_cost_function'}
INCLUDE_DEFECT_CLASSES = bool(os.environ.get('VERIF_SIM_DEFECT_CLASSES'))      # generate also the input classes on which the unchanged library fails (see gen_levels)


def gen_levels(rng, case):
    """WHERE the attributes of a node are specified (plumbing only: the configuration the attributes resolve to is unchanged, so the
    Stage-1 model and the monitors see the same case).  A node with 'prod' handles an explicit SupplyChainProduct with that index instead
    of its dummy product; 'lvl' {attr: 'product' | 'dict'} moves an attribute from the node (singleton) to the product or to a
    product-keyed dict at the node; 'decoy': attributes that stay at the node (and are not None) get a different value at the product,
    which the documented resolution order ignores; 'bom': predecessors to which the product is linked by an explicit bill of materials
    (number 1) - the others (and the external supplier) are linked by the network structure alone (network BOM number 1);
    'ext': a node with predecessors that is also supplied by the external supplier (supply_type 'U')."""
    ids = case['ids']; edges = case['edges']
    pids = rng.sample(range(0, 400), len(ids))
    all_nodes = rng.random() < 0.5
    blocked = set()
    if not INCLUDE_DEFECT_CLASSES:
        # DEFECT of the unchanged library (reported, input class excluded here): NodeStateVars.on_hand / .backorders read
        # `node._dummy_product.index`, which is None once an explicit product has been added -> AttributeError as soon as an echelon
        # base-stock policy looks at a node (itself or a descendant) that handles an explicit product.
        succs = {i: [b for a, b in edges if a == i] for i in ids}
        stack = [i for i in ids if case['nodes'][i]['pol'][0] == 'EBS']
        while stack:
            i = stack.pop()
            if i not in blocked: blocked.add(i); stack += succs[i]
    for i, pk in zip(ids, pids):
        v = case['nodes'][i]
        if i in blocked or not (all_nodes or rng.random() < 0.5): continue
        v['prod'] = pk
        style = rng.choice(['product', 'dict', 'mixed', 'mixed', 'lead-times'])
        lvl = {}
        for a in LEVEL_ATTRS:
            if a in ('hf', 'pf') and not v.get(a): continue
            if style == 'lead-times': w = rng.choice(['product', 'product', 'dict']) if a in ('slt', 'olt') else 'node'
            elif style == 'mixed': w = rng.choice(['node', 'product', 'dict'])
            else: w = style if rng.random() < 0.85 else 'node'
            if w != 'node': lvl[a] = w
        if rng.random() < 0.5 and lvl.get('slt') != lvl.get('olt'):
            lvl['olt'] = lvl.get('slt', 'node')
            if lvl['olt'] == 'node': del lvl['olt']
        preds = [a for a, b in edges if b == i]
        if preds and rng.random() < 0.25:
            v['ext'] = True
        if not INCLUDE_DEFECT_CLASSES:
            # DEFECTS of the unchanged library (reported; exactly these input classes are excluded):
            # (1) lead times given per (node, product) as a dict: sim.initialize() computes `np.max([n.order_lead_time or 0 ...])` -> TypeError
            for a in ('slt', 'olt'):
                if lvl.get(a) == 'dict': lvl[a] = 'product'
            # (2) sim._initialize_state_vars fills the initial shipment pipeline over `range(n.shipment_lead_time or 0)` (the NODE's attribute,
            # None when the lead times are given on the product): initial shipments / initial orders to the external supplier are then not put
            # into the pipeline (or into the wrong slots) while on_order counts them
            olt_slots = v['olt'] > 0 and v['init_orders'] > 0 and (not preds or bool(v.get('ext')))
            if (lvl.get('slt') == 'product' and v['slt'] > 0 and (v['init_ships'] > 0 or olt_slots)) or (lvl.get('olt') == 'product' and olt_slots):
                lvl.pop('slt', None); lvl.pop('olt', None)
            # (3) ... and resolves the initial orders of a successor with the SUPPLIER's product index (`s.get_attribute('initial_orders', prod_ind)`):
            # initial orders given on the successor's product / per (successor, product) never reach the supplier's order pipeline; the supplier's
            # pipeline is filled with the `initial_orders` attribute of the supplier's OWN product instead (even when the successor's are 0)
            if preds and v['olt'] > 0: lvl.pop('init_orders', None)
        v['lvl'] = lvl
        v['decoy'] = rng.random() < 0.5
        if preds and rng.random() < 0.6:
            v['bom'] = [p for p in preds if rng.random() < 0.6]
    for i in ids:        # an explicit bill of materials needs an explicit product at the supplier as well
        v = case['nodes'][i]
        if v.get('bom'):
            v['bom'] = [p for p in v['bom'] if 'prod' in case['nodes'][p]]
    return case


def case_from_json(c):
    c = copy.deepcopy(c)
    c['nodes'] = {int(k): v for k, v in c['nodes'].items()}
    for v in c['nodes'].values():
        for f in ('h', 'p', 'rev'):
            v[f] = Fraction(v[f])
        if v['ith'] is not None:
            v['ith'] = Fraction(v['ith'])
        for f in ('hf', 'pf'):
            if v.get(f): v[f] = [Fraction(x) for x in v[f]]
    return c


def cost_fn(ab, stockout=False):
    """optional cost functions of a node: holding f(x) = a x + b x^2 of the items held (not clamped, so a wrong argument shows),
    stockout g(IL) = a (-IL)+ + b ((-IL)+)^2 of the signed ending inventory level"""
    a, b = float(ab[0]), float(ab[1])
    if stockout:
        return lambda il: a * max(0.0, -il) + b * max(0.0, -il) ** 2
    return lambda x: a * x + b * x * x


def has_cost_fn(case):
    return any(v.get('hf') or v.get('pf') for v in case['nodes'].values())


# ------------------------------------------------------------------------------------------------
# implementation

def build_impl(case):
    from stockpyl.supply_chain_network import network_from_edges
    from stockpyl.supply_chain_product import SupplyChainProduct
    from stockpyl.policy import Policy
    from stockpyl.demand_source import DemandSource
    from stockpyl.disruption_process import DisruptionProcess
    ids = case['ids']; nd = case['nodes']
    def pol(p, **kw):
        if p[0] == 'BS': return Policy(type='BS', base_stock_level=p[1], **kw)
        if p[0] == 'sS': return Policy(type='sS', reorder_point=p[1], order_up_to_level=p[2], **kw)
        if p[0] == 'rQ': return Policy(type='rQ', reorder_point=p[1], order_quantity=p[2], **kw)
        if p[0] == 'FQ': return Policy(type='FQ', order_quantity=p[1], **kw)
        if p[0] == 'EBS': return Policy(type='EBS', base_stock_level=p[1], **kw)
        raise ValueError(p)
    def val(i, a, **kw):
        """the library value of attribute a (key of LEVEL_ATTRS) of node i"""
        v = nd[i].get(a)
        if a in ('h', 'p', 'rev'): return float(v)
        if a == 'ith': return None if v is None else float(v)
        if a == 'pol': return pol(v, **kw)
        if a == 'demand': return DemandSource(type='D', demand_list=list(v)) if v is not None else None
        if a == 'hf': return cost_fn(v) if v else None
        if a == 'pf': return cost_fn(v, stockout=True) if v else None
        return v
    def at_node(i, a):
        return nd[i].get('lvl', {}).get(a, 'node') == 'node'
    kw = {name: {i: (val(i, a) if at_node(i, a) else None) for i in ids} for a, name in LEVEL_ATTRS.items() if a not in ('hf', 'pf')}
    kw['disruption_process'] = {i: (DisruptionProcess(random_process_type='E', disruption_type=nd[i]['dis'][0],
                                                      disruption_state_list=list(nd[i]['dis'][1])) if nd[i]['dis'] else None) for i in ids}
    net = network_from_edges(edges=[tuple(e) for e in case['edges']], node_order_in_lists=list(ids), **kw)
    for n in net.nodes:
        if nd[n.index].get('hf') and at_node(n.index, 'hf'): n.local_holding_cost_function = cost_fn(nd[n.index]['hf'])
        if nd[n.index].get('pf') and at_node(n.index, 'pf'): n.stockout_cost_function = cost_fn(nd[n.index]['pf'], stockout=True)
    # explicit products; attributes given on the product or per (node, product)
    P = {}
    for n in net.nodes:
        v = nd[n.index]
        if v.get('prod') is None: continue
        lvl = v.get('lvl', {})
        pk = v['prod']; prod = SupplyChainProduct(index=pk); P[n.index] = prod
        for a, name in LEVEL_ATTRS.items():
            w = lvl.get(a, 'node')
            if w == 'node':
                if v.get('decoy') and a not in ('pol', 'demand', 'hf', 'pf') and v.get(a) is not None:
                    # the node's own value is set: a (different) value on the product must be ignored
                    x = val(n.index, a)
                    setattr(prod, name, (x + 1 + (n.index % 3)) if a in ('slt', 'olt') else x + 3)
                continue
            if a == 'demand' and v['demand'] is None: continue       # (the node keeps its empty demand source)
            kwp = dict(node=n, product=prod) if a == 'pol' else {}
            x = val(n.index, a, **kwp)
            if w == 'product':
                setattr(n, name, None); setattr(prod, name, x)
            else:
                setattr(n, name, {pk: x})
                if v.get('decoy') and a not in ('pol', 'demand', 'hf', 'pf') and x is not None:
                    setattr(prod, name, (x + 1 + (n.index % 3)) if a in ('slt', 'olt') else x + 3)
    for n in net.nodes:
        if nd[n.index].get('ext'): n.supply_type = 'U'       # before the product is added: adding it rebuilds the network bill of materials
    for n in net.nodes:
        for p in nd[n.index].get('bom') or []:
            P[n.index].set_bill_of_materials(raw_material=nd[p]['prod'], num_needed=1)
    for n in net.nodes:
        if n.index in P: n.add_product(P[n.index])
    return net


def prod_key(n):
    """index of the single product handled by node n (its dummy product unless an explicit product was added)"""
    assert len(n.product_indices) == 1, (n.index, n.product_indices)
    return n.product_indices[0]


def extract_records(net, T):
    """per period: {node: {field: Fraction, 'cust': {c: {...}}, 'supp': {p: {...}}}}; c, p are node ids or None"""
    recs = []
    for t in range(T):
        R = {}
        for n in net.nodes:
            sv = n.state_vars[t]
            prod = prod_key(n)
            r = dict(IL=F(sv.inventory_level[prod]), OQFG=F(sv.order_quantity_fg[prod]), PFG=F(sv.pending_finished_goods[prod]),
                     DMFS=F(sv.demand_met_from_stock[prod]), DC=F(sv.demand_cumul[prod]), DMC=F(sv.demand_met_from_stock_cumul[prod]),
                     FR=F(sv.fill_rate[prod]), HC=F(sv.holding_cost_incurred), SC=F(sv.stockout_cost_incurred),
                     ITHC=F(sv.in_transit_holding_cost_incurred), REV=F(sv.revenue_earned), TC=F(sv.total_cost_incurred),
                     DIS=bool(sv.disrupted), cust={}, supp={})
            for c in n.successor_indices(include_external=True):
                r['cust'][c] = dict(IO=F(sv.inbound_order[c][prod]), OS=F(sv.outbound_shipment[c][prod]),
                                    BO=F(sv.backorders_by_successor[c][prod]), ODI=F(sv.outbound_disrupted_items[c][prod]),
                                    OP=[F(x) for x in sv.inbound_order_pipeline[c][prod]])
            for p in n.predecessor_indices(include_external=True):
                rm = prod_key(net.nodes_by_index[p]) if p is not None else n._external_supplier_dummy_product.index
                r['supp'][p] = dict(IS=F(sv.inbound_shipment[p][rm]), IDI=F(sv.inbound_disrupted_items[p][rm]),
                                    RM=F(sv.raw_material_inventory[rm]), OO=F(sv.on_order_by_predecessor[p][rm]),
                                    OQ=F(sv.order_quantity[p][rm]), SP=[F(x) for x in sv.inbound_shipment_pipeline[p][rm]])
            R[n.index] = r
        recs.append(R)
    return recs


def structure(net):
    """what the model takes from the implementation as configuration: node order, neighbour orders"""
    return dict(order=[n.index for n in net.nodes],
                preds={n.index: list(n.predecessor_indices()) for n in net.nodes},
                succs={n.index: list(n.successor_indices()) for n in net.nodes},
                ext_sup={n.index: bool(n.has_external_supplier) for n in net.nodes},
                has_dem={n.index: bool(n.has_external_customer) for n in net.nodes})


def run_impl(case, step_split=None, seed=1, overrides=None):
    """returns dict(recs, total, struct) or dict(error=...).  overrides: {period: {node: quantity}} passed to step() as
    order_quantity_override in the single-supplier shorthand {node: {None: {None: q}}} (only with step_split)"""
    import stockpyl.sim as sim
    import warnings
    sim.issued_backorder_warning = False
    net = build_impl(case)
    T = case['T']
    with warnings.catch_warnings():
        warnings.simplefilter('ignore')
        if step_split is None:
            total = sim.simulation(net, T, rand_seed=seed, progress_bar=False, consistency_checks='N')
        else:
            sim.initialize(net, T, rand_seed=seed)
            for t in range(T):
                ov = (overrides or {}).get(t) or (overrides or {}).get(str(t))
                if ov:
                    sim.step(net, order_quantity_override={int(i): ({None: {None: q}} if q is not None else None) for i, q in ov.items()}, consistency_checks='N')
                else:
                    sim.step(net, consistency_checks='N')
            total = sim.close(net)
    return dict(recs=extract_records(net, T), total=F(total), struct=structure(net), net=net)


# ------------------------------------------------------------------------------------------------
# lifecycle of ONE network object: build -> simulate -> edit attributes / topology (through the public API) -> simulate again ...
# A lifecycle case is a single-product case (stage 0) plus c['stages'] = [{ops, T, how, ntr, copy}]; the ops of a stage are applied to the
# live object (apply_ops_net) and, independently, to the case (apply_ops_case) from which the twin network of that stage is built afresh.
#   ['set', i, a, x]                  attribute a (key of LEVEL_ATTRS, or 'dis') of node i becomes x, at the level (node / product / (node, product)) it is given on
#   ['add-sink', i, j, v, keep]       new node j (node data v) becomes a successor of i; i keeps its external demand iff keep
#   ['add-source', i, j, v, keep]     new node j becomes the predecessor of source node i; i keeps its external supplier iff keep
#   ['remove', i, fix]                node i (one neighbour) is removed; a predecessor left without customers gets the demand list fix['demand']

SET_ATTRS = ['slt', 'olt', 'h', 'p', 'ith', 'rev', 'cap', 'init_il', 'pol', 'demand', 'dis', 'init_orders', 'init_ships']


def preds_of(case, i): return [a for a, b in case['edges'] if b == i]
def succs_of(case, i): return [b for a, b in case['edges'] if a == i]


def excluded_class(case):
    """True if the case lies in an input class the generators keep away from: the defect classes of gen_levels (1)-(3), an echelon
    base-stock policy above an explicit product, or an echelon average that is not exact in binary64 (gen_case)"""
    nd = case['nodes']
    for i, v in nd.items():
        preds = preds_of(case, i); lvl = v.get('lvl') or {}
        if v['pol'][0] == 'EBS':
            if len(preds) + (1 if (not preds or v.get('ext')) else 0) not in (1, 2, 4): return True
            if not INCLUDE_DEFECT_CLASSES:
                stack = [i]; seen = set()
                while stack:
                    k = stack.pop()
                    if k in seen: continue
                    seen.add(k); stack += succs_of(case, k)
                    if nd[k].get('prod') is not None: return True
        if v.get('ext') and (v.get('prod') is None or not preds): return True       # (build_impl sets the supply type before the product is added)
        if INCLUDE_DEFECT_CLASSES: continue
        if lvl.get('slt') == 'dict' or lvl.get('olt') == 'dict': return True
        olt_slots = v['olt'] > 0 and v['init_orders'] > 0 and (not preds or bool(v.get('ext')))
        if (lvl.get('slt') == 'product' and v['slt'] > 0 and (v['init_ships'] > 0 or olt_slots)) or (lvl.get('olt') == 'product' and olt_slots): return True
        if preds and v['olt'] > 0 and lvl.get('init_orders'): return True
    return False


def gen_policy(rng, pols):
    pt = rng.choice(pols)
    if pt == 'BS': return ['BS', rng.randint(0, 25)]
    if pt == 'sS':
        s_ = rng.randint(0, 12); return ['sS', s_, s_ + rng.randint(0, 15)]
    if pt == 'rQ': return ['rQ', rng.randint(0, 12), rng.randint(1, 15)]
    if pt == 'FQ': return ['FQ', rng.randint(0, 8)]
    return ['EBS', rng.randint(0, 40)]


def gen_value(rng, a, T, pols, olt_max=2, slt_max=3):
    """a fresh value of attribute a, from the ranges of gen_case"""
    if a == 'slt': return rng.randint(0, slt_max)
    if a == 'olt': return rng.randint(0, olt_max)
    if a == 'h': return Fraction(rng.randint(0, 12), 4)
    if a == 'p': return Fraction(rng.randint(0, 80), 4)
    if a == 'ith': return rng.choice([None, Fraction(0), Fraction(rng.randint(1, 8), 4), Fraction(rng.randint(1, 8), 4)])
    if a == 'rev': return Fraction(rng.randint(0, 8), 4)
    if a == 'cap': return rng.choice([None, rng.randint(1, 12), rng.randint(1, 12)])
    if a == 'init_il': return rng.choice([None, rng.randint(0, 20), rng.randint(0, 20)])
    if a == 'pol': return gen_policy(rng, pols)
    if a == 'demand': return [rng.choice([0, 1, 2, 3, 5, 8, 13]) for _ in range(rng.choice([1, 2, 3, T, T + 3]))]
    if a == 'dis': return None if rng.random() < 0.3 else [rng.choice(DTYPES), [rng.random() < 0.4 for _ in range(rng.choice([2, 3, 5, T]))]]
    if a == 'init_orders': return rng.choice([0, 1, 3])
    if a == 'init_ships': return rng.choice([0, 2, 4])
    if a == 'hf': return None if rng.random() < 0.3 else [Fraction(rng.randint(0, 12), 4), Fraction(rng.choice([0, 0, 1, 2]), 4)]
    if a == 'pf': return None if rng.random() < 0.3 else [Fraction(rng.randint(0, 40), 4), Fraction(rng.choice([0, 0, 1, 2]), 4)]
    raise ValueError(a)


def gen_node(rng, T, has_dem, pols, olt_max=2, slt_max=3):
    """node data of a node added to an existing network (ranges of gen_case)"""
    g = lambda a: gen_value(rng, a, T, pols, olt_max, slt_max)
    return dict(slt=g('slt'), olt=(g('olt') if rng.random() < 0.6 else 0), pol=g('pol'), cap=(rng.randint(1, 12) if rng.random() < 0.3 else None),
                init_il=(rng.randint(0, 20) if rng.random() < 0.5 else None), h=g('h'), p=(g('p') if has_dem or rng.random() < .3 else Fraction(0)),
                ith=rng.choice([None, None, Fraction(0), Fraction(rng.randint(1, 8), 4)]), rev=(g('rev') if rng.random() < 0.3 else Fraction(0)),
                demand=(g('demand') if has_dem else None), dis=(g('dis') if rng.random() < 0.4 else None), init_orders=rng.choice([0, 0, 1, 3]), init_ships=rng.choice([0, 0, 2, 4]))


def apply_ops_case(case, ops):
    """the case after the edits (a new case; None if an edit does not apply)"""
    c = copy.deepcopy(case); nd = c['nodes']
    for op in ops:
        if op[0] == 'set':
            _, i, a, x = op
            if i not in nd: return None
            nd[i][a] = copy.deepcopy(x)
        elif op[0] == 'add-sink':
            _, i, j, v, keep = op
            if i not in nd or j in nd: return None
            c['ids'].append(j); c['edges'].append([i, j]); nd[j] = copy.deepcopy(v)
            if not keep: nd[i]['demand'] = None
        elif op[0] == 'add-source':
            _, i, j, v, keep = op
            if i not in nd or j in nd or preds_of(c, i): return None
            c['ids'].append(j); c['edges'].append([j, i]); nd[j] = copy.deepcopy(v)
            if keep: nd[i]['ext'] = True
            else: nd[i].pop('ext', None)
        elif op[0] == 'remove':
            _, i, fix = op
            nb = preds_of(c, i) + succs_of(c, i)
            if i not in nd or len(nb) != 1 or any(i in (v.get('bom') or []) for v in nd.values()): return None
            c['ids'].remove(i); del nd[i]; c['edges'] = [e for e in c['edges'] if i not in e]
            k = nb[0]
            if not preds_of(c, k): nd[k].pop('ext', None)        # now supplied by the external supplier alone
            if not succs_of(c, k) and nd[k]['demand'] is None: nd[k]['demand'] = list(fix['demand'])
        else:
            raise ValueError(op)
    c['kind'] = case['kind'] if not any(op[0] != 'set' for op in ops) else 'edited'
    return c


def lib_value(a, x, **kw):
    """the library value of attribute a (key of LEVEL_ATTRS or 'dis') for the case value x"""
    from stockpyl.policy import Policy
    from stockpyl.demand_source import DemandSource
    from stockpyl.disruption_process import DisruptionProcess
    if a in ('h', 'p', 'rev'): return float(x)
    if a == 'ith': return None if x is None else float(x)
    if a == 'pol':
        if x[0] == 'BS': return Policy(type='BS', base_stock_level=x[1], **kw)
        if x[0] == 'sS': return Policy(type='sS', reorder_point=x[1], order_up_to_level=x[2], **kw)
        if x[0] == 'rQ': return Policy(type='rQ', reorder_point=x[1], order_quantity=x[2], **kw)
        if x[0] == 'FQ': return Policy(type='FQ', order_quantity=x[1], **kw)
        if x[0] == 'EBS': return Policy(type='EBS', base_stock_level=x[1], **kw)
        raise ValueError(x)
    if a == 'demand': return DemandSource(type='D', demand_list=list(x)) if x is not None else DemandSource()
    if a == 'dis': return DisruptionProcess(random_process_type='E', disruption_type=x[0], disruption_state_list=list(x[1])) if x else DisruptionProcess()
    if a == 'hf': return cost_fn(x) if x else None
    if a == 'pf': return cost_fn(x, stockout=True) if x else None
    return x


def set_live_attr(net, v, i, a, x):
    """node i of the live network gets value x for attribute a, through the public attributes, at the level the case gives the attribute on
    (v = node data of the case; mirrors what build_impl does for a freshly built network, incl. the decoy value on the product)"""
    n = net.nodes_by_index[i]
    if a == 'dis':
        n.disruption_process = lib_value('dis', x); return
    name = LEVEL_ATTRS[a]; pk = v.get('prod'); w = (v.get('lvl') or {}).get(a, 'node') if pk is not None else 'node'
    prod = n.products_by_index[pk] if pk is not None else None
    plain = a not in ('pol', 'demand', 'hf', 'pf')
    def decoy():
        if prod is not None and v.get('decoy') and plain:
            X = lib_value(a, x)
            setattr(prod, name, None if X is None else ((X + 1 + (i % 3)) if a in ('slt', 'olt') else X + 3))
    if w == 'node':
        setattr(n, name, lib_value(a, x, node=n) if a == 'pol' else lib_value(a, x)); decoy()
    elif w == 'product':
        setattr(n, name, None); setattr(prod, name, lib_value(a, x, node=n, product=prod) if a == 'pol' else lib_value(a, x))
    else:
        setattr(n, name, {pk: (lib_value(a, x, node=n, product=prod) if a == 'pol' else lib_value(a, x))}); decoy()


def new_live_node(j, v, external_supplier):
    """a SupplyChainNode carrying the node data v, with the attributes network_from_edges would give it"""
    from stockpyl.supply_chain_node import SupplyChainNode
    n = SupplyChainNode(index=j)
    for a, name in LEVEL_ATTRS.items():
        if a in ('pol', 'hf', 'pf'): continue
        setattr(n, name, lib_value(a, v.get(a)))
    n.inventory_policy = lib_value('pol', v['pol'], node=n)
    n.disruption_process = lib_value('dis', v['dis'])
    n.supply_type = 'U' if external_supplier else None
    return n


def apply_ops_net(net, case, ops):
    """apply the edits to the LIVE network object (case = the case before the edits)"""
    from stockpyl.demand_source import DemandSource
    cur = case
    for op in ops:
        nxt = apply_ops_case(cur, [op])
        if op[0] == 'set':
            set_live_attr(net, nxt['nodes'][op[1]], op[1], op[2], op[3])
        elif op[0] == 'add-sink':
            _, i, j, v, keep = op
            net.add_successor(net.nodes_by_index[i], new_live_node(j, v, False))
            if cur['nodes'][i]['demand'] is not None and not keep: set_live_attr(net, nxt['nodes'][i], i, 'demand', None)
        elif op[0] == 'add-source':
            _, i, j, v, keep = op
            if not keep: net.nodes_by_index[i].supply_type = None
            net.add_predecessor(net.nodes_by_index[i], new_live_node(j, v, True))
        elif op[0] == 'remove':
            _, i, fix = op
            k = (preds_of(cur, i) + succs_of(cur, i))[0]
            if not preds_of(nxt, k): net.nodes_by_index[k].supply_type = 'U'       # before the removal, which rebuilds the network bill of materials
            net.remove_node(net.nodes_by_index[i])
            if cur['nodes'][k]['demand'] is None and nxt['nodes'][k]['demand'] is not None:
                set_live_attr(net, nxt['nodes'][k], k, 'demand', nxt['nodes'][k]['demand'])
        cur = nxt
    return cur


def gen_ops(rng, case, T, attrs, p_topology=0.2, pols=None, olt_max=2, slt_max=3, nmax=8):
    """0-3 edits that apply to `case` and keep it inside the generators' envelope; `attrs` = the attributes to draw 'set' edits from (with multiplicity)"""
    pols = pols or POL_TYPES
    ops = []; cur = case
    for _ in range(rng.choice([0, 1, 1, 2, 2, 3])):
        for attempt in range(10):
            ids = cur['ids']; nd = cur['nodes']
            if rng.random() < p_topology:
                kind = rng.choice(['add-sink', 'add-sink', 'add-source', 'remove'])
                free = [j for j in range(0, 60) if j not in nd]
                if kind == 'add-sink' and len(ids) < nmax:
                    # below a sink (the chain gets longer) or below any node (the node gets one more customer)
                    i = rng.choice([k for k in ids if not succs_of(cur, k)] if rng.random() < 0.6 else ids)
                    keep = nd[i]['demand'] is not None and (rng.random() < 0.3 or (nd[i].get('lvl') or {}).get('demand', 'node') != 'node')
                    op = ['add-sink', i, rng.choice(free), gen_node(rng, T, True, pols, olt_max, slt_max), keep]
                elif kind == 'add-source' and len(ids) < nmax:
                    i = rng.choice([k for k in ids if not preds_of(cur, k)])
                    op = ['add-source', i, rng.choice(free), gen_node(rng, T, rng.random() < 0.25, pols, olt_max, slt_max), nd[i].get('prod') is not None and rng.random() < 0.3]
                elif kind == 'remove' and len(ids) > 1:
                    cand = [k for k in ids if len(preds_of(cur, k)) + len(succs_of(cur, k)) == 1]
                    if not cand: continue
                    op = ['remove', rng.choice(cand), dict(demand=gen_value(rng, 'demand', T, pols))]
                else: continue
            else:
                i = rng.choice(ids); a = rng.choice(attrs)
                if a == 'demand' and nd[i]['demand'] is None: continue
                x = gen_value(rng, a, T, pols, olt_max, slt_max)
                if x == nd[i].get(a): continue
                op = ['set', i, a, x]
            nxt = apply_ops_case(cur, [op])
            if nxt is None or excluded_class(nxt): continue
            ops.append(op); cur = nxt
            break
    return ops, cur


def ops_from_json(ops):
    def node(v):
        v = dict(v)
        for f in ('h', 'p', 'rev'): v[f] = Fraction(v[f])
        if v['ith'] is not None: v['ith'] = Fraction(v['ith'])
        return v
    out = []
    for op in ops:
        op = list(op)
        if op[0] == 'set':
            if op[2] in ('h', 'p', 'rev') or (op[2] == 'ith' and op[3] is not None): op[3] = Fraction(op[3])
            if op[2] in ('hf', 'pf') and op[3]: op[3] = [Fraction(x) for x in op[3]]
        elif op[0] in ('add-sink', 'add-source'): op[3] = node(op[3])
        out.append(op)
    return out


def run_live(net, T, how='simulation', ntr=1, seed=1):
    """simulate the given network OBJECT: simulation() | initialize(); step() x T; close() | run_multiple_trials(ntr trials; the object then
    holds the last trial).  Returns dict(recs, total, struct, net[, mean, sem])."""
    import stockpyl.sim as sim
    import warnings
    out = {}
    with warnings.catch_warnings():
        warnings.simplefilter('ignore')
        if how == 'steps':
            sim.issued_backorder_warning = False
            sim.initialize(net, T, rand_seed=seed)
            for t in range(T): sim.step(net, consistency_checks='N')
            total = sim.close(net)
        elif how == 'trials':
            sim.issued_backorder_warning = True        # silence the one-off consistency warning of the default mode
            out['mean'], out['sem'] = sim.run_multiple_trials(net, ntr, T, rand_seed=seed, progress_bar=False)
            total = sum(float(sv.total_cost_incurred) for n in net.nodes for sv in n.state_vars)
        else:
            sim.issued_backorder_warning = False
            total = sim.simulation(net, T, rand_seed=seed, progress_bar=False, consistency_checks='N')
    out.update(recs=extract_records(net, T), total=F(total), struct=structure(net), net=net)
    return out


# ------------------------------------------------------------------------------------------------
# model

def cN(i):
    return '%d%%N' % i


def coq_policy(p):
    if p[0] == 'BS': return '(BS %s)' % cq(p[1])
    if p[0] == 'sS': return '(SS %s %s)' % (cq(p[1]), cq(p[2]))
    if p[0] == 'rQ': return '(RQ %s %s)' % (cq(p[1]), cq(p[2]))
    if p[0] == 'FQ': return '(FQ %s)' % cq(p[1])
    if p[0] == 'EBS': return '(EBS %s)' % cq(p[1])


def coq_case(case, struct):
    """Gallina term: obs_run net inputs"""
    nd = case['nodes']; T = case['T']
    cfgs = []
    for i in struct['order']:
        v = nd[i]
        cfgs.append('(%s, {| preds := %s; succs := %s; ext_sup := %s; has_dem := %s; slt := %s; olt := %s; pol := %s; cap := %s; '
                    'init_il := %s; hc := %s; pc := %s; ith := %s; rev := %s; dtype := %s; init_orders := %s; init_ships := %s |})' % (
                        cN(i), clist([cN(x) for x in struct['preds'][i]]), clist([cN(x) for x in struct['succs'][i]]),
                        cbool(struct['ext_sup'][i]), cbool(struct['has_dem'][i]), cnat(v['slt']), cnat(v['olt']), coq_policy(v['pol']),
                        copt(v['cap'] if v['cap'] else None), copt(v['init_il']), cq(v['h']), cq(v['p']), copt(v['ith']), cq(v['rev']),
                        ('(Some d%s)' % v['dis'][0]) if v['dis'] else 'None', cq(v['init_orders']), cq(v['init_ships'])))
    net = '{| nodes := %s; cfg := tbl dflt_cfg %s |}' % (clist([cN(i) for i in struct['order']]), clist(cfgs))
    inputs = []
    for t in range(T):
        dis = clist(['(%s, %s)' % (cN(i), cbool(nd[i]['dis'][1][t % len(nd[i]['dis'][1])])) for i in struct['order'] if nd[i]['dis']])
        dem = clist(['(%s, %s)' % (cN(i), cq(nd[i]['demand'][t % len(nd[i]['demand'])])) for i in struct['order'] if nd[i]['demand'] is not None])
        inputs.append('(tbl false %s, tbl 0 %s)' % (dis, dem))
    if has_cost_fn(case):      # cost FUNCTIONS: same run, cost read-out of Sim/CostFn.v with the node's functions (quadratics of py cost_fn)
        hf = clist(['(%s, Some (quad_h %s %s))' % (cN(i), cq(nd[i]['hf'][0]), cq(nd[i]['hf'][1])) for i in struct['order'] if nd[i].get('hf')])
        sf = clist(['(%s, Some (quad_p %s %s))' % (cN(i), cq(nd[i]['pf'][0]), cq(nd[i]['pf'][1])) for i in struct['order'] if nd[i].get('pf')])
        return 'obs_run_fn %s (tbl None %s) (tbl None %s) %s' % (net, hf, sf, clist(inputs))
    return 'obs_run %s %s' % (net, clist(inputs))


def parse_model(val, case, struct):
    recs_raw, total = val
    recs = []
    for per in recs_raw:
        R = {}
        for i, nodeobs in zip(struct['order'], per):
            vals = [qv(x) for x in nodeobs[0]]
            r = dict(zip(NODE_FIELDS, vals)); r['cust'] = {}; r['supp'] = {}
            custs = list(struct['succs'][i]) + ([None] if struct['has_dem'][i] else [])
            supps = list(struct['preds'][i]) + ([None] if struct['ext_sup'][i] else [])
            k = 1
            for c in custs:
                v = [qv(x) for x in nodeobs[k]]; k += 1
                r['cust'][c] = dict(zip(CUST_FIELDS, v[:4])); r['cust'][c]['OP'] = v[4:]
            for p in supps:
                v = [qv(x) for x in nodeobs[k]]; k += 1
                r['supp'][p] = dict(zip(SUPP_FIELDS, v[:5])); r['supp'][p]['SP'] = v[5:]
            R[i] = r
        recs.append(R)
    return dict(recs=recs, total=qv(total))


def run_model(cases_structs, name='sim', shard=20, jobs=14):
    exprs = [coq_case(c, s) for c, s in cases_structs]
    vals = coq_eval_sharded(name, 'Sim.Model Sim.Obs Sim.CostFn', '', exprs, shard=shard, jobs=jobs, timeout=1500)
    return [parse_model(v, c, s) for v, (c, s) in zip(vals, cases_structs)]


def compare(impl, model, fields=None):
    """list of (period, node, field, impl value, model value) that differ (exact)"""
    diffs = []
    for t, (RI, RM) in enumerate(zip(impl['recs'], model['recs'])):
        for i in RI:
            a, b = RI[i], RM[i]
            for f in NODE_FIELDS:
                if fields and f not in fields: continue
                if f == 'FR':      # non-dyadic quotient: both sides correctly rounded to binary64
                    if float(a[f]) != float(b[f]): diffs.append((t, i, f, a[f], b[f]))
                elif a[f] != b[f]: diffs.append((t, i, f, a[f], b[f]))
            for c in a['cust']:
                for f in CUST_FIELDS + ['OP']:
                    if fields and f not in fields: continue
                    if a['cust'][c][f] != b['cust'][c][f]: diffs.append((t, i, '%s[%s]' % (f, c), a['cust'][c][f], b['cust'][c][f]))
            for p in a['supp']:
                for f in SUPP_FIELDS + ['SP']:
                    if fields and f not in fields: continue
                    if a['supp'][p][f] != b['supp'][p][f]: diffs.append((t, i, '%s[%s]' % (f, p), a['supp'][p][f], b['supp'][p][f]))
    if (not fields or 'TOTAL' in fields) and impl['total'] != model['total']:
        diffs.append((-1, None, 'TOTAL', impl['total'], model['total']))
    return diffs


# ------------------------------------------------------------------------------------------------
# classification

def nontrivial(case, impl):
    bo = any(v['BO'] > 0 for R in impl['recs'] for r in R.values() for v in r['cust'].values())
    pipe = any(sum(v['SP']) > 0 for R in impl['recs'] for r in R.values() for v in r['supp'].values())
    return bo and pipe


def case_key(case):
    return json.dumps(jsonable([case['edges'], case['T'], {k: v for k, v in sorted(case['nodes'].items())}]), sort_keys=True)
