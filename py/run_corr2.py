"""Correspondence of the Stage-2 model (Model2.v) with stockpyl's simulator on generated multi-product networks.
usage: PYTHONPATH=/repo/src:/verif/py /venv/bin/python py/run_corr2.py [n] [seed] [--probes] [--single m] [-v]
Prints: cases compared / skipped (near tie) / disagreeing, the first disagreements (period, node, field, implementation, model),
timing per case.  Exit status 1 if any disagreement."""
import sys, os, json, random, time, warnings
sys.path.insert(0, os.path.dirname(os.path.abspath(__file__)))
from fractions import Fraction
from vlib import *
import simlib, simmon, sim2lib


def gen_cases(n, seed):
    rng = random.Random(seed)
    out = []
    for j in range(n):
        big = (j % 5 == 4)           # as simmon.explore: mostly nmax 5 / tmax 12, some nmax 8 / tmax 30
        c = simmon.gen_multi(rng, nmax=(8 if big else 5), tmax=(30 if big else 12))
        c = simmon.multi_from_json(json.loads(json.dumps(jsonable(c))))
        out.append(c)
    return out


def run_impl(case):
    impl = simmon.run_multi(case)
    spec = simmon.spec_multi(case, impl)
    G, stray = simmon.g_multi(impl['net'], case['T'], spec)
    st, problems = sim2lib.struct2(impl['net'], spec)
    return dict(impl=impl, spec=spec, G=G, stray=stray, st=st, problems=problems)


def single_cross_check(m, seed):
    """Stage-1 (single-product, dummy products) cases through the Stage-2 model: exact comparison (integer data)"""
    rng = random.Random(seed * 7919 + 1)
    items = []
    for j in range(m):
        big = (j % 5 == 4)
        c = simlib.gen_case(rng, nmax=(8 if big else 5), tmax=(30 if big else 12), policies=['BS', 'sS', 'rQ', 'FQ'])
        c = simlib.case_from_json(json.loads(json.dumps(jsonable(c))))
        with warnings.catch_warnings():
            warnings.simplefilter('ignore')
            impl = simlib.run_impl(c)
        spec = simmon.spec_single(c, impl['struct'])
        items.append((c, impl, spec, simmon.g_single(impl['recs'])))
    t = time.time()
    Ms = sim2lib.run_model2([(spec, None) for _, _, spec, _ in items], name='single%d' % seed)
    nbad = 0
    for (c, impl, spec, G), M in zip(items, Ms):
        diffs = sim2lib.compare2(G, impl['total'], M, tol=0.0)
        if diffs:
            nbad += 1
            if nbad <= 3:
                print('  SINGLE-PRODUCT DISAGREE: %d differences; first %s' % (len(diffs), [(d[0], d[1], d[2], fmt(d[3]), fmt(d[4])) for d in diffs[:4]]))
                path = os.path.join(BUILD, 'wip', 'sim2', 'out', 'single_disagree_%d_%d.json' % (seed, nbad))
                os.makedirs(os.path.dirname(path), exist_ok=True); json.dump(jsonable(c), open(path, 'w'))
    print('single-product cross-check (Stage-1 generator, exact comparison): %d cases, %d disagreeing; model %.1f s' % (m, nbad, time.time() - t))
    return nbad


def classify(R, M, tol=1e-9):
    """-> (status, info): 'agree' | 'flip' (differences, and a decision at a threshold explains the first of them: info['fixes'])
    | 'DISAGREE'"""
    diffs = sim2lib.compare2(R['G'], R['impl']['total'], M, tol)
    strict, exact = sim2lib.near_ties(R['spec'], M)
    if not diffs:
        return 'agree', dict(diffs=[], exact_ties=len(exact), near_ties=len(strict))
    fixes = sim2lib.flip_fixes(R['spec'], R['G'], M, diffs, tol)
    if fixes:
        return 'flip', dict(diffs=diffs, fixes=fixes)
    return 'DISAGREE', dict(diffs=diffs)


def fmt(x):
    if isinstance(x, Fraction):
        return '%s (%.12g)' % (x, float(x)) if x.denominator != 1 else str(x.numerator)
    return str(x)


def main():
    args = [a for k, a in enumerate(sys.argv[1:]) if not a.startswith('-') and sys.argv[k] != '--single']
    n = int(args[0]) if args else 100
    seed = int(args[1]) if len(args) > 1 else 1
    verbose = '-v' in sys.argv
    cases = [('gen%d/%d' % (seed, j), c) for j, c in enumerate(gen_cases(n, seed))]
    if '--probes' in sys.argv:
        cases += [('probe:' + sig, simmon.multi_from_json(json.loads(json.dumps(jsonable(c))))) for sig, c in simmon.multi_defect_probes()]
    t0 = time.time()
    runs = []; raised = []; structural = []
    for name, c in cases:
        try:
            with warnings.catch_warnings():
                warnings.simplefilter('ignore')
                R = run_impl(c)
        except Exception as e:
            raised.append((name, '%s: %s' % (type(e).__name__, str(e)[:200]), c)); continue
        if R['problems']: structural.append((name, R['problems'][0]))
        runs.append((name, c, R))
    t_impl = time.time() - t0
    t1 = time.time()
    # round 0: the exact model (no position errors, no clipping), shards of 8 cases.  Cases in a shard that exceeds EXACT_TIMEOUT are
    #   evaluated one by one; a case whose exact evaluation exceeds ONE_TIMEOUT (reduced denominators doubling every few periods)
    #   is evaluated with the state rounded to the grid 2^-CLIP_BITS at the period boundaries ('clipped').
    # further rounds: cases whose first difference is explained by a decision at a threshold (exact position ON the reorder point /
    #   base-stock level; the implementation's rounding error decides) are re-run (clipped) with that error fed to the model, until they
    #   agree, or no such explanation is left (DISAGREE), or the budget (MAXR rounds, RERUN_BUDGET s per case) is exhausted (skipped).
    MAXR = 40; EXACT_TIMEOUT = 150; ONE_TIMEOUT = 60; RERUN_TIMEOUT = 300; RERUN_BUDGET = 900
    state = [dict(name=name, c=c, R=R, err={}, rounds=0, status=None, clipped=False, spent=0.0, M=None, info=dict(diffs=[])) for name, c, R in runs]
    def ev(js, tag, **kw):
        ms = sim2lib.run_model2([(state[j]['R']['spec'], state[j]['R']['st'], state[j]['err'], (sim2lib.CLIP_BITS if state[j]['clipped'] else None)) for j in js],
                                name='corr%d_%s' % (seed, tag), **kw)
        return ms, list(sim2lib.run_model2.times)
    todo = list(range(len(state))); evals = 0
    models, times = ev(todo, '0', shard=8, timeout=EXACT_TIMEOUT, tolerate=True)
    cpu0 = sim2lib.run_model2.cpu; evals += len(todo)
    slow = [j for j, M in zip(todo, models) if M is None]
    if slow:
        m2, _ = ev(slow, '0b', shard=1, timeout=ONE_TIMEOUT, tolerate=True); evals += len(slow)
        for j, M in zip(slow, m2): models[todo.index(j)] = M
        slow2 = [j for j, M in zip(slow, m2) if M is None]
        for j in slow2: state[j]['clipped'] = True
        if slow2:
            m3, _ = ev(slow2, '0c', shard=1, timeout=RERUN_TIMEOUT, tolerate=True); evals += len(slow2)
            for j, M in zip(slow2, m3): models[todo.index(j)] = M
    rnd = 0
    while todo:
        nxt = []
        for j, M in zip(todo, models):
            S = state[j]
            if M is None:
                S['status'] = 'skip'; S['why'] = 'evaluation of the model exceeded %d s' % RERUN_TIMEOUT; continue
            status, info = classify(S['R'], M)
            S['M'] = M; S['info'] = info
            if status == 'flip':
                new = {k: v for k, v in info['fixes'].items() if S['err'].get(k) != v}
                if not new: S['status'] = 'DISAGREE'
                elif rnd >= MAXR or S['spent'] > RERUN_BUDGET: S['status'] = 'skip'; S['why'] = 'still flipping after %d re-runs (%.0f s)' % (S['rounds'], S['spent'])
                else:
                    S['err'].update(new); S['rounds'] += 1; S['clipped'] = True; nxt.append(j)
            else:
                S['status'] = status
        todo = nxt; rnd += 1
        if todo:       # error-fed re-runs: one case per coqc process, bounded time (arithmetic on injected binary64 noise is slow)
            models, times = ev(todo, str(rnd), shard=1, timeout=RERUN_TIMEOUT, tolerate=True); evals += len(todo)
            for j, tm in zip(todo, times): state[j]['spent'] += tm
    t_model = time.time() - t1
    stat = {}; bad = []; skipped = []
    nprod = 0; ninexact = 0; nflip = 0; nfix = 0; nexact = 0; nclip = 0
    for S in state:
        stat[S['status']] = stat.get(S['status'], 0) + 1
        if S['M'] is not None and sim2lib.inexact(S['M']) is not None: ninexact += 1
        nprod += sum(len(v['products']) for v in S['R']['spec']['nodes'].values())
        if S['status'] == 'DISAGREE': bad.append((S['name'], S['c'], S['info'], S['err']))
        elif S['status'] == 'skip': skipped.append((S['name'], S['why'], S['info']))
        elif S['rounds']: nflip += 1; nfix += len(S['err'])
        elif S['clipped']: nclip += 1
        if S['status'] == 'agree': nexact += S['info']['exact_ties']
    print('seed %d: %d cases generated, %d run by the implementation (%d raised), %d with non-binary64 values' % (seed, len(cases), len(runs), len(raised), ninexact))
    print('  compared %d: agree %d [exact model %d; exact model with the state rounded to 2^-%d per period (exact evaluation too expensive) %d; after feeding the '
          'implementation\'s rounding error at threshold decisions to the model %d (%d decisions)]   skipped %d   DISAGREEING %d' % (
        stat.get('agree', 0) + stat.get('DISAGREE', 0), stat.get('agree', 0), stat.get('agree', 0) - nflip - nclip, sim2lib.CLIP_BITS, nclip, nflip, nfix, stat.get('skip', 0), stat.get('DISAGREE', 0)))
    print('  decisions with the position exactly on the threshold in the agreeing runs: %d' % nexact)
    print('  implementation %.1f s; model %.1f s wall for %d evaluations in %d rounds; round 0 (exact model): %.2f s of coqc per case (sum of shard wall times / cases); %.1f products per case' % (
        t_impl, t_model, evals, rnd, cpu0 / max(1, len(runs)), nprod / max(1, len(runs))))
    for name, what, c in raised[:5]:
        print('  RAISED %s: %s' % (name, what))
    for name, pr in structural[:5]:
        print('  STRUCTURE differs from spec_multi %s: %s' % (name, pr))
    for name, why, info in skipped[:10]:
        print('  skipped %s (decision on a threshold flipped by rounding): %s; %d differences in the last comparison' % (name, why, len(info['diffs'])))
    os.makedirs(os.path.join(BUILD, 'wip', 'sim2', 'out'), exist_ok=True)
    for name, c, info, err in bad[:5]:
        print('  DISAGREE %s: %d differences (position errors fed: %s); first:' % (name, len(info['diffs']), {k: float(v) for k, v in err.items()}))
        for d in info['diffs'][:6]:
            print('     period %s node %s field %s: implementation %s, model %s' % (d[0], d[1], d[2], fmt(d[3]), fmt(d[4])))
        path = os.path.join(BUILD, 'wip', 'sim2', 'out', 'disagree_%s.json' % name.replace('/', '_').replace('|', '_').replace(':', '_'))
        json.dump(jsonable(c), open(path, 'w'))
        print('     case written to', path)
    nb = 0
    if '--single' in sys.argv:
        nb = single_cross_check(int(sys.argv[sys.argv.index('--single') + 1]), seed)
    return 1 if (bad or raised or nb) else 0


if __name__ == '__main__':
    sys.exit(main())
