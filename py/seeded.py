"""Evaluate seeded changes (/verif/seeded/<id>/) against the checks.

usage:  /venv/bin/python py/seeded.py import <prop-id> <worktree-mutants-dir>     # copy m{k}.{diff,_demo.py,md} into seeded/
        /venv/bin/python py/seeded.py run <seeded-id> [--tier quick]              # demo + check on a scratch copy
        /venv/bin/python py/seeded.py runall
A scratch copy of /repo/src is made under /var/tmp/verif-mut-*, the patch is applied there, the demonstration is run with and
without the patch, then the property's check is run with VERIF_REPO_SRC pointing at the scratch copy. /repo is never touched.
"""
import json, os, re, shutil, subprocess, sys, tempfile, time, glob

VERIF = '/verif'; SEEDED = os.path.join(VERIF, 'seeded')
PY = '/venv/bin/python'


def sh(cmd, env=None, cwd=None, timeout=3600):
    p = subprocess.run(cmd, shell=isinstance(cmd, str), cwd=cwd, env=env, stdout=subprocess.PIPE, stderr=subprocess.STDOUT, text=True, timeout=timeout, errors='replace')
    return p.returncode, p.stdout


def do_import(pid, mdir, offset=0):
    pid = pid.upper()
    for diff in sorted(glob.glob(os.path.join(mdir, 'm*.diff'))):
        k = os.path.basename(diff)[:-5]
        sid = '%s_m%d' % (pid, int(k[1:]) + offset)
        d = os.path.join(SEEDED, sid); os.makedirs(d, exist_ok=True)
        shutil.copy(diff, os.path.join(d, 'patch.diff'))
        demo = os.path.join(mdir, k + '_demo.py')
        text = open(demo).read()
        # demos were written against a private worktree: make the library location configurable
        text = re.sub(r'/tmp/wt-[a-z0-9]+/src', "' + __import__('os').environ.get('SEEDED_SRC', '/repo/src') + '", text) if False else text
        open(os.path.join(d, 'demo.py'), 'w').write(text)
        md = open(os.path.join(mdir, k + '.md')).read() if os.path.exists(os.path.join(mdir, k + '.md')) else ''
        meta = {'id': sid, 'property': pid, 'source': 'independent sub-agent given only the property text and a private worktree of /repo' + (' (round %s)' % os.environ.get('SEEDED_ROUND', '2') if offset else ''),
                'needs_to_manifest': md.strip(), 'ran': None}
        json.dump(meta, open(os.path.join(d, 'meta.json'), 'w'), indent=1)
        print('imported', sid)


def scratch_with_patch(patch):
    root = tempfile.mkdtemp(prefix='verif-mut-', dir='/var/tmp')
    shutil.copytree('/repo/src', os.path.join(root, 'src'))
    if os.path.isdir('/repo/tests'):
        pass
    rc, out = sh(['git', 'apply', '--unsafe-paths', '--directory=' + root, patch], cwd='/')
    if rc != 0:
        rc, out = sh('cd %s && patch -p1 < %s' % (root, patch))
        if rc != 0:
            shutil.rmtree(root, ignore_errors=True)
            raise RuntimeError('patch does not apply: ' + out[-500:])
    return root


def run_demo(demo, src):
    env = dict(os.environ, PYTHONPATH=src, PYTHONWARNINGS='ignore', PYTHONDONTWRITEBYTECODE='1')
    # demos hard-code their worktree path in sys.path inserts; PYTHONPATH precedence is not enough then, so rewrite on the fly
    text = open(demo).read()
    text2 = re.sub(r'/tmp/wt-[a-z0-9]+/src', src, text)
    tmp = tempfile.NamedTemporaryFile('w', suffix='_demo.py', dir='/var/tmp', delete=False); tmp.write(text2); tmp.close()
    try:
        rc, out = sh([PY, tmp.name], env=env, timeout=900)
    finally:
        os.unlink(tmp.name)
    return rc, out


def do_run(sid, tier='quick'):
    d = os.path.join(SEEDED, sid); meta = json.load(open(os.path.join(d, 'meta.json')))
    pid = meta['property']
    rc0, out0 = run_demo(os.path.join(d, 'demo.py'), '/repo/src')
    root = scratch_with_patch(os.path.join(d, 'patch.diff'))
    try:
        rc1, out1 = run_demo(os.path.join(d, 'demo.py'), os.path.join(root, 'src'))
        t0 = time.time()
        env = dict(os.environ, VERIF_REPO_SRC=os.path.join(root, 'src'))
        ev = os.path.join(VERIF, 'evidence', pid + '.json')
        saved = open(ev).read() if os.path.exists(ev) else None      # evidence must describe runs on the unchanged tree only
        try:
            rc2, out2 = sh([os.path.join(VERIF, 'check'), pid, '--tier', tier], env=env, cwd=VERIF, timeout=7200)
        finally:
            if saved is not None:
                open(ev, 'w').write(saved)
        wall = time.time() - t0
    finally:
        shutil.rmtree(root, ignore_errors=True)
        # the run above regenerated coq/gen/*.v from the CHANGED copy: regenerate them from /repo so that nothing stale is left behind
        if pid in ('C09', 'C10', 'C14'):      # only these checks use the translator (and they must not run concurrently with each other)
            sh([PY, os.path.join(VERIF, 'py', 'py2v.py')], env=dict(os.environ, PYTHONPATH='/repo/src:/verif/py'), cwd=VERIF)
    viol = [l for l in out2.split('\n') if l.startswith('VIOLATION')]
    concrete = [l for l in viol if 'no-failing-input-found' not in l]
    sigs = []
    for l in concrete[:3]:
        m = re.search(r'replay=(\S+)', l)
        if m and os.path.exists(m.group(1)):
            try:
                rp = json.load(open(m.group(1))); sigs.append('%s: %s' % (rp.get('signature'), str(rp.get('what'))[:160]))
            except Exception:
                pass
    res = {'demo_unpatched_exit': rc0, 'demo_patched_exit': rc1, 'check': './check %s --tier %s (VERIF_REPO_SRC=scratch copy with patch)' % (pid, tier),
           'check_exit': rc2, 'violation_lines': viol[:4], 'concrete_failing_input': bool(concrete), 'signatures': sigs, 'check_wall_s': round(wall, 1),
           'verdict': ('caught-with-failing-input' if concrete else ('caught-no-failing-input-found' if viol else 'MISSED')),
           'summary_line': (out2.strip().split('\n') or [''])[-1]}
    meta['ran'] = res
    json.dump(meta, open(os.path.join(d, 'meta.json'), 'w'), indent=1)
    print('%-10s demo %d/%d  check exit %d  %s  %.0fs' % (sid, rc0, rc1, rc2, res['verdict'], wall))
    # restore the evidence file of the property to a clean state is the caller's job (re-run the check on the unchanged tree)
    return res


def do_table():
    rows = ['| id | file changed | what the change needs in order to show | outcome of `./check <prop> --tier quick` on the changed copy | first signature |', '|---|---|---|---|---|']
    for sid in sorted(os.listdir(SEEDED)):
        mp = os.path.join(SEEDED, sid, 'meta.json')
        if not os.path.exists(mp): continue
        m = json.load(open(mp)); r = m.get('ran') or {}
        patch = open(os.path.join(SEEDED, sid, 'patch.diff')).read()
        files = sorted(set(x.replace('src/stockpyl/', '') for x in re.findall(r'^\+\+\+ b/(\S+)', patch, re.M)))
        first = re.sub(r'^[#\s]*(Mutant\s*\d+|m\d+)\s*[-—–]*\s*', '', (m.get('needs_to_manifest') or '').strip().split('\n')[0]).replace('|', '/')[:120]
        sig = (r.get('signatures') or [''])[0].split(':')[0].replace('|', ' / ')
        rows.append('| %s | %s | %s | %s (%ss) | %s |' % (sid, ', '.join(files), first, r.get('verdict'), r.get('check_wall_s'), sig))
    open(os.path.join(SEEDED, 'TABLE.md'), 'w').write('# Seeded changes and what the checks report on them\n\nGenerated by `py/seeded.py table` from `seeded/*/meta.json` '
        '(each written by `py/seeded.py run <id>`: demonstration on the unchanged and on the changed copy, then the property\'s quick check with `VERIF_REPO_SRC` pointing at the changed copy).\n\n' + '\n'.join(rows) + '\n')
    print('\n'.join(rows))


if __name__ == '__main__':
    if sys.argv[1] == 'import':
        do_import(sys.argv[2], sys.argv[3], int(sys.argv[4]) if len(sys.argv) > 4 else 0)
    elif sys.argv[1] == 'run':
        do_run(sys.argv[2], sys.argv[4] if len(sys.argv) > 4 else 'quick')
    elif sys.argv[1] == 'table':
        do_table()
    elif sys.argv[1] == 'runall':
        # one worker per property (the runs of one property share its evidence file; C09 and C10 share the translator output)
        import concurrent.futures
        groups = {}
        for sid in sorted(os.listdir(SEEDED)):
            if os.path.exists(os.path.join(SEEDED, sid, 'meta.json')):
                g = sid.split('_')[0]; g = 'C09' if g in ('C10', 'C14') else g      # the translator writes coq/gen: these three run one after the other
                if g in os.environ.get('SEEDED_SKIP', '').split(','): continue
                if os.environ.get('SEEDED_MATCH') and not re.search(os.environ['SEEDED_MATCH'], sid): continue
                groups.setdefault(g, []).append(sid)
        def work(sids):
            out = []
            for sid in sids:
                try: out.append((sid, do_run(sid)['verdict']))
                except Exception as e: out.append((sid, 'ERROR %s' % e))
            return out
        jobs = int(sys.argv[2]) if len(sys.argv) > 2 else 6
        with concurrent.futures.ThreadPoolExecutor(max_workers=jobs) as ex:
            res = [r for rs in ex.map(work, groups.values()) for r in rs]
        bad = [r for r in res if r[1] != 'caught-with-failing-input']
        print('%d seeded changes, %d caught with a failing input; others: %s' % (len(res), len(res) - len(bad), bad))
