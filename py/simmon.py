"""Property monitors (oracles) for the simulator properties C01-C06, evaluated on the IMPLEMENTATION's own state
variables, in exact Fractions (tol=None) or with a relative tolerance (multi-product networks: share fractions are
not dyadic).  Nothing here calls the Coq model or stockpyl's own bookkeeping helpers: every identity is recomputed
from the per-period records and from an independent description (`spec`) of the network that is derived from the
generated case, not from the network object.

General record form G[t][n] (t = period, n = node id):
    prod {k: {IL OQFG PFG DMFS DC DMC FR}}            k = product key
    cust {(c, k): {IO OS BO ODI OP}}                  c = successor id or None (external customer); OP = order pipeline
    supp {(p, r): {IS IDI OO OQ SP}}                  p = predecessor id or None (external supplier), r = raw-material key
    RM   {r: units}      HC SC ITHC REV TC DIS
spec['nodes'][n]: products, bom {k: {r: NBOM}}, sup {r: [p..]}, custs {k: [c..]} (service order), slt, olt, dtype,
    dis [bool]*T, h p ith rev cap pol {k: ..}, rmh {r: holding rate of the raw material}, demand {k: [..]*T | None},
    init_il {k: resolved initial level}, init_orders, init_ships.
Single-product cases (simlib.gen_case): product key of node i is i, raw-material key is the supplier id or 'x' (external).

Each monitor returns a list of (signature, what)."""
import copy, json, time, warnings
from fractions import Fraction
from vlib import *
import simlib

Z = Fraction(0)
PROD_FIELDS = ['IL', 'OQFG', 'PFG', 'DMFS', 'DC', 'DMC', 'FR']
COST_FIELDS = ['HC', 'SC', 'ITHC', 'REV', 'TC']


class Bad(list):
    """failure list, at most `cap` entries per signature"""
    def __init__(self, cap=2):
        super().__init__(); self.n = {}; self.cap = cap

    def add(self, sig, what):
        self.n[sig] = self.n.get(sig, 0) + 1
        if self.n[sig] <= self.cap:
            self.append((sig, what))


def _eq(a, b, tol):
    return a == b if tol is None else abs(a - b) <= tol * max(1, abs(a), abs(b))


def _le(a, b, tol):
    return a <= b if tol is None else a <= b + tol * max(1, abs(a), abs(b))


def fq(x):
    return str(x) if isinstance(x, Fraction) and x.denominator != 1 else str(int(x)) if isinstance(x, Fraction) else str(x)


def pos(x): return x if x > 0 else Z
def neg(x): return -x if x < 0 else Z


def rule(pol, ip):
    """the documented ordering rules"""
    ip = Fraction(ip)
    if pol[0] in ('BS', 'EBS'): return max(Z, Fraction(pol[1]) - ip)
    if pol[0] == 'sS': return Fraction(pol[2]) - ip if ip <= pol[1] else Z
    if pol[0] == 'rQ': return Fraction(pol[2]) if ip <= pol[1] else Z
    if pol[0] == 'FQ': return Fraction(pol[1])
    raise ValueError(pol)


# ------------------------------------------------------------------------------------------------
# spec / records of single-product cases

def cyc(lst, t):
    return lst[t % len(lst)]


def spec_single(case, struct=None):
    T = case['T']; nd = case['nodes']; ids = list(case['ids'])
    edges = [tuple(e) for e in case['edges']]
    spec = dict(T=T, nodes={}, order=ids, multi=False)
    for i in ids:
        v = nd[i]
        preds = [a for a, b in edges if b == i]; succs = [b for a, b in edges if a == i]
        if struct is not None:          # service order is configuration read from the implementation
            assert sorted(struct['succs'][i]) == sorted(succs) and sorted(struct['preds'][i]) == sorted(preds)
            assert struct['ext_sup'][i] == (not preds or bool(v.get('ext'))) and struct['has_dem'][i] == (v['demand'] is not None)
            succs = list(struct['succs'][i]); preds = list(struct['preds'][i])
        sup = {p: [p] for p in preds}
        if not preds or v.get('ext'): sup['x'] = [None]       # the external supplier comes last
        il0 = Fraction(v['init_il']) if v['init_il'] is not None else rule(v['pol'], 0)
        spec['nodes'][i] = dict(
            products=[i], bom={i: {r: Fraction(1) for r in sup}}, sup=sup,
            custs={i: succs + ([None] if v['demand'] is not None else [])}, preds=preds, succs=succs,
            slt=v['slt'], olt=v['olt'], dtype=(v['dis'][0] if v['dis'] else None),
            dis=[bool(cyc(v['dis'][1], t)) if v['dis'] else False for t in range(T)],
            h={i: Fraction(v['h'])}, p={i: Fraction(v['p'])}, ith={i: (None if v['ith'] is None else Fraction(v['ith']))},
            rev={i: Fraction(v['rev'])}, cap={i: (Fraction(v['cap']) if v['cap'] else None)}, pol={i: v['pol']},
            hf={i: v.get('hf')}, pf={i: v.get('pf')},
            rmh={r: (Fraction(nd[r]['h']) if r != 'x' else Z) for r in sup}, rmh_sup={r: (r if r != 'x' else None) for r in sup},
            demand={i: ([Fraction(cyc(v['demand'], t)) for t in range(T)] if v['demand'] is not None else None)},
            init_il={i: il0}, init_orders=Fraction(v['init_orders']), init_ships=Fraction(v['init_ships']))
    return spec


def g_single(recs):
    G = []
    for R in recs:
        GR = {}
        for i, r in R.items():
            g = dict(prod={i: {f: r[f] for f in PROD_FIELDS}}, cust={}, supp={}, RM={}, DIS=r['DIS'])
            for f in COST_FIELDS: g[f] = r[f]
            for c, v in r['cust'].items():
                g['cust'][(c, i)] = dict(IO=v['IO'], OS=v['OS'], BO=v['BO'], ODI=v['ODI'], OP=list(v['OP']))
            for p, v in r['supp'].items():
                rk = p if p is not None else 'x'
                g['supp'][(p, rk)] = dict(IS=v['IS'], IDI=v['IDI'], OO=v['OO'], OQ=v['OQ'], SP=list(v['SP']))
                g['RM'][rk] = v['RM']
            GR[i] = g
        G.append(GR)
    return G


def init_record(spec):
    """the state the documented initialisation hands to period 0, in record form"""
    R = {}
    N = spec['nodes']
    for n, s in N.items():
        g = dict(prod={}, cust={}, supp={}, RM={})
        for k in s['products']:
            g['prod'][k] = dict(IL=s['init_il'][k], DC=Z, DMC=Z)
            for c in s['custs'][k]:
                op = [Z] if c is None else [N[c]['init_orders']] * N[c]['olt'] + [Z]
                g['cust'][(c, k)] = dict(BO=Z, ODI=Z, OP=op)
        for r, ps in s['sup'].items():
            g['RM'][r] = Z
            for p in ps:
                sp = [s['init_ships']] * s['slt'] + [s['init_orders'] if p is None else Z] * s['olt'] + [Z]
                g['supp'][(p, r)] = dict(IDI=Z, SP=sp, OO=s['init_ships'] * s['slt'] + s['init_orders'] * s['olt'])
        R[n] = g
    return R


def produced(spec, G, I, t, n, k):
    """units of product k made at node n in period t, from the public record: IL_t - IL_{t-1} + sum_c IO_t(c)"""
    prev = (G[t - 1] if t > 0 else I)[n]['prod'][k]['IL']
    return G[t][n]['prod'][k]['IL'] - prev + sum((G[t][n]['cust'][(c, k)]['IO'] for c in spec['nodes'][n]['custs'][k]), Z)


def edges_of(spec):
    """(n, p, r): node n obtains raw material r from p (None = external supplier)"""
    return [(n, p, r) for n, s in spec['nodes'].items() for r, ps in s['sup'].items() for p in ps]


def dis_at(spec, n, t, kind):
    s = spec['nodes'][n]
    return s['dtype'] == kind and s['dis'][t]


# ------------------------------------------------------------------------------------------------
# C01 conservation

def mon_c01(spec, G, tol=None):
    bad = Bad(); I = init_record(spec); T = len(G); N = spec['nodes']
    # node balance with `produced` eliminated
    for n, s in N.items():
        for t in range(T):
            prev = G[t - 1] if t > 0 else I
            made = {k: produced(spec, G, I, t, n, k) for k in s['products']}
            for k, m in made.items():
                if not _le(Z, m, tol):
                    bad.add('negative-production', 'node %s product %s period %d: IL_t - IL_{t-1} + sum IO = %s < 0' % (n, k, t, fq(m)))
            for r, ps in s['sup'].items():
                lhs = G[t][n]['RM'][r] - prev[n]['RM'][r] - sum((G[t][n]['supp'][(p, r)]['IS'] for p in ps), Z)
                rhs = -sum((s['bom'][k][r] * made[k] for k in s['products'] if r in s['bom'][k]), Z)
                if not _eq(lhs, rhs, tol):
                    bad.add('il-rm-balance', 'node %s raw material %s period %d: RM_t - RM_{t-1} - sum IS = %s but -sum NBOM*(IL_t - IL_{t-1} + sum IO) = %s'
                            % (n, r, t, fq(lhs), fq(rhs)))
    # edge conservation
    for (n, p, r) in edges_of(spec):
        init = sum(I[n]['supp'][(p, r)]['SP'], Z)
        cs = ci = Z
        for t in range(T):
            cs += G[t][n]['supp'][(None, r)]['OQ'] if p is None else G[t][p]['cust'][(n, r)]['OS']
            g = G[t][n]['supp'][(p, r)]
            ci += g['IS']
            if not _eq(cs + init, ci + sum(g['SP'], Z) + g['IDI'], tol):
                bad.add('edge-conservation', 'edge %s->%s raw material %s period %d: shipped %s + initial pipeline %s != received %s + in pipeline %s + held at door %s'
                        % (p, n, r, t, fq(cs), fq(init), fq(ci), fq(sum(g['SP'], Z)), fq(g['IDI'])))
                break
    # order ledger: what a node has ordered from a supplier (its own record) = orders still travelling + orders the supplier has received
    for (n, p, r) in edges_of(spec):
        if p is None: continue
        s = N[n]; coq = s['init_orders'] * s['olt']; cio = Z
        for t in range(T):
            coq += G[t][n]['supp'][(p, r)]['OQ']; cio += G[t][p]['cust'][(n, r)]['IO']
            trav = sum(G[t][p]['cust'][(n, r)]['OP'], Z)
            if not _eq(coq, trav + cio, tol):
                bad.add('order-ledger', 'edge %s->%s raw material %s period %d: node %s has ordered %s in total (incl. initial orders) but only %s are travelling to or were received by the supplier (%s + %s)'
                        % (p, n, r, t, n, fq(coq), fq(trav + cio), fq(trav), fq(cio)))
                break
    # order conservation
    for n, s in N.items():
        for k in s['products']:
            for c in s['custs'][k]:
                cio = cos = Z
                for t in range(T):
                    g = G[t][n]['cust'][(c, k)]
                    cio += g['IO']; cos += g['OS']
                    if not _eq(cio, cos + g['BO'] + g['ODI'], tol):
                        bad.add('order-conservation', 'node %s customer %s product %s period %d: ordered %s != shipped %s + backordered %s + held %s'
                                % (n, c, k, t, fq(cio), fq(cos), fq(g['BO']), fq(g['ODI'])))
                        break
    return bad


# ------------------------------------------------------------------------------------------------
# C02 backorders / non-negativity / shipping bound / service measures

def mon_c02(spec, G, tol=None):
    bad = Bad(); I = init_record(spec); T = len(G); N = spec['nodes']
    for n, s in N.items():
        for k in s['products']:
            for t in range(T):
                g = G[t][n]; prev = G[t - 1] if t > 0 else I
                gp = g['prod'][k]
                sbo = sum((g['cust'][(c, k)]['BO'] for c in s['custs'][k]), Z)
                if not _eq(sbo, neg(gp['IL']), tol):
                    bad.add('bo-ne-neg-il', 'node %s product %s period %d: sum of backorders %s != negative part of IL %s' % (n, k, t, fq(sbo), fq(gp['IL'])))
                # shipping bound
                made = produced(spec, G, I, t, n, k)
                out = sum((g['cust'][(c, k)]['OS'] + g['cust'][(c, k)]['ODI'] - prev[n]['cust'][(c, k)]['ODI'] for c in s['custs'][k]), Z)
                avail = pos(prev[n]['prod'][k]['IL']) + made
                if not _le(out, avail, tol):
                    bad.add('ships-more-than-on-hand', 'node %s product %s period %d: shipped + newly held - released = %s > on hand %s + produced %s'
                            % (n, k, t, fq(out), fq(pos(prev[n]['prod'][k]['IL'])), fq(made)))
                # service measures
                dem = sum((g['cust'][(c, k)]['IO'] for c in s['custs'][k]), Z)
                pdc = prev[n]['prod'][k]['DC']; pdm = prev[n]['prod'][k]['DMC']
                if not _eq(gp['DC'], pdc + dem, tol):
                    bad.add('demand-cumul', 'node %s product %s period %d: demand_cumul %s != previous %s + demand %s' % (n, k, t, fq(gp['DC']), fq(pdc), fq(dem)))
                if not _eq(gp['DMC'], pdm + gp['DMFS'], tol):
                    bad.add('dmfs-cumul', 'node %s product %s period %d: demand_met_from_stock_cumul %s != previous %s + this period %s' % (n, k, t, fq(gp['DMC']), fq(pdm), fq(gp['DMFS'])))
                if not _le(gp['DMC'], gp['DC'], tol):
                    bad.add('dmfs-exceeds-demand', 'node %s product %s period %d: cumulative demand met from stock %s > cumulative demand %s' % (n, k, t, fq(gp['DMC']), fq(gp['DC'])))
                if gp['DC'] > 0:
                    want = float(gp['DMC'] / gp['DC'])
                    ok = (float(gp['FR']) == want) if tol is None else close(gp['FR'], want)
                else:
                    want = 1.0; ok = gp['FR'] == 1
                if not ok:
                    bad.add('fill-rate', 'node %s product %s period %d: fill_rate %r != cum. demand met from stock %s / cum. demand %s = %r' % (n, k, t, float(gp['FR']), fq(gp['DMC']), fq(gp['DC']), want))
                if not (0 <= gp['FR'] <= 1 or (tol is not None and -tol <= gp['FR'] <= 1 + tol)):
                    bad.add('fill-rate-range', 'node %s product %s period %d: fill_rate %r outside [0,1]' % (n, k, t, float(gp['FR'])))
        # non-negativity of every count
        for t in range(T):
            g = G[t][n]
            def chk(name, v):
                if not _le(Z, v, tol): bad.add('negative-' + name.split('[')[0], 'node %s period %d: %s = %s < 0' % (n, t, name, fq(v)))
            for k in s['products']:
                for f in ('OQFG', 'DMFS', 'DC', 'DMC'): chk('%s[%s]' % (f, k), g['prod'][k][f])
            for (c, k), v in g['cust'].items():
                for f in ('IO', 'OS', 'BO', 'ODI'): chk('%s[%s,%s]' % (f, c, k), v[f])
                for j, x in enumerate(v['OP']): chk('order_pipeline[%s,%s][%d]' % (c, k, j), x)
            for (p, r), v in g['supp'].items():
                for f in ('IS', 'IDI', 'OO', 'OQ'): chk('%s[%s,%s]' % (f, p, r), v[f])
                for j, x in enumerate(v['SP']): chk('shipment_pipeline[%s,%s][%d]' % (p, r, j), x)
            for r, v in g['RM'].items(): chk('RM[%s]' % r, v)
    return bad


def negative_initial(spec):
    return any(v < 0 for s in spec['nodes'].values() for v in s['init_il'].values())


# ------------------------------------------------------------------------------------------------
# C03 lead times / on-order

def shift_pipe(pipe):
    """end of an undisrupted period: every slot moves one period closer (slot 0 keeps what is still waiting there)"""
    if len(pipe) <= 1: return list(pipe)
    return [pipe[0] + pipe[1]] + list(pipe[2:]) + [Z]


def mon_c03(spec, G, tol=None):
    bad = Bad(); I = init_record(spec); T = len(G); N = spec['nodes']
    for (n, p, r) in edges_of(spec):
        s = N[n]; L = s['slt'] + (s['olt'] if p is None else 0)
        sent = [(G[t][n]['supp'][(None, r)]['OQ'] if p is None else G[t][p]['cust'][(n, r)]['OS']) for t in range(T)]
        recv = [G[t][n]['supp'][(p, r)]['IS'] for t in range(T)]
        idi = [G[t][n]['supp'][(p, r)]['IDI'] for t in range(T)]
        tp = [dis_at(spec, n, t, 'TP') for t in range(T)]; rp = [dis_at(spec, n, t, 'RP') for t in range(T)]
        what0 = 'edge %s->%s raw material %s (lead time %d%s)' % (p, n, r, L, ', order+shipment' if p is None else '')
        # (a) order placed by n at t is received by p at t + OLT(n); the first OLT inbound orders are the initial orders
        if p is not None:
            for t in range(T):
                io = G[t][p]['cust'][(n, r)]['IO']
                want = G[t - s['olt']][n]['supp'][(p, r)]['OQ'] if t >= s['olt'] else s['init_orders']
                if not _eq(io, want, tol):
                    bad.add('order-delay', 'node %s receives order %s from %s in period %d; %s' % (p, fq(io), n, t,
                            ('the order placed in period %d (order lead time %d) was %s' % (t - s['olt'], s['olt'], fq(want))) if t >= s['olt'] else 'expected the initial order %s' % fq(want)))
                    break
        # (b) undisrupted window: exactly one lead time later
        for t in range(T - L):
            if not any(tp[t:t + L + 1]) and not any(rp[t:t + L + 1]):
                # equality when no transit/receipt pause has happened so far (a pause piles earlier shipments into one slot
                # or at the door, and they arrive together with this one); otherwise at least this shipment arrives
                clean = not any(tp[:t]) and not any(rp[:t])
                if (clean and not _eq(recv[t + L], sent[t], tol)) or not _le(sent[t], recv[t + L], tol):
                    bad.add('shipment-delay', '%s: %s sent in period %d but %s received in period %d (no transit/receipt pause in periods %d..%d%s)'
                            % (what0, fq(sent[t]), t, fq(recv[t + L]), t + L, t, t + L, ', none before either' if clean else ''))
                    break
        # (c) nothing lost under TP / RP disruptions
        cs = sum(I[n]['supp'][(p, r)]['SP'], Z); done = False      # the initial pipeline content is ahead of everything sent later
        cr = [Z] * (T + 1)
        for t in range(T): cr[t + 1] = cr[t] + recv[t]
        for t in range(T):
            cs += sent[t]; shifts = 0
            for t2 in range(t, T):
                # shifts = number of periods u in [t, t2-1] without transit pause
                if shifts >= L and not rp[t2]:
                    if not _le(cs, cr[t2 + 1], tol):
                        bad.add('shipment-lost-or-late', '%s: initial pipeline + cumulative sent up to period %d is %s but cumulative received up to period %d is only %s although the pipeline advanced %d times and receipt is not paused'
                                % (what0, t, fq(cs), t2, fq(cr[t2 + 1]), shifts)); done = True
                    break
                if not tp[t2]: shifts += 1
            if done: break
        # (d) reference delay line: exact receipts, held items and pipeline contents in every period
        pipe = list(I[n]['supp'][(p, r)]['SP']); held = Z
        for t in range(T):
            pipe[L] += sent[t]
            rtr = pipe[0]; pipe[0] = Z
            if rp[t]: is_ = Z; held += rtr
            else: is_ = rtr + held; held = Z
            g = G[t][n]['supp'][(p, r)]
            if not (_eq(is_, g['IS'], tol) and _eq(held, g['IDI'], tol) and len(pipe) == len(g['SP']) and all(_eq(a, b, tol) for a, b in zip(pipe, g['SP']))):
                bad.add('delay-line', '%s period %d: a %d-period delay line fed with the recorded shipments gives receipt %s, held %s, pipeline %s; recorded receipt %s, held %s, pipeline %s'
                        % (what0, t, L, fq(is_), fq(held), [fq(x) for x in pipe], fq(g['IS']), fq(g['IDI']), [fq(x) for x in g['SP']]))
                break
            if not tp[t]: pipe = shift_pipe(pipe)
        # (e) on-order exactness
        for t in range(T):
            g = G[t][n]['supp'][(p, r)]
            want = sum(g['SP'], Z)
            if p is not None:
                gc = G[t][p]['cust'][(n, r)]
                want += sum(gc['OP'], Z) + gc['BO'] + gc['ODI']
            if not _eq(g['OO'], want, tol):
                bad.add('on-order', '%s period %d: on_order %s != %s' % (what0, t, fq(g['OO']),
                        ('in transit %s' % fq(sum(g['SP'], Z))) if p is None else 'orders in transit %s + backorders %s + held by supplier %s + shipments in transit %s = %s'
                        % (fq(sum(gc['OP'], Z)), fq(gc['BO']), fq(gc['ODI']), fq(sum(g['SP'], Z)), fq(want))))
                break
    return bad


# ------------------------------------------------------------------------------------------------
# C04 orders follow the policy (single-product networks)

def descendants(spec, n):
    out = []; stack = list(spec['nodes'][n]['succs'])
    while stack:
        d = stack.pop()
        if d not in out:
            out.append(d); stack += spec['nodes'][d]['succs']
    return out


def inventory_position(spec, G, I, t, n):
    """inventory position node n observes when it orders in period t: previous end-of-period state, minus this period's demand"""
    s = spec['nodes'][n]; k = s['products'][0]
    prev = G[t - 1] if t > 0 else I
    g0 = prev[n]
    dem = sum((G[t][n]['cust'][(c, k)]['IO'] for c in s['custs'][k]), Z)
    if s['pol'][k][0] != 'EBS':
        pipe = min((g0['RM'][r] + sum((g0['supp'][(p, r)]['OO'] + g0['supp'][(p, r)]['IDI'] for p in ps), Z)) / s['bom'][k][r] for r, ps in s['sup'].items())
        return g0['prod'][k]['IL'] + pipe - dem
    ds = descendants(spec, n)
    eil = pos(g0['prod'][k]['IL'])
    for d in ds:
        sd = spec['nodes'][d]
        eil += pos(prev[d]['prod'][d]['IL'])
        for p in sd['preds']:
            if p == n or p in ds:
                eil += sum(prev[d]['supp'][(p, p)]['SP'], Z)
    for d in ds + [n]:
        if not spec['nodes'][d]['succs']:
            eil -= neg(prev[d]['prod'][d]['IL'])
    nr = len(s['sup'])
    def avg(x): return Z if x == 0 else x / nr
    oo = avg(sum((g0['supp'][(p, r)]['OO'] for r, ps in s['sup'].items() for p in ps), Z))
    rm = avg(sum((g0['RM'][r] for r in s['sup']), Z))
    di = avg(sum((g0['supp'][(p, r)]['IDI'] for r, ps in s['sup'].items() for p in ps), Z))
    return eil + oo + rm + di - dem


def mon_c04(spec, G, tol=None, cover=None):
    bad = Bad(); I = init_record(spec); T = len(G); N = spec['nodes']
    for n, s in N.items():
        k = s['products'][0]
        for t in range(T):
            g = G[t][n]
            oqs = {(p, r): g['supp'][(p, r)]['OQ'] for r, ps in s['sup'].items() for p in ps}
            if dis_at(spec, n, t, 'OP'):
                if g['prod'][k]['OQFG'] != 0 or any(v != 0 for v in oqs.values()):
                    bad.add('orders-while-order-paused', 'node %s period %d: order-pausing disruption active but order_quantity_fg = %s, order quantities %s'
                            % (n, t, fq(g['prod'][k]['OQFG']), {str(a): fq(b) for a, b in oqs.items()}))
                if cover is not None: cover.add('OP-active')
                continue
            ip = inventory_position(spec, G, I, t, n)
            raw = rule(s['pol'][k], ip)
            want = raw if s['cap'][k] is None else min(raw, s['cap'][k])
            if cover is not None:
                if s['cap'][k] is not None and raw > s['cap'][k]: cover.add('capacity-binding')
                if s['pol'][k][0] in ('sS', 'rQ') and ip == s['pol'][k][1]: cover.add('IP==reorder-point')
                if s['pol'][k][0] in ('sS', 'rQ') and ip > s['pol'][k][1]: cover.add('IP>reorder-point')
                if s['pol'][k][0] in ('BS', 'EBS') and ip > s['pol'][k][1]: cover.add('IP>base-stock-level')
                if s['pol'][k][0] == 'EBS' and s['succs']: cover.add('EBS-with-descendants')
            if not _eq(g['prod'][k]['OQFG'], want, tol):
                bad.add('order-not-policy|' + s['pol'][k][0], 'node %s period %d: policy %s, capacity %s, inventory position %s (recomputed from period %d and the inbound orders): rule gives %s but order_quantity_fg = %s'
                        % (n, t, s['pol'][k], s['cap'][k], fq(ip), t - 1, fq(want), fq(g['prod'][k]['OQFG'])))
            for r, ps in s['sup'].items():
                tot = sum((oqs[(p, r)] for p in ps), Z)
                if not _eq(tot, s['bom'][k][r] * g['prod'][k]['OQFG'], tol):
                    bad.add('raw-material-orders', 'node %s period %d: orders for raw material %s sum to %s but NBOM * order_quantity_fg = %s'
                            % (n, t, r, fq(tot), fq(s['bom'][k][r] * g['prod'][k]['OQFG'])))
    return bad


def mon_c04_multi(spec, G, tol=None):
    """multi-product nodes: the products of a node order one after the other (in the node's product order); product k observes
    IL_k + min over its raw materials r of max(0, RM_r + sum_p (on-order + held at door) - units earmarked for the pending
    finished goods of the node's OTHER products) / NBOM(k, r), minus this period's demand for k.  The raw-material orders of the
    node then add up, per (supplier, raw material), to NBOM x the finished-goods orders, go to the first supplier of the raw
    material, and are what that supplier receives one order lead time later."""
    bad = Bad(); I = init_record(spec); T = len(G); N = spec['nodes']; tol = TOL if tol is None else tol
    for n, s in N.items():
        for t in range(T):
            g = G[t][n]; prev = (G[t - 1] if t > 0 else I)[n]
            oqs = {(p, r): g['supp'][(p, r)]['OQ'] for r, ps in s['sup'].items() for p in ps}
            if dis_at(spec, n, t, 'OP'):
                if any(abs(g['prod'][k]['OQFG']) > tol for k in s['products']) or any(abs(v) > tol for v in oqs.values()):
                    bad.add('orders-while-order-paused', 'node %s period %d: order-pausing disruption active but order_quantity_fg = %s, order quantities %s'
                            % (n, t, {k: fq(g['prod'][k]['OQFG']) for k in s['products']}, {str(a): fq(b) for a, b in oqs.items()}))
                continue
            placed = {pr: Z for pr in oqs}
            pfg = {k: (prev['prod'][k].get('PFG', Z)) for k in s['products']}
            for k in s['products']:
                dem = sum((g['cust'][(c, k)]['IO'] for c in s['custs'][k]), Z)
                units = []
                for r, num in s['bom'][k].items():
                    pl = prev['RM'][r] + sum((prev['supp'][(p, r)]['OO'] + placed[(p, r)] + prev['supp'][(p, r)]['IDI'] for p in s['sup'][r]), Z)
                    for k2 in s['products']:       # clamped product by product, as the implementation does (differs from one clamp of the sum only while some pending quantity is negative)
                        if k2 != k: pl = pos(pl - pfg[k2] * s['bom'][k2].get(r, Z))
                    units.append(pl / num)
                ip = prev['prod'][k]['IL'] + min(units) - dem
                pol = s['pol'][k]; cap = s['cap'][k]
                alts = [rule(pol, ip)]
                if pol[0] in ('sS', 'rQ') and abs(ip - pol[1]) <= 10 ** 6 * tol:      # a rounding error of the implementation may fall on either side
                    alts = [rule(pol, ip), rule(pol, Fraction(pol[1])), Z]
                alts = [a if cap is None else min(a, cap) for a in alts]
                got = g['prod'][k]['OQFG']
                if not any(_eq(got, a, 10 ** 3 * tol) for a in alts):
                    bad.add('order-not-policy|' + pol[0], 'node %s product %s period %d: policy %s, capacity %s, inventory position %s (previous state, orders already placed this period by the node\'s '
                            'earlier products, minus demand %s): rule gives %s but order_quantity_fg = %s' % (n, k, t, pol, cap, fq(ip), fq(dem), fq(alts[0]), fq(got)))
                pfg[k] += got
                for r, num in s['bom'][k].items():
                    placed[(s['sup'][r][0], r)] += num * got
            for pr, want in placed.items():
                if not _eq(oqs[pr], want, 10 ** 3 * tol):
                    bad.add('raw-material-orders', 'node %s period %d: order to supplier %s for raw material %s is %s but NBOM x finished-goods orders of the products using it = %s'
                            % (n, t, pr[0], pr[1], fq(oqs[pr]), fq(want)))
            for (p, r), q in oqs.items():
                if p is not None and t + s['olt'] < T:
                    io = G[t + s['olt']][p]['cust'][(n, r)]['IO']
                    if not _eq(io, q, 10 ** 3 * tol):
                        bad.add('raw-material-orders-received', 'node %s orders %s of raw material %s from %s in period %d (order lead time %d) but the supplier\'s inbound order in period %d is %s'
                                % (n, fq(q), r, p, t, s['olt'], t + s['olt'], fq(io)))
    return bad


# ------------------------------------------------------------------------------------------------
# C05 costs

def cost_spec(spec, G, t, n):
    s = spec['nodes'][n]; g = G[t][n]
    hc = sc = it = Z
    for k in s['products']:
        il = g['prod'][k]['IL']
        held = pos(il) + sum((g['cust'][(c, k)]['ODI'] for c in s['custs'][k]), Z)
        hf = s.get('hf', {}).get(k); pf = s.get('pf', {}).get(k)
        hc += (Fraction(hf[0]) * held + Fraction(hf[1]) * held * held) if hf else s['h'][k] * held
        sc += (Fraction(pf[0]) * neg(il) + Fraction(pf[1]) * neg(il) * neg(il)) if pf else s['p'][k] * neg(il)
        hh = s['h'][k] if s['ith'][k] is None else s['ith'][k]
        it += hh * sum((sum(G[t][c]['supp'][(n, k)]['SP'], Z) for c in s['custs'][k] if c is not None), Z)
    for r, ps in s['sup'].items():
        p0 = s['rmh_sup'][r]
        if p0 is not None:
            hc += s['rmh'][r] * (g['RM'][r] + g['supp'][(p0, r)]['IDI'])
    return hc, sc, it


def mon_c05(spec, G, total=None, tol=None, check_rev=True, notes=None):
    """notes: optional set that receives the names of the sub-checks that were skipped (with the reason) and of the input features met"""
    bad = Bad(); T = len(G); N = spec['nodes']
    tot = Z
    for n, s in N.items():
        for t in range(T):
            g = G[t][n]
            hc, sc, it = cost_spec(spec, G, t, n)
            for name, want, got in (('holding', hc, g['HC']), ('stockout', sc, g['SC']), ('in-transit', it, g['ITHC'])):
                if not _eq(want, got, tol):
                    bad.add('cost-' + name, 'node %s period %d: %s cost recomputed from the reported state %s != reported %s' % (n, t, name, fq(want), fq(got)))
            if check_rev:
                rvk = [s['rev'][k] * sum((g['cust'][(c, k)]['OS'] for c in s['custs'][k]), Z) for k in s['products']]
                rv = sum(rvk, Z)
                if notes is not None and rv != 0: notes.add('revenue>0' + ('|multi-product-node' if len(rvk) > 1 else ''))
                if any(x != 0 for x in rvk[:-1]) and not simlib.INCLUDE_DEFECT_CLASSES:
                    # DEFECT of the unchanged library (reported): `revenue_earned = ...` (assignment, not +=) inside the product loop of
                    # sim._calculate_period_costs: a multi-product node reports the revenue of its LAST product only.  Exactly in the periods in
                    # which another product of the node earns revenue the comparison with sum_k rate_k x shipments_k is skipped (and counted);
                    # the property's identity below (total = holding + stockout + in-transit - REPORTED revenue) is checked in every period.
                    if notes is not None: notes.add('revenue-sum-check-skipped:a-product-other-than-the-last-earns-revenue')
                elif not _eq(rv, g['REV'], tol):
                    bad.add('cost-revenue', 'node %s period %d: sum over products of revenue rate * shipments = %s != reported revenue %s' % (n, t, fq(rv), fq(g['REV'])))
            if not _eq(g['TC'], g['HC'] + g['SC'] + g['ITHC'] - g['REV'], tol):
                bad.add('cost-total', 'node %s period %d: total %s != holding %s + stockout %s + in-transit %s - revenue %s' % (n, t, fq(g['TC']), fq(g['HC']), fq(g['SC']), fq(g['ITHC']), fq(g['REV'])))
            tot += g['TC']
    if total is not None and not _eq(tot, total, tol):
        bad.add('returned-total', 'simulation() returned %s but the per-node per-period totals add up to %s' % (fq(total), fq(tot)))
    return bad


# ------------------------------------------------------------------------------------------------
# C06 sequence of events: service in successor order, held items first, backorders before new demand

def mon_c06(spec, G, tol=None):
    bad = Bad(); I = init_record(spec); T = len(G); N = spec['nodes']
    for n, s in N.items():
        for k in s['products']:
            for t in range(T):
                prev = G[t - 1] if t > 0 else I
                avail = pos(prev[n]['prod'][k]['IL']) + produced(spec, G, I, t, n, k)
                dmfs = Z
                for c in s['custs'][k]:
                    g = G[t][n]['cust'][(c, k)]; g0 = prev[n]['cust'][(c, k)]
                    need = g0['BO'] + g['IO']
                    give = min(avail, need)
                    if c is not None and dis_at(spec, c, t, 'SP'):
                        w_os, w_odi = Z, g0['ODI'] + give
                    else:
                        w_os, w_odi = give + g0['ODI'], Z
                    w_bo = need - give
                    if not (_eq(g['OS'], w_os, tol) and _eq(g['ODI'], w_odi, tol) and _eq(g['BO'], w_bo, tol)):
                        bad.add('service-order', 'node %s product %s period %d customer %s (served in order %s): with %s available it needs %s (backorders %s + order %s, held %s): expected shipment %s, held %s, backorders %s; recorded %s, %s, %s'
                                % (n, k, t, c, s['custs'][k], fq(avail), fq(need), fq(g0['BO']), fq(g['IO']), fq(g0['ODI']), fq(w_os), fq(w_odi), fq(w_bo), fq(g['OS']), fq(g['ODI']), fq(g['BO'])))
                    dmfs += pos(g['OS'] - g0['BO'])
                    avail -= give
                if not _eq(dmfs, G[t][n]['prod'][k]['DMFS'], tol):
                    bad.add('dmfs-backorders-first', 'node %s product %s period %d: demand met from stock %s != sum over customers of (shipment - previous backorders)+ = %s'
                            % (n, k, t, fq(G[t][n]['prod'][k]['DMFS']), fq(dmfs)))
    return bad


# ------------------------------------------------------------------------------------------------
# branch coverage of the shipping / receiving functions, read off the records

def coverage(spec, G):
    cov = set(); I = init_record(spec); T = len(G); N = spec['nodes']
    for n, s in N.items():
        if s['olt'] > 0 and any(G[t][n]['supp'][(p, r)]['OQ'] > 0 for t in range(T) for r, ps in s['sup'].items() for p in ps):
            cov.add('OLT>0-with-orders')
        for t in range(T):
            prev = G[t - 1] if t > 0 else I
            for k in s['products']:
                short = False
                for c in s['custs'][k]:
                    g = G[t][n]['cust'][(c, k)]; g0 = prev[n]['cust'][(c, k)]
                    if g['BO'] > 0: cov.add('BO>0'); short = True
                    if c is not None and dis_at(spec, c, t, 'SP'):
                        cov.add('SP-active')
                        if g0['BO'] > 0: cov.add('SP-successor-with-backorders')
                        if g0['BO'] > 0 and g['ODI'] > g0['ODI']: cov.add('SP-backorders-moved-to-held')
                        if g['ODI'] > g0['ODI']: cov.add('SP-new-held-items')
                    elif g0['ODI'] > 0:
                        cov.add('held-items-released')
                    if g0['BO'] > 0 and g['OS'] > 0: cov.add('backorders-cleared')
                if short and len(s['custs'][k]) > 1: cov.add('short-with-several-customers')
            for r, ps in s['sup'].items():
                for p in ps:
                    g = G[t][n]['supp'][(p, r)]
                    if sum(g['SP'], Z) > 0: cov.add('pipeline>0')
                    if dis_at(spec, n, t, 'RP'):
                        cov.add('RP-active')
                        if g['IDI'] > 0: cov.add('RP-items-held-at-door')
                    elif prev[n]['supp'][(p, r)]['IDI'] > 0:
                        cov.add('RP-held-items-received')
                    if dis_at(spec, n, t, 'TP'):
                        cov.add('TP-active')
                        if sum(g['SP'], Z) > 0: cov.add('TP-with-units-in-pipeline')
                        if len(g['SP']) > 1 and g['SP'][s['slt'] + (s['olt'] if p is None else 0)] > 0 and t > 0 and dis_at(spec, n, t - 1, 'TP'):
                            cov.add('TP-shipment-sent-into-frozen-pipeline')
            if dis_at(spec, n, t, 'OP'): cov.add('OP-active')
        if any(c is not None for k in s['products'] for c in s['custs'][k]) and any(None in s['custs'][k] for k in s['products']):
            cov.add('inner-node-with-external-demand')
    return cov


# ================================================================================================
# Stage 2: multi-product networks with bills of materials (generator, implementation adapter, monitors; the Stage-2 Coq model is py/sim2lib.py + coq/Sim2)

def gen_multi(rng, nmax=5, tmax=12):
    """2- and 3-level networks, 1-3 products per node, BOM numbers 1..3, raw materials shared by several products, products handled by
    two suppliers (several suppliers of one raw material), predecessor products a customer does not use, external demand for some of
    a node's products only, order lead times / initial orders / initial shipments everywhere; predecessors WITHOUT bill-of-materials relation
    (network-implied raw materials, number 1) next to BOM-linked ones; inner nodes that are also supplied by the external supplier ('ext'); revenue
    rates; lead times ('lt_where'), policies ('pol_where') and demand sources ('dem_where') given on the products instead of on the node.  JSON-friendly case."""
    levels = rng.choice([2, 2, 3])
    while True:
        sizes = [rng.randint(1, 2) for _ in range(levels)]
        if sum(sizes) <= nmax: break
    if nmax > 6 and rng.random() < 0.5:
        sizes = [rng.randint(1, 3) for _ in range(levels)]
    ids = rng.sample(range(1, 40), sum(sizes))
    lev = []; k0 = 0
    for s in sizes:
        lev.append(ids[k0:k0 + s]); k0 += s
    T = rng.randint(max(4, tmax // 2), tmax)
    nodes = {}; prods = {}; edges = []
    pid = [0]
    def new_prod(l):
        pid[0] += 1
        return 100 * (l + 1) + pid[0]
    twin = {}        # B -> A: node B handles some of A's products (and has the same suppliers as A)
    for l, ns in enumerate(lev):
        for i in ns:
            dis = None
            if rng.random() < 0.45:
                L = rng.choice([2, 3, 5, T])
                dis = [rng.choice(simlib.DTYPES), [rng.random() < 0.4 for _ in range(L)]]
            ks = []
            if l < levels - 1 and i != ns[0] and rng.random() < 0.4:
                a = nodes[ns[0]]['products']
                ks = list(a) if rng.random() < 0.4 else rng.sample(a, rng.randint(1, len(a)))
                twin[i] = ns[0]
                for k in ks: prods[k]['shared'] = True
            partial = bool(ks) and len(ks) < len(nodes[ns[0]]['products'])       # then an own product must be able to take up unused suppliers
            if not ks or partial or (len(ks) < 3 and rng.random() < 0.5):
                for _ in range(rng.randint(1, max(1, 3 - len(ks)))):
                    k = new_prod(l); ks.append(k); prods[k] = dict(bom={}, shared=False)
            nodes[i] = dict(level=l, products=ks, slt=rng.randint(0, 3), olt=(rng.randint(0, 2) if rng.random() < 0.5 else 0), dis=dis,
                            init_orders=rng.choice([0, 0, 1, 3]), init_ships=rng.choice([0, 0, 2, 4]))
    for l in range(1, levels):
        for i in lev[l]:
            if i in twin:
                ps = [e[0] for e in edges if e[1] == twin[i]]       # same suppliers, so that the shared products can be made
            else:
                ps = rng.sample(lev[l - 1], rng.randint(1, len(lev[l - 1])))
            for p in ps: edges.append([p, i])
        for p in lev[l - 1]:       # every upstream node has a customer
            if not any(e[0] == p for e in edges):
                c = rng.choice(lev[l]); c = twin.get(c, c); edges.append([p, c])
                for b in lev[l]:
                    if twin.get(b) == c: edges.append([p, b])
    rng.shuffle(edges)
    unused = False; two_sup = False
    for l in range(1, levels):
        for i in lev[l]:
            ps = [a for a, b in edges if b == i]
            # MIXED suppliers: 30% of the nodes leave some (possibly all) of their predecessors without any bill-of-materials relation; such a
            # predecessor is linked by the network structure alone (documented network BOM: every product of the node needs 1 unit of every
            # product of that predecessor), next to predecessors linked by explicit bills of materials
            imp = [p for p in ps if rng.random() < 0.5] if rng.random() < 0.3 else []
            avail = sorted({r for p in ps if p not in imp for r in nodes[p]['products']})
            for k in nodes[i]['products']:
                if prods[k]['bom'] or not avail: continue          # a shared product keeps its bill of materials
                for r in rng.sample(avail, rng.randint(1, min(3, len(avail)))):
                    prods[k]['bom'][r] = rng.randint(1, 3)
            own = [k for k in nodes[i]['products'] if not prods[k]['shared'] or i not in twin]    # products whose bill of materials may still grow
            for p in ps:           # every other predecessor must be needed; usually every product it handles as well
                if p in imp: continue
                mine = nodes[p]['products']
                used = [r for r in mine if any(r in prods[k]['bom'] for k in nodes[i]['products'])]
                skip = rng.random() < 0.3 and len(mine) > 1
                for r in mine:
                    if r not in used and (not used or not skip) and own:
                        prods[rng.choice(own)]['bom'][r] = rng.randint(1, 3); used.append(r)
                if len(used) < len(mine): unused = True
            for k in nodes[i]['products']:
                for r in prods[k]['bom']:
                    if sum(1 for p in ps if r in nodes[p]['products']) > 1: two_sup = True
    # every product needs a raw material: where a shared product links a predecessor that was meant to stay without relation, the other
    # products of the node are no longer supplied by that predecessor through the network structure
    changed = True
    while changed:
        changed = False
        for l in range(1, levels):
            for i in lev[l]:
                ps = [a for a, b in edges if b == i]
                if any(_implicit(nodes, prods, p, i) for p in ps): continue
                for k in nodes[i]['products']:
                    if not any(r in prods[k]['bom'] for p in ps for r in nodes[p]['products']):
                        prods[k]['bom'][rng.choice(nodes[rng.choice(ps)]['products'])] = rng.randint(1, 3); changed = True
    succs = {i: [b for a, b in edges if a == i] for i in ids}
    some_only = False
    for i in ids:
        fresh = [k for k in nodes[i]['products'] if 'pol' not in prods[k]]
        for k in fresh:
            pr = prods[k]
            pt = rng.choice(['BS', 'BS', 'sS', 'rQ'])
            if pt == 'BS': pol = ['BS', rng.randint(0, 30)]
            elif pt == 'sS':
                s_ = rng.randint(0, 12); pol = ['sS', s_, s_ + rng.randint(0, 15)]
            else: pol = ['rQ', rng.randint(0, 12), rng.randint(1, 15)]
            dem = None
            if rng.random() < (0.75 if not succs[i] else 0.15) or (not succs[i] and k == fresh[-1] and not any(prods[q].get('demand') for q in nodes[i]['products'])):
                L = rng.choice([1, 2, 3, T])
                dem = [rng.choice([0, 1, 2, 3, 5, 8]) for _ in range(L)]
            pr.update(pol=pol, cap=(rng.randint(2, 20) if rng.random() < 0.25 else None), init_il=(rng.randint(0, 25) if rng.random() < 0.5 else None),
                      h=Fraction(rng.randint(0, 12), 4), p=Fraction(rng.randint(0, 80), 4), ith=rng.choice([None, None, Fraction(0), Fraction(rng.randint(1, 8), 4)]),
                      demand=dem, where=('product' if pr['shared'] else rng.choice(['product', 'node'])))
            # revenue rate (50% of the products); policy and demand source given on the product instead of per (node, product) (products of one node only:
            # a Policy object refers to its node)
            pr['rev'] = Fraction(rng.randint(1, 12), 4) if rng.random() < 0.5 else Fraction(0)
            pr['decoy'] = pr['where'] == 'node' and rng.random() < 0.5       # per-(node, product) values at the node AND different values on the product, which must be ignored
            pr['pol_where'] = 'node' if pr['shared'] else rng.choice(['product', 'node'])
            pr['dem_where'] = 'node' if pr['shared'] else rng.choice(['product', 'node'])
        d = [prods[k]['demand'] is not None for k in nodes[i]['products']]
        if any(d) and not all(d): some_only = True
    for i in ids:
        v = nodes[i]
        # a node with predecessors that is ALSO supplied by the external supplier (network BOM number 1 for the external supplier's dummy product)
        v['ext'] = bool(v['level'] > 0 and rng.random() < 0.2)
        # lead times given on the products (the same values on every product of the node: the node's lead times) instead of on the node
        v['lt_where'] = 'product' if rng.random() < 0.4 and not any(prods[k]['shared'] for k in v['products']) else 'node'
        if v['lt_where'] == 'product' and not simlib.INCLUDE_DEFECT_CLASSES:
            # DEFECT of the unchanged library (reported; see simlib.gen_levels (2)): with product-level lead times the initial shipments / initial
            # orders to the external supplier are not placed in the pipeline although on_order counts them - exactly this class is excluded
            olt_slots = v['olt'] > 0 and v['init_orders'] > 0 and (v['level'] == 0 or v['ext'])
            if (v['slt'] > 0 and (v['init_ships'] > 0 or olt_slots)) or olt_slots: v['lt_where'] = 'node'
    mixed = any(_implicit(nodes, prods, a, b) for a, b in edges) and not all(_implicit(nodes, prods, a, b) for a, b in edges)
    return dict(kind='multi%d' % levels, multi=True, ids=ids, edges=edges, T=T, nodes=nodes, prods=prods, unused=unused, twins=two_sup, some_only=some_only, rebom=rng.random() < 0.3,
                mixed=bool(mixed or any(v['ext'] for v in nodes.values())))


def _implicit(nd, pr, p, c):
    """no bill-of-materials relation between any product of p and any product of its successor c: the documented network BOM then
    makes every product of c need one unit of every product of p"""
    return not any(r in pr[k2]['bom'] for k2 in nd[c]['products'] for r in nd[p]['products'])


def multi_from_json(c):
    c = copy.deepcopy(c)
    c['nodes'] = {int(k): v for k, v in c['nodes'].items()}
    c['prods'] = {int(k): v for k, v in c['prods'].items()}
    for v in c['prods'].values():
        v['bom'] = {int(r): x for r, x in v['bom'].items()}
        for f in ('h', 'p'): v[f] = Fraction(v[f])
        v['rev'] = Fraction(v.get('rev', 0))
        if v['ith'] is not None: v['ith'] = Fraction(v['ith'])
    return c


def build_multi(case):
    from stockpyl.supply_chain_network import network_from_edges
    from stockpyl.supply_chain_product import SupplyChainProduct
    from stockpyl.policy import Policy
    from stockpyl.demand_source import DemandSource
    from stockpyl.disruption_process import DisruptionProcess
    ids = case['ids']; nd = case['nodes']; pr = case['prods']
    ltp = {i: nd[i].get('lt_where') == 'product' for i in ids}
    net = network_from_edges(
        edges=[tuple(e) for e in case['edges']], node_order_in_lists=list(ids),
        shipment_lead_time={i: (None if ltp[i] else nd[i]['slt']) for i in ids}, order_lead_time={i: (None if ltp[i] else nd[i]['olt']) for i in ids},
        initial_orders={i: nd[i]['init_orders'] for i in ids}, initial_shipments={i: nd[i]['init_ships'] for i in ids},
        disruption_process={i: (DisruptionProcess(random_process_type='E', disruption_type=nd[i]['dis'][0], disruption_state_list=list(nd[i]['dis'][1]))
                                if nd[i]['dis'] else None) for i in ids})
    nodes = {n.index: n for n in net.nodes}
    P = {k: SupplyChainProduct(index=k) for k in pr}
    rebom = case.get('rebom')         # the BOM numbers are first set to other values and corrected once the products are in the network
    for k, v in pr.items():
        for r, num in v['bom'].items():
            P[k].set_bill_of_materials(raw_material=r, num_needed=(num + 1 if rebom else num))
    for i in ids:
        if nd[i].get('ext'): nodes[i].supply_type = 'U'        # before the products are added: adding them rebuilds the network bill of materials
        if ltp[i]:
            for k in nd[i]['products']: P[k].shipment_lead_time = nd[i]['slt']; P[k].order_lead_time = nd[i]['olt']
        nodes[i].add_products([P[k] for k in nd[i]['products']])
    if rebom:
        for k, v in pr.items():
            for r, num in v['bom'].items():
                P[k].set_bill_of_materials(raw_material=r, num_needed=num)
    for i in ids:
        ks = nd[i]['products']
        def polobj(k):
            p = pr[k]['pol']
            if p[0] == 'BS': return Policy(type='BS', base_stock_level=p[1], node=nodes[i], product=P[k])
            if p[0] == 'sS': return Policy(type='sS', reorder_point=p[1], order_up_to_level=p[2], node=nodes[i], product=P[k])
            return Policy(type='rQ', reorder_point=p[1], order_quantity=p[2], node=nodes[i], product=P[k])
        pols = {k: polobj(k) for k in ks if pr[k].get('pol_where', 'node') == 'node'}
        nodes[i].inventory_policy = pols if pols else None
        for k in ks:
            if pr[k].get('pol_where', 'node') == 'product': P[k].inventory_policy = polobj(k)
        dem = {k: DemandSource(type='D', demand_list=list(pr[k]['demand'])) for k in ks if pr[k]['demand'] is not None and pr[k].get('dem_where', 'node') == 'node'}
        nodes[i].demand_source = dem if dem else None
        for k in ks:
            if pr[k]['demand'] is not None and pr[k].get('dem_where', 'node') == 'product': P[k].demand_source = DemandSource(type='D', demand_list=list(pr[k]['demand']))
        for attr, f in (('local_holding_cost', 'h'), ('stockout_cost', 'p'), ('in_transit_holding_cost', 'ith'), ('order_capacity', 'cap'), ('initial_inventory_level', 'init_il'), ('revenue', 'rev')):
            d = {k: (None if pr[k].get(f) is None else float(pr[k][f])) for k in ks if pr[k]['where'] == 'node'}
            if d: setattr(nodes[i], attr, d)
    for k, v in pr.items():
        if v['where'] == 'product':
            P[k].local_holding_cost = float(v['h']); P[k].stockout_cost = float(v['p'])
            P[k].in_transit_holding_cost = None if v['ith'] is None else float(v['ith'])
            P[k].order_capacity = v['cap']; P[k].initial_inventory_level = v['init_il']
            P[k].revenue = float(v.get('rev', 0))
        elif v.get('decoy'):
            P[k].local_holding_cost = float(v['h']) + 3; P[k].stockout_cost = float(v['p']) + 3; P[k].revenue = float(v.get('rev', 0)) + 3
            if v['ith'] is not None: P[k].in_transit_holding_cost = float(v['ith']) + 3
            if v['cap'] is not None: P[k].order_capacity = v['cap'] + 3
            if v['init_il'] is not None: P[k].initial_inventory_level = v['init_il'] + 3
    return net


def run_multi(case, seed=1):
    import stockpyl.sim as sim
    sim.issued_backorder_warning = False
    net = build_multi(case)
    T = case['T']
    with warnings.catch_warnings():
        warnings.simplefilter('ignore')
        total = sim.simulation(net, T, rand_seed=seed, progress_bar=False, consistency_checks='N')
    # configuration read from the implementation: which supplier of a raw material comes first (documented as arbitrary)
    first = {n.index: {r: n.raw_material_suppliers_by_raw_material(r, return_indices=True) for r in n.raw_materials_by_product('all', return_indices=True)} for n in net.nodes}
    return dict(net=net, total=F(total), first=first, succs={n.index: list(n.successor_indices()) for n in net.nodes},
                prod_order={n.index: list(n.product_indices) for n in net.nodes})        # the order in which a node's products place their orders


def spec_multi(case, impl):
    T = case['T']; nd = case['nodes']; pr = case['prods']; ids = list(case['ids'])
    edges = [tuple(e) for e in case['edges']]
    spec = dict(T=T, nodes={}, order=ids, multi=True)
    for i in ids:
        v = nd[i]
        preds = [a for a, b in edges if b == i]; succs = list(impl['succs'][i])
        assert sorted(succs) == sorted(b for a, b in edges if a == i)
        ks = list(impl.get('prod_order', {}).get(i, v['products']))
        assert sorted(ks) == sorted(v['products'])
        bom = {}; sup = {}
        def implicit(p, c): return _implicit(nd, pr, p, c)
        for k in ks:
            bom[k] = {}
            for p in preds:
                for r in nd[p]['products']:
                    if implicit(p, i): bom[k].setdefault(r, Fraction(1))
                    elif r in pr[k]['bom']: bom[k][r] = Fraction(pr[k]['bom'][r])
            if not preds or v.get('ext'): bom[k]['x'] = Fraction(1); sup['x'] = [None]       # the external supplier comes last
        for r in sorted({r for k in ks for r in bom[k] if r != 'x'}):
            want = sorted(p for p in preds if r in nd[p]['products'] and (implicit(p, i) or any(r in pr[k]['bom'] for k in ks)))
            got = [p for p in impl['first'][i].get(r, [])]
            # (which supplier comes first is configuration read from the implementation; WHO supplies r is the specification's)
            sup[r] = got if sorted(got) == want else want
        custs = {k: [c for c in succs if implicit(i, c) or any(k in pr[k2]['bom'] for k2 in nd[c]['products'])] + ([None] if pr[k]['demand'] is not None else []) for k in ks}
        rmh = {}; rmh_sup = {}
        for r, ps in sup.items():
            rmh_sup[r] = ps[0]; rmh[r] = Z if r == 'x' else Fraction(pr[r]['h'])
        spec['nodes'][i] = dict(
            products=ks, bom=bom, sup=sup, custs=custs, preds=preds, succs=succs, slt=v['slt'], olt=v['olt'],
            dtype=(v['dis'][0] if v['dis'] else None), dis=[bool(cyc(v['dis'][1], t)) if v['dis'] else False for t in range(T)],
            h={k: Fraction(pr[k]['h']) for k in ks}, p={k: Fraction(pr[k]['p']) for k in ks},
            ith={k: (None if pr[k]['ith'] is None else Fraction(pr[k]['ith'])) for k in ks}, rev={k: Fraction(pr[k].get('rev', 0)) for k in ks},
            cap={k: (Fraction(pr[k]['cap']) if pr[k]['cap'] else None) for k in ks}, pol={k: pr[k]['pol'] for k in ks}, rmh=rmh, rmh_sup=rmh_sup,
            demand={k: ([Fraction(cyc(pr[k]['demand'], t)) for t in range(T)] if pr[k]['demand'] is not None else None) for k in ks},
            init_il={k: (Fraction(pr[k]['init_il']) if pr[k]['init_il'] is not None else rule(pr[k]['pol'], 0)) for k in ks},
            init_orders=Fraction(v['init_orders']), init_ships=Fraction(v['init_ships']))
    return spec


def g_multi(net, T, spec):
    """general records straight from NodeStateVars; also returns the activity found on (customer, product) pairs that are
    not supply relations of the network (nothing should ever happen there)"""
    G = []; stray = []
    for t in range(T):
        GR = {}
        for n in net.nodes:
            sv = n.state_vars[t]; s = spec['nodes'][n.index]
            xk = n._external_supplier_dummy_product.index
            g = dict(prod={}, cust={}, supp={}, RM={}, DIS=bool(sv.disrupted), HC=F(sv.holding_cost_incurred), SC=F(sv.stockout_cost_incurred),
                     ITHC=F(sv.in_transit_holding_cost_incurred), REV=F(sv.revenue_earned), TC=F(sv.total_cost_incurred))
            for k in s['products']:
                g['prod'][k] = dict(IL=F(sv.inventory_level[k]), OQFG=F(sv.order_quantity_fg[k]), PFG=F(sv.pending_finished_goods[k]), DMFS=F(sv.demand_met_from_stock[k]),
                                    DC=F(sv.demand_cumul[k]), DMC=F(sv.demand_met_from_stock_cumul[k]), FR=F(sv.fill_rate[k]))
            for c in sv.inbound_order:
                for k in sv.inbound_order[c]:
                    d = dict(IO=F(sv.inbound_order[c][k]), OS=F(sv.outbound_shipment[c][k]), BO=F(sv.backorders_by_successor[c][k]),
                             ODI=F(sv.outbound_disrupted_items[c][k]), OP=[F(x) for x in sv.inbound_order_pipeline.get(c, {}).get(k, [])])
                    if c in s['custs'][k]: g['cust'][(c, k)] = d
                    elif any(abs(d[f]) > TOL for f in ('IO', 'OS', 'BO', 'ODI')) or any(abs(x) > TOL for x in d['OP']):
                        stray.append((t, n.index, c, k, {f: fq(d[f]) for f in ('IO', 'OS', 'BO', 'ODI')}))
            for r, ps in s['sup'].items():
                rr = xk if r == 'x' else r
                g['RM'][r] = F(sv.raw_material_inventory[rr])
                for p in ps:
                    g['supp'][(p, r)] = dict(IS=F(sv.inbound_shipment[p][rr]), IDI=F(sv.inbound_disrupted_items[p][rr]), OO=F(sv.on_order_by_predecessor[p][rr]),
                                             OQ=F(sv.order_quantity[p][rr]), SP=[F(x) for x in sv.inbound_shipment_pipeline[p][rr]])
            GR[n.index] = g
        G.append(GR)
    return G, stray


def _mk_multi(ids, edges, T, nodes, prods):
    for i, v in nodes.items():
        v.setdefault('slt', 1); v.setdefault('olt', 0); v.setdefault('dis', None); v.setdefault('init_orders', 0); v.setdefault('init_ships', 0); v.setdefault('level', 0)
    for k, v in prods.items():
        v.setdefault('bom', {}); v.setdefault('shared', False); v.setdefault('pol', ['BS', 10]); v.setdefault('cap', None); v.setdefault('init_il', None)
        v.setdefault('h', Fraction(1)); v.setdefault('p', Fraction(5)); v.setdefault('ith', None); v.setdefault('demand', None); v.setdefault('where', 'node')
    return dict(kind='multi-probe', multi=True, ids=ids, edges=edges, T=T, nodes=nodes, prods=prods, unused=False, twins=False, some_only=False)


def multi_defect_probes():
    """minimal multi-product configurations OUTSIDE the generator's envelope; each is a valid network by the documentation.
    (signature, case).  The unchanged implementation raised / lost units on each of them when this was written."""
    out = []
    # successor with order lead time 2; its predecessor also handles a product (21) the successor does not use
    out.append(('simulation|multi-product|unused-predecessor-product|order-lead-time>=2', _mk_multi(
        [1, 2], [[2, 1]], 4, {1: dict(products=[10], olt=2), 2: dict(products=[20, 21])},
        {10: dict(bom={20: 1}, demand=[2]), 20: {}, 21: dict(demand=None)})))
    # same with order lead time 1 and initial orders: a phantom order for product 21 is shipped to node 1 and disappears
    out.append(('simulation|multi-product|unused-predecessor-product|initial-orders', _mk_multi(
        [1, 2], [[2, 1]], 4, {1: dict(products=[10], olt=1, init_orders=3), 2: dict(products=[20, 21])},
        {10: dict(bom={20: 1}, demand=[2]), 20: {}, 21: {}})))
    # a node with two products of which only one has external demand
    out.append(('simulation|multi-product|demand-for-some-products-only', _mk_multi(
        [1], [], 4, {1: dict(products=[10, 11])}, {10: dict(demand=[2]), 11: {}})))
    # two suppliers of raw material 20, the second one does not supply the other raw material 30
    out.append(('simulation|multi-product|two-suppliers-of-one-raw-material', _mk_multi(
        [1, 2, 3], [[2, 1], [3, 1]], 4, {1: dict(products=[10]), 2: dict(products=[20, 30]), 3: dict(products=[20])},
        {10: dict(bom={20: 1, 30: 1}, demand=[2]), 20: dict(where='product', shared=True), 30: {}})))
    # raw material 20 is handled by both predecessors; node 3 is related to node 1 by an explicit bill of materials (30 only),
    # node 2 only by the implicit network BOM (every product of node 1 needs one unit of every product of node 2)
    out.append(('simulation|multi-product|implicit-network-BOM|raw-material-also-at-explicit-supplier', _mk_multi(
        [1, 3, 2], [[3, 1], [2, 1]], 4, {1: dict(products=[10]), 2: dict(products=[20]), 3: dict(products=[20, 30])},
        {10: dict(bom={30: 1}, demand=[2]), 20: dict(where='product', shared=True), 30: {}})))
    return out


# ================================================================================================
# implementation-level reproducibility helpers (C05 / C06)

def relabel_case(case, mp):
    c = copy.deepcopy(case)
    c['ids'] = [mp[i] for i in case['ids']]
    c['edges'] = [[mp[a], mp[b]] for a, b in case['edges']]
    c['nodes'] = {mp[i]: copy.deepcopy(v) for i, v in case['nodes'].items()}
    for v in c['nodes'].values():
        if v.get('bom'): v['bom'] = [mp[p] for p in v['bom']]
    return c


def rename_recs(recs, mp):
    out = []
    for R in recs:
        RR = {}
        for i, r in R.items():
            q = dict(r)
            q['cust'] = {(mp[c] if c is not None else None): v for c, v in r['cust'].items()}
            q['supp'] = {(mp[p] if p is not None else None): v for p, v in r['supp'].items()}
            RR[mp[i]] = q
        out.append(RR)
    return out


def diff_recs(a, b):
    """exact comparison of two implementation runs on every extracted field"""
    return simlib.compare(dict(recs=a['recs'], total=a['total']), dict(recs=b['recs'], total=b['total']))


def randomize(net, case, rng_spec):
    """replace the deterministic demand lists / disruption lists by random processes (Poisson / discrete uniform demand, Markov disruptions)"""
    from stockpyl.demand_source import DemandSource
    from stockpyl.disruption_process import DisruptionProcess
    for n in net.nodes:
        v = case['nodes'][n.index]
        if v['demand'] is not None:
            kind, a, b = rng_spec['dem'][str(n.index)]
            n.demand_source = DemandSource(type='P', mean=a) if kind == 'P' else DemandSource(type='UD', lo=a, hi=b)
        if v['dis'] and rng_spec['markov']:
            n.disruption_process = DisruptionProcess(random_process_type='M', disruption_type=v['dis'][0], disruption_probability=0.3, recovery_probability=0.5)
    return net


def gen_rng_spec(rng, case):
    return dict(markov=rng.random() < 0.5, seed=(0 if rng.random() < 0.2 else rng.randint(1, 10 ** 6)),      # 0 is a valid seed
               
                dem={str(i): (['P', rng.choice([1, 2, 4, 6]), 0] if rng.random() < 0.5 else ['UD', 0, rng.choice([3, 6, 10])]) for i in case['ids']})


def run_random(case, rng_spec, seed=None, stepwise=False):
    import stockpyl.sim as sim
    sim.issued_backorder_warning = False
    net = randomize(simlib.build_impl(case), case, rng_spec)
    T = case['T']; seed = rng_spec['seed'] if seed is None else seed
    with warnings.catch_warnings():
        warnings.simplefilter('ignore')
        if stepwise:
            sim.initialize(net, T, rand_seed=seed)
            for _ in range(T): sim.step(net, consistency_checks='N')
            total = sim.close(net)
        else:
            total = sim.simulation(net, T, rand_seed=seed, progress_bar=False, consistency_checks='N')
    return dict(recs=simlib.extract_records(net, T), total=F(total), struct=simlib.structure(net), net=net)


def realised_case(case, impl):
    """the deterministic case whose demand / disruption lists are the realisations of a random run"""
    c = copy.deepcopy(case); T = case['T']
    for i, v in c['nodes'].items():
        if v['demand'] is not None:
            v['demand'] = [impl['recs'][t][i]['cust'][None]['IO'] for t in range(T)]
            assert all(x.denominator == 1 for x in v['demand']); v['demand'] = [int(x) for x in v['demand']]
        if v['dis']:
            v['dis'] = [v['dis'][0], [bool(impl['recs'][t][i]['DIS']) for t in range(T)]]
    return c


# ================================================================================================
# the driver shared by py/props/c01.py ... c06.py

TOL = Fraction(1, 10 ** 9)
FIELDS = {'C01': ['IL', 'PFG', 'RM', 'IS', 'OS', 'IO', 'BO', 'ODI', 'IDI', 'OP', 'SP'],
          'C02': ['BO', 'ODI', 'IL', 'OS', 'DMFS', 'DC', 'DMC', 'FR'],
          'C03': ['OQ', 'IO', 'IS', 'OS', 'OO', 'OP', 'SP', 'IDI'],
          'C04': ['OQFG', 'OQ', 'IO'],
          'C05': ['HC', 'SC', 'ITHC', 'REV', 'TC', 'TOTAL'],
          'C06': None}
MULTI_PROPS = ('C01', 'C02', 'C03', 'C04', 'C05')
NEG_INIT_SIG = 'simulation|negative-initial-inventory-level'
SPECIFIC = {'C01': ['SP-new-held-items', 'RP-items-held-at-door', 'held-items-released', 'RP-held-items-received'],
            'C02': ['SP-successor-with-backorders', 'backorders-cleared', 'short-with-several-customers'],
            'C03': ['OLT>0-with-orders', 'TP-with-units-in-pipeline', 'RP-items-held-at-door'],
            'C04': ['capacity-binding', 'IP>reorder-point', 'IP>base-stock-level', 'OP-active', 'IP==reorder-point'],
            'C05': ['cost:holding+stockout+in-transit>0'],
            'C06': ['short-with-several-customers', 'backorders-cleared', 'held-items-released']}
RULES = {
    'C01': 'bias: shipment-pausing disruptions at nodes with predecessors, many backorders',
    'C02': 'as C01 plus a 4%% malformed stream with a negative initial inventory level (known finding %s)' % NEG_INIT_SIG,
    'C03': 'order lead times up to 3, 60% of the configured disruptions turned into transit-/receipt-pausing ones',
    'C04': 'policies BS/sS/rQ/FQ/EBS (EBS only where the echelon average is exact in binary64), capacity 30%, order-pausing disruptions; plus pure policy-function '
           'cases (random parameters, positions incl. the reorder point itself, capacities) and serial EBS-vs-converted-BS systems (1-6 stages, SLT 0-3, OLT 0, random demand, node ids incl. 0, '
           'edges given in shuffled order so that network.nodes is not listed upstream-to-downstream); multi-product stream: per-product position with units earmarked for the other products, '
           'orders per (supplier, raw material) = NBOM x finished-goods orders, and the supplier receives them one order lead time later',
    'C05': 'holding/stockout rates k/4, in-transit rate None/0/positive, revenue 30%; 30% of the cases carry optional holding / stockout cost functions (a x + b x^2, not clamped; cost read-out of Sim/CostFn.v + monitors) and a shipment-pausing disruption; plus run_multiple_trials re-derived trial by trial with the same seeds (Poisson / uniform demand; 2-5 trials, and 150-300 trials on 1-2-node networks, where trial seeds repeat)',
    'C06': 'default mix (25% of the networks contain node index 0); relabellings onto 100..199 or onto 0..n; rand_seed 0 in 20% of the random-demand runs; every case also run period by period (initialize/step/close), relabelled (fresh case and reindex_nodes), and with random demand / Markov disruptions '
           '(same seed twice; realisations fed to the Coq model); plus 15 (thorough: 150) networks renumbered AFTER the simulation (reindex_nodes on a network holding state variables; maps onto fresh indices, permutations '
           '/ swaps / cycles of the existing indices, identity, onto 0..n-1, shift by one): every attribute of every NodeStateVars record, with its keys (nodes, products incl. dummy products, None for the external '
           'supplier / customer), must equal that of a network built with the new indices and simulated in the same way, and the renumbered object simulated again must give that trajectory'}


LEVELS_RULE = (' In 40% of the single-product cases (C03: 50%) nodes handle an explicit product and each attribute (lead times, cost rates and functions, revenue, capacity, '
               'initial level / orders / shipments, policy, demand source) is given on the node, on the product or per (node, product), with decoy values on the product where the node\'s '
               'own value must win; suppliers linked by an explicit bill of materials (number 1), by the network structure alone, or the external supplier next to predecessors, in any mix. '
               'Multi-product stream: lead times / policies / demand sources on the products, revenue rates for 50% of the products, predecessors without any bill-of-materials relation '
               '(network-implied raw materials) next to BOM-linked ones and to the external supplier. Input classes on which the UNCHANGED library fails are excluded and reported '
               '(set VERIF_SIM_DEFECT_CLASSES=1 to generate them): lead times as a product-keyed dict; product-level lead times together with initial shipments / initial orders to the '
               'external supplier; initial orders on the product of a node with order lead time > 0; echelon base-stock policy above a node with an explicit product; and the comparison of the '
               'reported revenue with sum_k rate_k x shipments_k in periods in which a product other than the node\'s last earns revenue (only the last product\'s revenue is reported).')
RULES = {k: v + LEVELS_RULE for k, v in RULES.items()}


LIFE_N = (40, 400)       # lifecycle cases per (quick, thorough) run


def monitors(pid, spec, G, total, tol=None, multi=False, cover=None, notes=None):
    if pid == 'C01': return mon_c01(spec, G, tol)
    if pid == 'C02': return mon_c02(spec, G, tol)
    if pid == 'C03': return mon_c03(spec, G, tol)
    if pid == 'C04': return mon_c04_multi(spec, G, tol) if multi else mon_c04(spec, G, tol, cover=cover)
    if pid == 'C05': return mon_c05(spec, G, total, tol, notes=notes)
    if pid == 'C06':
        # the documented sequence of events implies every consequence checked for C01-C05 (a shipment with lead time 0 is received in the
        # period it is sent, orders follow the observed position, ...): all monitors run, so that a departure from the sequence is reported
        # with a concrete state variable that contradicts the documentation
        bad = mon_c06(spec, G, tol)
        for f in (mon_c01, mon_c02, mon_c03): bad += [x for x in f(spec, G, tol) if x not in bad]
        if not multi:
            bad += list(mon_c04(spec, G, tol)) + list(mon_c05(spec, G, total, tol))
        return bad
    raise ValueError(pid)


def gen_single(pid, rng, nmax, tmax, directed=False, policies=None):
    kw = {}
    if pid in ('C01', 'C02'): kw = dict(bias='SP')
    elif pid == 'C03': kw = dict(olt_max=3, bias='TP/RP')
    elif pid == 'C04': kw = dict(policies=['BS', 'sS', 'rQ', 'FQ', 'EBS'])
    if policies: kw['policies'] = policies
    # 40% of the cases (C03: 50%): attributes specified on explicit products / per (node, product), explicit vs network-implied bills of
    # materials, nodes with predecessors AND the external supplier (simlib.gen_levels; plumbing only, the model sees the same configuration)
    c = simlib.gen_case(rng, nmax=nmax, tmax=tmax, **kw)
    c['mode'] = 'single'; c['malformed'] = None
    if pid == 'C03':
        for v in c['nodes'].values():
            if v['dis'] and rng.random() < 0.6: v['dis'][0] = rng.choice(['TP', 'RP'])
            if rng.random() < 0.25: v['olt'] = rng.randint(1, 3)
    if pid == 'C04':
        for v in c['nodes'].values():
            if v['dis'] and rng.random() < 0.4: v['dis'][0] = 'OP'
    # (below, once the configuration is final) 40% of the cases (C03: 50%): attributes specified on explicit products / per (node, product), explicit
    # vs network-implied bills of materials, nodes with predecessors AND the external supplier (simlib.gen_levels; plumbing only: the Stage-1 model
    # and the monitors see the same configuration)
    if pid == 'C05' and rng.random() < 0.3:      # optional cost functions (they replace the rate for finished goods only; model: cost read-out of Sim/CostFn.v)
        for v in c['nodes'].values():
            if rng.random() < 0.5: v['hf'] = [Fraction(rng.randint(0, 12), 4), Fraction(rng.choice([0, 0, 1, 2]), 4)]
            if rng.random() < 0.3: v['pf'] = [Fraction(rng.randint(0, 40), 4), Fraction(rng.choice([0, 0, 1, 2]), 4)]
        if pid == 'C05' and not any(v['dis'] and v['dis'][0] == 'SP' for v in c['nodes'].values()):
            cand = [i for i in c['ids'] if any(b == i for a, b in c['edges'])]
            if cand and rng.random() < 0.6:
                i = rng.choice(cand); c['nodes'][i]['dis'] = ['SP', [rng.random() < 0.4 for _ in range(rng.choice([3, 5, c['T']]))]]
    if pid == 'C02' and rng.random() < 0.04:
        i = rng.choice(c['ids']); c['nodes'][i]['init_il'] = -rng.randint(1, 6); c['malformed'] = 'negative-initial-inventory-level'
    if rng.random() < (0.5 if pid == 'C03' else 0.4):
        simlib.gen_levels(rng, c)
    if pid == 'C06' and not directed:
        c['aux'] = dict(mp={str(i): k for i, k in zip(c['ids'], rng.sample((range(100, 200) if rng.random() < 0.5 else range(0, len(c['ids']) + 1)), len(c['ids'])))}, rs=gen_rng_spec(rng, c))
    return c


def _fail(chk, sig, what, case):
    chk.fail(sig if sig.startswith('simulation|') else 'simulation|' + sig, what, case)


def check_single(chk, pid, case, model=None, count=True):
    """implementation run + monitors (+ the implementation-level reproducibility checks of C06) on one single-product case.
    Returns (impl, coverage set) or (None, set()) when the implementation raised."""
    try:
        impl = simlib.run_impl(case)
    except Exception as e:
        _fail(chk, 'raises-%s' % exc_kind(e), 'simulation() raises %s: %s' % (type(e).__name__, str(e)[:300]), case)
        return None, set()
    try:
        spec = spec_single(case, impl['struct'])
    except AssertionError:
        st = impl['struct']
        _fail(chk, 'network-structure-differs-from-the-specified-network', 'the network object reports predecessors %s, successors %s, external supplier %s, external customer %s; the case specifies edges %s, '
              'external suppliers at the nodes without predecessors and at %s, demand at %s' % (st['preds'], st['succs'], st['ext_sup'], st['has_dem'], case['edges'],
              [i for i in case['ids'] if case['nodes'][i].get('ext')], [i for i in case['ids'] if case['nodes'][i]['demand'] is not None]), case)
        return None, set()
    G = g_single(impl['recs'])
    cov = coverage(spec, G)
    bad = monitors(pid, spec, G, impl['total'], cover=cov)
    neg = negative_initial(spec)
    for sig, what in bad:
        if neg and sig == 'bo-ne-neg-il': _fail(chk, NEG_INIT_SIG, what, case)
        else: _fail(chk, sig, what, case)
    if pid == 'C05' and any(impl['recs'][t][i]['HC'] > 0 for t in range(case['T']) for i in case['ids']) and \
            any(impl['recs'][t][i]['SC'] > 0 for t in range(case['T']) for i in case['ids']) and any(impl['recs'][t][i]['ITHC'] > 0 for t in range(case['T']) for i in case['ids']):
        cov.add('cost:holding+stockout+in-transit>0')
    if pid in ('C02', 'C05', 'C06'):
        # the same network OBJECT simulated a second time (what run_multiple_trials does): a fresh start, so the same trajectory and the same monitors
        import stockpyl.sim as sim
        try:
            with warnings.catch_warnings():
                warnings.simplefilter('ignore')
                tot2 = sim.simulation(impl['net'], case['T'], rand_seed=1, progress_bar=False, consistency_checks='N')
            again = dict(recs=simlib.extract_records(impl['net'], case['T']), total=F(tot2))
            d = simlib.compare(dict(recs=impl['recs'], total=impl['total']), again)
            if d:
                _fail(chk, 'second-run-on-same-network-object', 'simulating the same network object again gives a different trajectory: %d field(s) differ, first (period, node, field, first run, second run) = %s'
                      % (len(d), jsonable(d[0])), case)
                for sig, what in monitors(pid, spec, g_single(again['recs']), again['total'])[:3]:
                    _fail(chk, 'second-run-on-same-network-object|' + sig, what, case)
        except Exception as e:
            _fail(chk, 'second-run-on-same-network-object|raises-%s' % exc_kind(e), '%s: %s' % (type(e).__name__, str(e)[:200]), case)
    if pid == 'C06' and case.get('aux'):
        c06_repro(chk, case, impl)
    return impl, cov


# ------------------------------------------------------------------------------------------------
# lifecycle stream: ONE network object is built, simulated, edited through the public API (attributes at the level they are given on, new
# downstream / upstream nodes, removed nodes), possibly deep-copied, and simulated again (simulation() | initialize/step/close |
# run_multiple_trials; same or different horizon), several times.  Every run is judged by the property's monitors with the specification
# of the network AS IT IS AT THAT RUN, and its trajectory is compared (observables of the property; C06: every field) with the one of a
# twin network built afresh with the same final attributes: state carried between calls on one object must not exist.

LIFE_ATTRS = {'C01': ['slt', 'slt', 'dis', 'dis', 'init_ships', 'cap'], 'C02': ['dis', 'dis', 'init_il', 'demand', 'cap'], 'C03': ['slt'] * 5 + ['olt'] * 4 + ['dis', 'init_orders', 'init_ships'],
              'C04': ['pol'] * 4 + ['cap', 'cap', 'init_il'], 'C05': ['h'] * 3 + ['ith'] * 4 + ['p', 'p', 'rev', 'rev', 'hf', 'pf'], 'C06': []}
LIFE_RULE = (' Lifecycle stream (%d cases): a network object from the same generator is simulated, then 1-3 times edited and simulated again. Edits per stage: 0-3 of {attribute set through the public '
             'attribute at the level it is given on - lead times, cost rates/functions, in-transit rate incl. None, revenue, capacity, initial level/orders/shipments, policy (type may change), '
             'demand list, disruption process - weighted towards the attributes the property reads; new sink below any node (its external demand kept or dropped); new source above a source '
             '(external supplier kept or dropped); removal of a node with one neighbour}; 15%% of the stages work on a copy.deepcopy of the simulated object; the next run uses the same horizon (60%%) '
             'or another one, and is made by simulation() (60%%), initialize/step/close (20%%) or run_multiple_trials with 2-4 trials (20%%; the object then holds the last trial; C05: returned mean = '
             'total/T, SEM 0 for deterministic demand). Oracles per run: the property\'s monitors with the specification of the edited network, and equality of the property\'s observables with a '
             'freshly built twin network having the same final attributes. %s')


def edit_class(st):
    ks = {op[0] for op in st['ops']}
    c = 'no-edit' if not ks else 'attributes+topology' if ('set' in ks and len(ks) > 1) else 'attributes' if ks == {'set'} else 'topology'
    return c + ('+deepcopy' if st.get('copy') else '')


def gen_lifecycle(pid, rng, nmax, tmax):
    pols = ['BS', 'sS', 'rQ', 'FQ'] + (['EBS'] * 4 if pid == 'C04' else [])       # C04: echelon policies at half of the nodes, so that edited networks have echelons
    while True:
        c = gen_single(pid, rng, nmax, tmax, directed=True, policies=(pols if pid == 'C04' else None))
        if not c['malformed']: break
    c['mode'] = 'lifecycle'; c['stages'] = []
    attrs = simlib.SET_ATTRS + LIFE_ATTRS[pid]
    cur = c; T = c['T']
    for k in range(rng.choice([1, 2, 2, 3])):
        ops, cur = simlib.gen_ops(rng, cur, T, attrs, p_topology=(0.45 if pid == 'C04' else 0.2), pols=pols, olt_max=(3 if pid == 'C03' else 2), nmax=nmax + 2)
        T = T if rng.random() < 0.6 else rng.randint(4, tmax)
        c['stages'].append(dict(ops=ops, T=T, how=rng.choice(['simulation'] * 6 + ['steps'] * 2 + ['trials'] * 2), ntr=rng.randint(2, 4), copy=rng.random() < 0.15))
    return c


def lifecycle_from_json(c):
    c = simlib.case_from_json(c)
    for st in c['stages']: st['ops'] = simlib.ops_from_json(st['ops'])
    return c


def check_lifecycle(chk, pid, case):
    """returns (number of runs judged, coverage of the re-runs)"""
    cur = {k: v for k, v in case.items() if k != 'stages'}
    cov = set(); runs = 0
    def judge(live, cur, where, twin=None):
        try:
            spec = spec_single(cur, live['struct'])
        except AssertionError:
            st = live['struct']
            _fail(chk, where + '|network-structure-differs-from-the-specified-network', 'the network object reports predecessors %s, successors %s, external supplier %s, external customer %s; after the edits it should have '
                  'edges %s, demand at %s' % (st['preds'], st['succs'], st['ext_sup'], st['has_dem'], cur['edges'], [i for i in cur['ids'] if cur['nodes'][i]['demand'] is not None]), case)
            return False
        G = g_single(live['recs'])
        for sig, what in monitors(pid, spec, G, live['total'])[:4]:
            _fail(chk, where + '|' + sig, what, case)
        if twin is not None:
            same = all(twin['struct'][f] == live['struct'][f] for f in ('preds', 'succs', 'ext_sup', 'has_dem'))
            chk.count('lifecycle:twin-compared=%s' % same)
            if same:     # (a different service order of the same customers is a different configuration)
                d = simlib.compare(live, twin, fields=FIELDS[pid])
                if d:
                    _fail(chk, where + '|differs-from-freshly-built-network|%s' % str(d[0][2]).split('[')[0], '%d observable(s) of %s differ from those of a network built afresh with the same attributes; '
                          'first (period, node, field, re-used object, fresh network) = %s' % (len(d), pid, jsonable(d[0])), case)
        c2 = coverage(spec, G)
        return c2
    try:
        live = simlib.run_impl(cur)
    except Exception as e:
        _fail(chk, 'raises-%s' % exc_kind(e), 'simulation() raises %s: %s' % (type(e).__name__, str(e)[:300]), case); return 0, cov
    if judge(live, cur, 'first-run') is False: return 0, cov
    net = live['net']
    for k, st in enumerate(case['stages'], 1):
        ec = edit_class(st); where = 're-used-network-object|after-%s' % ec
        sameT = st['T'] == cur['T']
        try:
            if st.get('copy'): net = copy.deepcopy(net)
            nxt = simlib.apply_ops_net(net, cur, st['ops']); nxt['T'] = st['T']
            live = simlib.run_live(net, st['T'], st['how'], st['ntr'], seed=k + 1)
        except Exception as e:
            _fail(chk, where + '|raises-%s' % exc_kind(e), 'stage %d (%s, edits %s, horizon %d): %s: %s' % (k, st['how'], jsonable(st['ops']), st['T'], type(e).__name__, str(e)[:300]), case)
            return runs, cov
        cur = nxt
        try:
            twin = simlib.run_impl(cur)
        except Exception as e:
            _fail(chk, 'raises-%s' % exc_kind(e), 'simulation() of the freshly built network of stage %d raises %s: %s' % (k, type(e).__name__, str(e)[:300]), case)
            return runs, cov
        c2 = judge(live, cur, where, twin)
        if c2 is False: return runs, cov
        runs += 1; cov |= c2
        if pid == 'C05' and st['how'] == 'trials':
            want = float(twin['total'] / st['T'])
            if not close(live['mean'], want):
                chk.fail('run_multiple_trials|mean|deterministic-demand', 'stage %d: %d trials of %d periods with deterministic demand: returned mean %r but every trial costs %r per period' % (k, st['ntr'], st['T'], live['mean'], want), case)
            if not close(live['sem'], 0.0, abs_=1e-9 * max(1.0, abs(want))):
                chk.fail('run_multiple_trials|sem|deterministic-demand', 'stage %d: %d identical trials: returned SEM %r, expected 0' % (k, st['ntr'], live['sem']), case)
        chk.count('lifecycle:edits=%s' % ec); chk.count('lifecycle:run-by=%s' % st['how']); chk.count('lifecycle:same-horizon=%s' % sameT)
        for op in st['ops']: chk.count('lifecycle:edit:%s' % (op[0] if op[0] != 'set' else 'set-' + op[2]))
        if pid == 'C04':
            spec = spec_single(cur, live['struct'])
            new = [op[2] for op in st['ops'] if op[0] == 'add-sink']
            if any(spec['nodes'][n]['pol'][n][0] == 'EBS' and any(j in descendants(spec, n) and n not in spec['nodes'][j]['preds'] for j in new) for n in spec['nodes']):
                chk.count('lifecycle:new-node-two-or-more-stages-below-an-echelon-policy')
    return runs, cov


def fork_rng(chk, name):
    """a generator for an added stream, derived from the current state of chk.rng WITHOUT advancing it: the streams that existed before
    keep generating exactly the cases they generated before the stream was added"""
    import random, hashlib
    return random.Random('%s|%s' % (name, hashlib.sha256(repr(chk.rng.getstate()).encode()).hexdigest()))


def lifecycle_stream(chk, pid, n):
    t0 = time.time(); rng = fork_rng(chk, 'lifecycle')
    for _ in range(n):
        c = gen_lifecycle(pid, rng, 5, 12)
        c = lifecycle_from_json(json.loads(json.dumps(jsonable(c))))       # what a replay will see
        runs, cov = check_lifecycle(chk, pid, c)
        chk.count('stream=lifecycle'); chk.count('lifecycle:stages=%d' % len(c['stages']))
        chk.case(c, runs > 0 and 'BO>0' in cov and 'pipeline>0' in cov, simlib.case_key(c) + json.dumps(jsonable(c['stages']), sort_keys=True))
    chk.extra['lifecycle_cases'] = chk.extra.get('lifecycle_cases', 0) + n
    chk.extra['lifecycle_seconds'] = round(chk.extra.get('lifecycle_seconds', 0) + time.time() - t0, 1)


# ------------------------------------------------------------------------------------------------
# C06: renumbering AFTER the simulation (network.reindex_nodes on a network that holds state variables) = renumbering before it

def sv_diff(a, b, path=''):
    """first difference between two state-variable values (nested dicts with their keys as they are, pipelines, numbers), or None"""
    if isinstance(a, dict) and isinstance(b, dict):
        if set(a) != set(b):
            return '%s: keys %s, expected keys %s' % (path, sorted(a, key=str), sorted(b, key=str))
        for k in a:
            d = sv_diff(a[k], b[k], '%s[%r]' % (path, k))
            if d: return d
        return None
    if isinstance(a, (list, tuple)) and isinstance(b, (list, tuple)):
        if len(a) != len(b): return '%s: %r, expected %r' % (path, list(a), list(b))
        for j, (x, y) in enumerate(zip(a, b)):
            d = sv_diff(x, y, '%s[%d]' % (path, j))
            if d: return d
        return None
    if isinstance(a, (dict, list, tuple)) or isinstance(b, (dict, list, tuple)) or a != b:
        return '%s = %r, expected %r' % (path, a, b)
    return None


def gen_index_map(rng, ids):
    """old index -> new index: onto fresh indices, a permutation of the existing indices (swap, cycle, shuffle), the identity, onto 0..n-1, or a
    shift by one (image and domain overlap without being equal)"""
    n = len(ids)
    kind = rng.choice(['fresh', 'permutation', 'permutation', 'swap', 'cycle', 'identity', 'onto-0..n-1', 'shift-by-one'])
    if kind == 'fresh': new = rng.sample(range(100, 200), n)
    elif kind == 'permutation': new = list(ids); rng.shuffle(new)
    elif kind == 'swap':
        new = list(ids)
        if n > 1:
            a, b = rng.sample(range(n), 2); new[a], new[b] = new[b], new[a]
    elif kind == 'cycle':
        order = list(range(n)); rng.shuffle(order); new = [None] * n
        for a, b in zip(order, order[1:] + order[:1]): new[a] = ids[b]
    elif kind == 'identity': new = list(ids)
    elif kind == 'onto-0..n-1': new = rng.sample(range(n), n)
    else: new = [i + 1 for i in ids]
    return kind, {str(i): k for i, k in zip(ids, new)}


def check_reindex(chk, case):
    import stockpyl.sim as sim
    mp = {int(k): v for k, v in case['aux']['mp'].items()}; T = case['T']; kind = case['aux']['kind']
    overlap = 'identity' if all(k == v for k, v in mp.items()) else 'image-overlaps-domain' if set(mp.values()) & set(mp) else 'fresh-indices'
    try:
        a = simlib.run_impl(case); net = a['net']
        b = simlib.run_impl(relabel_case(case, mp))
    except Exception as e:
        _fail(chk, 'raises-%s' % exc_kind(e), 'simulation() raises %s: %s' % (type(e).__name__, str(e)[:300]), case); return
    try:
        net.reindex_nodes(dict(mp))
    except Exception as e:
        chk.fail('reindex_nodes|after-simulation|%s|raises-%s' % (overlap, exc_kind(e)), 'reindex_nodes(%s) on a simulated network raises %s: %s' % (mp, type(e).__name__, str(e)[:300]), case); return
    try:
        for i in case['ids']:
            n1 = net.nodes_by_index[mp[i]]; n2 = b['net'].nodes_by_index[mp[i]]
            if n1 is None or len(n1.state_vars) != len(n2.state_vars):
                chk.fail('reindex_nodes|after-simulation|%s|state-variables-not-renamed' % overlap, 'reindex_nodes(%s): node %s -> %s has %s state-variable records, a network built with the new indices has %d'
                         % (mp, i, mp[i], None if n1 is None else len(n1.state_vars), len(n2.state_vars)), case); return
            for t, (x, y) in enumerate(zip(n1.state_vars, n2.state_vars)):
                vx = {k: v for k, v in vars(x).items() if k != 'node'}; vy = {k: v for k, v in vars(y).items() if k != 'node'}
                d = sv_diff(vx, vy)
                if d is None and x.node is not n1: d = '.node is not the node that holds the record'
                if d:
                    chk.fail('reindex_nodes|after-simulation|%s|state-variables-not-renamed' % overlap, 'simulation(); reindex_nodes(%s): state_vars[%d] of node %s (was %s) differs from the one of a network built with the new '
                             'indices and simulated in the same way: %s' % (mp, t, mp[i], i, d), case); return
        # ... and the renumbered object keeps working: simulated again, it gives the trajectory of the network built with the new indices
        with warnings.catch_warnings():
            warnings.simplefilter('ignore')
            tot = sim.simulation(net, T, rand_seed=1, progress_bar=False, consistency_checks='N')
        d = simlib.compare(dict(recs=simlib.extract_records(net, T), total=F(tot)), b)
        if d:
            chk.fail('reindex_nodes|after-simulation|%s|simulated-again' % overlap, 'simulation(); reindex_nodes(%s); simulation(): %d field(s) differ from the trajectory of a network built with the new indices, first (period, node, field, renumbered, fresh) = %s'
                     % (mp, len(d), jsonable(d[0])), case)
    except Exception as e:
        chk.fail('reindex_nodes|after-simulation|%s|raises-%s' % (overlap, exc_kind(e)), 'reading / re-simulating the network renumbered by reindex_nodes(%s) raises %s: %s' % (mp, type(e).__name__, str(e)[:300]), case)
    return overlap


def reindex_stream(chk, n):
    rng = fork_rng(chk, 'reindex')
    for _ in range(n):
        c = gen_single('C06', rng, 5, 12, directed=True)
        c['mode'] = 'reindex'
        kind, mp = gen_index_map(rng, c['ids']); c['aux'] = dict(kind=kind, mp=mp)
        c = simlib.case_from_json(json.loads(json.dumps(jsonable(c))))
        ov = check_reindex(chk, c)
        chk.count('stream=reindex-after-simulation'); chk.count('reindex-after-simulation:map=%s' % kind); chk.count('reindex-after-simulation:%s' % ov)
        chk.case(c, len(c['ids']) > 1 and kind != 'identity', simlib.case_key(c) + json.dumps(c['aux'], sort_keys=True))


def check_override(chk, pid, case):
    try:
        impl = simlib.run_impl(case, step_split=True, overrides=case['overrides'])
    except Exception as e:
        _fail(chk, 'order_quantity_override|raises-%s' % exc_kind(e), 'step(order_quantity_override=...) raises %s: %s' % (type(e).__name__, str(e)[:300]), case); return
    spec = spec_single(case, impl['struct']); G = g_single(impl['recs'])
    bad = list(mon_c01(spec, G)) + list(mon_c02(spec, G)) + list(mon_c03(spec, G))
    # the overriding quantity is what is recorded as ordered (unless order-pausing disrupted)
    for t, ov in case['overrides'].items():
        for i, q in ov.items():
            t_, i_ = int(t), int(i)
            if dis_at(spec, i_, t_, 'OP'): continue
            for (pp, r), v in G[t_][i_]['supp'].items():
                if v['OQ'] != q: bad.append(('override-not-recorded', 'node %s period %d: override %s but order_quantity[%s] = %s' % (i_, t_, q, pp, fq(v['OQ']))))
    for sig, what in bad[:6]:
        _fail(chk, 'order_quantity_override|' + sig, what, case)


def c06_repro(chk, case, impl):
    import stockpyl.sim as sim
    T = case['T']; mp = {int(k): v for k, v in case['aux']['mp'].items()}; rs = case['aux']['rs']
    def rep(sig, what, d):
        _fail(chk, sig, '%s: %d field(s) differ, first (period, node, field, a, b) = %s' % (what, len(d), jsonable(d[0])), case)
    d = diff_recs(impl, simlib.run_impl(case, step_split=True))
    if d: rep('step-vs-batch', 'initialize(); step() x T; close() differs from simulation()', d)
    renamed = dict(recs=rename_recs(impl['recs'], mp), total=impl['total'])
    d = simlib.compare(renamed, simlib.run_impl(relabel_case(case, mp)))
    if d: rep('relabel', 'the same network built with renumbered nodes %s does not give the renamed trajectory' % mp, d)
    net = simlib.build_impl(case); net.reindex_nodes(mp)
    with warnings.catch_warnings():
        warnings.simplefilter('ignore')
        tot = sim.simulation(net, T, rand_seed=1, progress_bar=False, consistency_checks='N')
    d = simlib.compare(renamed, dict(recs=simlib.extract_records(net, T), total=F(tot)))
    if d: rep('reindex_nodes', 'reindex_nodes(%s) then simulation() does not give the renamed trajectory' % mp, d)
    a = run_random(case, rs); b = run_random(case, rs); s = run_random(case, rs, stepwise=True)
    d = diff_recs(a, b)
    if d: rep('same-seed', 'two runs with rand_seed=%d (random demand%s) differ' % (rs['seed'], ', Markov disruptions' if rs['markov'] else ''), d)
    d = diff_recs(a, s)
    if d: rep('step-vs-batch|random', 'period-by-period run differs from simulation() with rand_seed=%d' % rs['seed'], d)
    return a


def check_multi(chk, pid, case):
    try:
        impl = run_multi(case)
    except Exception as e:
        _fail(chk, 'multi-product|raises-%s' % exc_kind(e), 'simulation() of a multi-product network raises %s: %s' % (type(e).__name__, str(e)[:300]), case)
        return None, set()
    try:
        spec = spec_multi(case, impl); G, stray = g_multi(impl['net'], case['T'], spec)
    except Exception as e:
        # the state variables do not have the entries the network of the case calls for (e.g. no pipeline for a supplier of the specification)
        _fail(chk, 'multi-product|state-variables-do-not-match-the-network|%s' % exc_kind(e), 'reading the state variables of the supply relations of the case raises %s: %s' % (type(e).__name__, str(e)[:200]), case)
        return None, set()
    if stray and pid == 'C01':
        _fail(chk, 'multi-product|activity-for-unused-product', 'orders/shipments for a product the customer does not use: (period, node, customer, product, values) = %s' % (stray[0],), case)
    notes = set()
    for sig, what in monitors(pid, spec, G, impl['total'], tol=TOL, multi=True, notes=notes):
        _fail(chk, 'multi-product|' + sig, what, case)
    impl['spec'] = spec; impl['G'] = G
    return impl, coverage(spec, G) | {'note:' + x for x in notes}


def model2_stream(chk, pid, items):
    """Stage-2 model (coq/Sim2/Model2.v: multi-product networks with bills of materials) against the implementation: every field of every
    period at 1e-9. The model computes in exact rationals, the implementation in binary64; a run whose first difference is explained by a
    decision taken exactly ON a reorder point / base-stock level (the implementation's rounding error decides) is skipped and counted, as is
    a case whose exact evaluation exceeds the time limit (denominators of proportional shares can double every few periods)."""
    import sim2lib
    try:
        sim2lib.ensure_compiled()
    except Exception as e:
        chk.broken.append(('Sim2/Obs2.vo', str(e)[-600:])); return
    args = []; keep = []
    for c, impl in items:
        try:
            st, problems = sim2lib.struct2(impl['net'], impl['spec'])
        except Exception as e:
            chk.mismatch('structure tables of the Stage-2 model cannot be read from the implementation: %s' % str(e)[:200], c); continue
        if problems:
            chk.mismatch('configuration read from the implementation differs from the specification of the case: %s' % (problems[0],), c); continue
        args.append((impl['spec'], st, {}, None)); keep.append((c, impl))
    if not args: return
    try:
        Ms = sim2lib.run_model2(args, name=pid.lower() + 'm2', shard=4, timeout=(60 if chk.tier == 'quick' else 300), tolerate=True)
    except Exception as e:
        chk.broken.append(('model-evaluation-stage2', str(e)[-600:])); return
    try:       # the decidable hypotheses of the Stage-2 theorems (Props/C01-C03 'multi' theorems), evaluated for every compared network
        for (c, impl), g in zip(keep, sim2lib.eval_good2([(a[0], a[1]) for a in args], name=pid.lower() + 'g2')):
            chk.count('multi:stage2-theorem-hypotheses good2b=%s cons2b=%s goodB2b=%s onceB2b=%s supC2b=%s priceC2b=%s ratesC2b=%s' % g)
    except Exception as e:
        chk.broken.append(('evaluation of good2b', str(e)[-400:]))
    nskip = nslow = 0
    for (c, impl), M in zip(keep, Ms):
        if M is None:
            nslow += 1; continue
        diffs = sim2lib.compare2(impl['G'], impl['total'], M, 1e-9)
        if diffs and sim2lib.flip_fixes(impl['spec'], impl['G'], M, diffs, 1e-9):
            nskip += 1; continue
        chk.traces += 1; chk.count('multi:stage2-model-compared')
        if diffs:
            d = diffs[0]
            chk.mismatch('Stage-2 model vs implementation: %d field(s) differ, first (period, node, field, implementation, model) = (%s, %s, %s, %r, %r)'
                         % (len(diffs), d[0], d[1], d[2], float(d[3]) if d[3] is not None else None, float(d[4]) if d[4] is not None else None), c)
    chk.extra['stage2_threshold_tie_skipped'] = chk.extra.get('stage2_threshold_tie_skipped', 0) + nskip
    chk.extra['stage2_exact_evaluation_too_slow_skipped'] = chk.extra.get('stage2_exact_evaluation_too_slow_skipped', 0) + nslow


def check_probe(chk, sig, case):
    """a minimal multi-product configuration outside the generator's envelope: any exception or monitor failure is reported under `sig`"""
    try:
        impl = run_multi(case)
        spec = spec_multi(case, impl); G, stray = g_multi(impl['net'], case['T'], spec)
        bad = list(mon_c01(spec, G, TOL)) + list(mon_c02(spec, G, TOL)) + list(mon_c03(spec, G, TOL))
        if stray: bad.insert(0, ('stray', 'orders/shipments for a product the customer does not use: (period, node, customer, product, values) = %s' % (stray[0],)))
        if bad: chk.fail(sig + '|' + bad[0][0], '; '.join(w for _, w in bad[:3]), case)
    except Exception as e:
        chk.fail(sig, 'simulation() raises %s: %s' % (type(e).__name__, str(e)[:200]), case)


def ensure_model(chk):
    ok, log = coq_make(['Sim/Obs.vo', 'Sim/CostFn.vo'])
    if not ok:
        chk.broken.append(('Sim/Obs.vo', log[-800:]))
    return ok


def sizes(tier, n, directed=False):
    """list of (count, nmax, tmax)"""
    if tier == 'quick':
        return [(int(n * 0.8), 5, 12), (n - int(n * 0.8), 6, 20)]
    return [(int(n * 0.68), 5, 12), (int(n * 0.22), 7, 30), (n - int(n * 0.68) - int(n * 0.22), 8, 60)]


def explore(chk, pid, n, n_multi=0, do_model=True):
    rng = chk.rng
    cases = []
    for cnt, nmax, tmax in sizes(chk.tier, n):
        cases += [gen_single(pid, rng, nmax, tmax, directed=not do_model) for _ in range(cnt)]
    results = []
    for c in cases:
        impl, cov = check_single(chk, pid, c)
        results.append((c, impl, cov))
    ok = [(c, impl, cov) for c, impl, cov in results if impl is not None]      # cases with cost functions: cost read-out of Sim/CostFn.v
    models = [None] * len(ok)
    if do_model and ok and ensure_model(chk):
        try:
            models = simlib.run_model([(c, impl['struct']) for c, impl, _ in ok], name=pid.lower(), shard=(20 if chk.tier == 'quick' else 12))
        except Exception as e:
            chk.broken.append(('model-evaluation', str(e)[-600:]))
        if pid == 'C06':      # random demand / Markov disruptions: the realisations of the implementation run are the model's inputs
            sub = [(c, impl) for c, impl, _ in ok if c.get('aux')][:max(20, len(ok) // 4)]
            try:
                rr = [run_random(c, c['aux']['rs']) for c, _ in sub]
                rc = [realised_case(c, a) for (c, _), a in zip(sub, rr)]
                rm = simlib.run_model([(c2, a['struct']) for c2, a in zip(rc, rr)], name='c06r', shard=20)
                for c2, a, m in zip(rc, rr, rm):
                    chk.traces += 1; chk.count('stream=random-demand-realisations')
                    d = simlib.compare(a, m)
                    if d: chk.mismatch('random-demand run (realisations fed to the model): %d field(s) differ, first (period, node, field, impl, model) = %s' % (len(d), jsonable(d[:3])), c2)
            except Exception as e:
                chk.broken.append(('model-evaluation-random', str(e)[-600:]))
    for (c, impl, cov), m in zip(ok, models):
        if m is not None:
            chk.traces += 1
            d = simlib.compare(impl, m, fields=FIELDS[pid])
            if d:
                chk.mismatch('%d observable(s) of %s differ, first (period, node, field, implementation, model) = %s' % (len(d), pid, jsonable(d[:4])), c)
                if pid == 'C06':
                    # C06 IS the statement that the trajectory equals the documented-sequence reference (Sim/Model.v): the case is a failing input,
                    # replayable with --replay (which re-evaluates the reference for this case)
                    c2 = dict(c); c2['reference'] = True
                    _fail(chk, 'sequence-of-events|trajectory-differs-from-reference|%s' % str(d[0][2]).split('[')[0], 'period %s node %s: %s is %s in the implementation but %s in the documented-sequence reference (Sim/Model.v); %d field(s) differ'
                          % (d[0][0], d[0][1], d[0][2], jsonable(d[0][3]), jsonable(d[0][4]), len(d)), c2)
    for c, impl, cov in results:
        chk.count('kind=%s' % c['kind']); chk.count('nodes=%d' % len(c['ids'])); chk.count('malformed=%s' % c['malformed'])
        chk.count('horizon=%s' % ('<=12' if c['T'] <= 12 else '<=30' if c['T'] <= 30 else '<=60'))
        for v in c['nodes'].values():
            chk.count('policy=%s' % v['pol'][0]); chk.count('disruption=%s' % (v['dis'][0] if v['dis'] else None))
            chk.count('in_transit_rate=%s' % ('None' if v['ith'] is None else '0' if v['ith'] == 0 else '>0'))
            if pid == 'C05': chk.count('cost_functions=%s' % ('+'.join(f for f in ('hf', 'pf') if v.get(f)) or 'none'))
            lv = v.get('lvl') or {}
            chk.count('product=%s' % ('explicit' if v.get('prod') is not None else 'dummy'))
            chk.count('lead_times_given_on=%s' % ('+'.join(sorted({lv.get('slt', 'node'), lv.get('olt', 'node')}))))
            if lv: chk.count('attributes_on_product_or_(node,product)=%d' % len(lv))
            np_ = sum(1 for a, b in c['edges'] if c['nodes'][b] is v)
            if v.get('prod') is not None and np_:
                chk.count('suppliers=%s' % ('+'.join(x for x, y in (('explicit-BOM', bool(v.get('bom'))), ('network-implied', len(v.get('bom') or []) < np_), ('external', bool(v.get('ext')))) if y)))
        for x in cov: chk.count('branch:' + x)
        nt = impl is not None and not c['malformed'] and 'BO>0' in cov and 'pipeline>0' in cov and any(x in cov for x in SPECIFIC[pid])
        chk.case(c, nt, simlib.case_key(c))
    if pid in ('C01', 'C03') and do_model:
        # step-by-step operation with order_quantity_override (the documented way to drive the simulator from outside): the orders are then
        # NOT the policy's, but conservation, non-negativity, lead times and on-order exactness must hold all the same (monitors only)
        for j in range(30 if chk.tier == 'quick' else 300):
            c = gen_single(pid, rng, 5, 12, directed=True); c['mode'] = 'override'
            c['overrides'] = {str(t): {str(i): rng.choice([0, 1, 2, 5, 9]) for i in rng.sample(c['ids'], rng.randint(1, len(c['ids'])))} for t in range(c['T']) if rng.random() < 0.5}
            check_override(chk, pid, c)
            chk.count('stream=order_quantity_override'); chk.case(c, bool(c['overrides']))
    lifecycle_stream(chk, pid, (LIFE_N[0] if chk.tier == 'quick' else LIFE_N[1]) * (1 if do_model else 3))
    if pid == 'C06': reindex_stream(chk, (15 if chk.tier == 'quick' else 150) * (1 if do_model else 3))
    if n_multi and pid in MULTI_PROPS:
        nm = 0; m2items = []
        for j in range(n_multi):
            big = chk.tier != 'quick' and j % 3 == 0
            c = gen_multi(rng, nmax=(8 if big else 5), tmax=(30 if big else 12)); c['mode'] = 'multi'
            c = multi_from_json(json.loads(json.dumps(jsonable(c))))       # what a replay will see
            impl, cov = check_multi(chk, pid, c)
            if impl is not None and do_model: m2items.append((c, impl))
            chk.count('multi:kind=%s' % c['kind']); chk.count('multi:two-suppliers-of-one-raw-material=%s' % c['twins']); chk.count('multi:unused-product=%s' % c['unused']); chk.count('multi:bom-numbers-reset-after-build=%s' % bool(c.get('rebom')))
            chk.count('multi:mixed-suppliers(explicit-BOM/network-implied/external)=%s' % bool(c.get('mixed')))
            chk.count('multi:lead-times-on-products=%s' % any(v.get('lt_where') == 'product' for v in c['nodes'].values()))
            chk.count('multi:revenue=%s' % any(v.get('rev') for v in c['prods'].values()))
            for x in cov: chk.count('multi:branch:' + x)
            chk.case(c, impl is not None and 'BO>0' in cov and 'pipeline>0' in cov)
            nm += 1
        if m2items: model2_stream(chk, pid, m2items)
        chk.extra['multi_product_cases'] = chk.extra.get('multi_product_cases', 0) + nm
        chk.extra['multi_product_note'] = ('multi-product networks with bills of materials: monitors (relative tolerance 1e-9) + correspondence with the Stage-2 Gallina model '
                                           'coq/Sim2/Model2.v on every field of every period (1e-9; runs decided by a rounding error exactly on a threshold are skipped and counted)')
        if pid == 'C01':
            for sig, c in multi_defect_probes():
                c['mode'] = 'probe'; c['sig'] = sig
                c = multi_from_json(json.loads(json.dumps(jsonable(c))))
                check_probe(chk, sig, c); chk.count('multi:probe'); chk.case(c, False)


def run_property(chk, pid, n_quick=200, n_thorough=2000, m_quick=40, m_thorough=400, extra=None):
    chk.rule = ('single-product networks from simlib.gen_case (1-%d nodes; single/serial/assembly/distribution/DAG; random node ids; SLT 0-3, OLT 0-2(3); demand lists '
                'with values 0..13 at sinks and 25%% of inner nodes; policy mix; capacity 30%%; explicit initial level 50%%; initial orders/shipments; one disruption type per '
                'node with 40%% disrupted periods; horizons to %d). %s. non-trivial = some backorder > 0 and some shipment pipeline > 0 and one of the branches %s is hit; '
                'distinct = distinct (edges, horizon, node data).%s'
                % (6 if chk.tier == 'quick' else 8, 20 if chk.tier == 'quick' else 60, RULES[pid], SPECIFIC[pid],
                   (' Stage 2 (ORACLE ONLY, not covered by the Coq model or the theorems): %d multi-product networks (2-3 levels, 1-3 products per node, BOM numbers 1..3, shared raw '
                    'materials, twin suppliers) checked with the per-(node,product)/(edge,raw material) monitors at relative tolerance 1e-9.' % (m_quick if chk.tier == 'quick' else m_thorough))
                   if pid in MULTI_PROPS else ''))
    chk.rule += LIFE_RULE % (LIFE_N[0] if chk.tier == 'quick' else LIFE_N[1],
                             'Attribute edits drawn twice as often from %s.%s' % (sorted(set(LIFE_ATTRS[pid])) or 'the whole list', ' Echelon base-stock policies at half of the nodes and in the added nodes, 45% topology edits.' if pid == 'C04' else ''))
    chk.trusted += ['model Sim/Model.v is hand-written; tied to /repo by exact comparison of the observables of %s (%s) on every generated single-product case'
                    % (pid, 'every extracted field' if FIELDS[pid] is None else ', '.join(FIELDS[pid])),
                    'property monitors py/simmon.py (independent re-computation from the public state variables in exact rationals)']
    chk.assume += ['Stage 1 (single-product networks, coq/Sim) is compared exactly; Stage 2 (multi-product networks with bills of materials, coq/Sim2) at 1e-9 with threshold ties skipped; echelon policies, cost functions and order_quantity_override in multi-product networks are covered by the monitors alone',
                   'floating-point rounding is not modelled: generated quantities are integers and rates are multiples of 1/4, so every float operation of the implementation is exact '
                   '(fill rate: correctly rounded quotient compared as binary64)']
    chk.proof()
    n, m = (n_quick, m_quick) if chk.tier == 'quick' else (n_thorough, m_thorough)
    explore(chk, pid, n, n_multi=m)
    if extra: extra(chk, 1)
    if (chk.broken or chk.mismatches) and not chk.fails:
        # directed search for a failing input of the property on the implementation: 10x budget, oracle only
        explore(chk, pid, (10 * n if chk.tier == 'quick' else 2 * n), n_multi=0, do_model=False)
        if extra and not chk.fails: extra(chk, 10)


def replay_property(chk, pid, rp, extra_replay=None):
    c = rp['case']; mode = c.get('mode', 'single')
    if mode == 'single':
        c = simlib.case_from_json(c)
        impl, cov = check_single(chk, pid, c)
        print('branches:', sorted(cov))
        if c.get('reference') and impl is not None and ensure_model(chk):
            m = simlib.run_model([(c, impl['struct'])], name=pid.lower() + 'rp', shard=1)[0]
            d = simlib.compare(impl, m, fields=FIELDS[pid])
            if d:
                _fail(chk, 'sequence-of-events|trajectory-differs-from-reference|%s' % str(d[0][2]).split('[')[0], 'period %s node %s: %s is %s in the implementation but %s in the documented-sequence reference; %d field(s) differ'
                      % (d[0][0], d[0][1], d[0][2], jsonable(d[0][3]), jsonable(d[0][4]), len(d)), c)
    elif mode == 'override':
        check_override(chk, pid, simlib.case_from_json(c))
    elif mode == 'lifecycle':
        check_lifecycle(chk, pid, lifecycle_from_json(c))
    elif mode == 'reindex':
        check_reindex(chk, simlib.case_from_json(c))
    elif mode == 'multi':
        check_multi(chk, pid, multi_from_json(c))
    elif mode == 'probe':
        check_probe(chk, c['sig'], multi_from_json(c))
    elif extra_replay:
        extra_replay(chk, c)
    chk.case(c)
    for sig, what, _ in chk.fails[:5]: print('FAIL', sig, '-', what)
