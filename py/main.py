import argparse, importlib, os, sys, json, traceback
sys.path.insert(0, os.path.dirname(__file__))
import vlib

def main():
    ap = argparse.ArgumentParser()
    ap.add_argument('pid')
    ap.add_argument('--tier', default=os.environ.get('VERIF_TIER', 'quick'), choices=['quick', 'thorough'])
    ap.add_argument('--replay', default=None)
    ap.add_argument('--seed', type=int, default=None)
    a = ap.parse_args()
    pid = a.pid.upper()
    mod = importlib.import_module('props.' + pid.lower())
    chk = vlib.Check(pid, a.tier, a.seed)
    try:
        if a.replay:
            rp = json.load(open(a.replay))
            chk.is_replay = True      # a replay describes one case: it must not overwrite the evidence of the last full run
            chk.proof()
            mod.replay(chk, rp)
        else:
            mod.run(chk)
    except Exception as e:      # a crash of the harness itself must not look like a pass
        traceback.print_exc()
        chk.broken.append(('harness-error', '%s: %s' % (type(e).__name__, e)))
    sys.exit(chk.finish())

main()
