"""C02 — Backorders, inventory level and service measures stay mutually consistent: correspondence of Sim/Model.v with stockpyl.sim on the observables of C02 + monitors (py/simmon.py) on the implementation's state variables."""
from vlib import *
import simmon

PID = 'C02'


def run(chk):
    simmon.run_property(chk, PID)


def replay(chk, rp):
    simmon.replay_property(chk, PID, rp)
