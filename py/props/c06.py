"""C06 — Simulation follows the documented sequence of events and is reproducible: correspondence of Sim/Model.v with stockpyl.sim on the observables of C06 + monitors (py/simmon.py) on the implementation's state variables."""
from vlib import *
import simmon

PID = 'C06'


def run(chk):
    simmon.run_property(chk, PID, n_thorough=1500)


def replay(chk, rp):
    simmon.replay_property(chk, PID, rp)
