"""C15 / C07 bridge -- serial systems: the EXPECTED period cost of the simulated serial system vs the SSM expected cost.

EXACT enumeration on the implementation (no sampling): for an i.i.d. sink demand with a small integer support, a 2-3 stage serial system under
local base-stock levels and short shipment lead times, every demand sequence of length T = L_1+..+L_N + 1 is simulated with stockpyl
(deterministic demand list), weighted by its probability, and the expected total cost of the last period t = T-1 (the first period at which the
theorem C15_serial_expected_cost_* applies) is compared
  (a) with stockpyl.ssm_serial.expected_cost at the echelon levels (echelon holding rates h_j - h_{j+1}, custom-discrete demand source),
  (b) with an independent top-down enumeration over independent lead-time demands written here (exact Fractions),
  (c) with the two sides of the Coq statement evaluated by vm_compute: the simulator MODEL's expectation (expect_list ... serial_period_cost,
      only for small cases) and the right-hand side SSM.topdown on the convolved tables.
Entry point: serial_expectation_stream(chk, n).  Stand-alone: python c15_serialexp.py [n] [seed].

Integration: with the Coq files in /verif/coq/Sim (module names below) the model side goes through vlib.coq_eval; as long as they only exist in
/verif/build/wip/serialexp the model side is evaluated with `-Q <that dir> WIP` (nothing is built or written under /verif/coq)."""
import itertools, os, re, sys, time
from fractions import Fraction

sys.path.insert(0, '/verif/py')
from vlib import *            # noqa
import vlib
import simlib

WIPDIR = os.path.dirname(os.path.abspath(__file__))
SV_MODS = 'Base.Qx Alg.Gen Sim.Model Sim.Serial Sim.CS Sim.NVExpect Sim.SerialExp'
MAX_MODEL_SEQS = 300          # the model's expectation (every sequence through the simulator model under vm_compute) only up to this many sequences


def _integrated():
    return os.path.exists(os.path.join(vlib.COQ, 'Sim', 'SerialExp.vo'))


def model_eval(name, exprs, timeout=900):
    """vm_compute the expressions against the Coq development (integrated: vlib.coq_eval; otherwise the WIP directory, read-only on /verif/coq)"""
    if not exprs: return []
    if _integrated():
        return coq_eval_sharded(name, SV_MODS, 'From SV Require Alg.SSM.', exprs, shard=4)
    d = os.path.join(vlib.BUILD, 'eval'); os.makedirs(d, exist_ok=True)
    out_vals = []
    for k in range(0, len(exprs), 4):
        base = re.sub(r'[^A-Za-z0-9_]', '_', '%s_%d_%d_%d' % (name, os.getpid(), k, int(time.time() * 1000) % 100000000))
        path = os.path.join(d, base + '.v')
        with open(path, 'w') as f:
            f.write('From SV Require Import Base.Qx Alg.Gen Sim.Model Sim.Serial Sim.CS Sim.NVExpect.\nFrom SV Require Alg.SSM.\nFrom WIP Require Import SerialExp.\n')
            f.write('Set Printing Width 100000000.\nSet Printing Depth 100000000.\nOpen Scope Q_scope.\n')
            for e in exprs[k:k + 4]: f.write('Eval vm_compute in (%s).\n' % e)
        rc, out, _ = vlib._run(['bash', '-c', 'ulimit -s unlimited 2>/dev/null; exec timeout %d coqc -Q %s SV -Q %s WIP %s' % (timeout, vlib.COQ, WIPDIR, path)],
                               cwd=d, timeout=timeout + 30)
        for ext in ('.v', '.vo', '.glob', '.vok', '.vos', '.aux'):
            for pth in (os.path.join(d, base + ext), os.path.join(d, '.' + base + ext)):
                try: os.remove(pth)
                except OSError: pass
        if rc != 0: raise RuntimeError('model evaluation failed (rc %d): %s' % (rc, out[-1500:]))
        vals = []
        for chunk in re.split(r'(?m)^\s*= ', out)[1:]:
            vals.append(vlib._parse(re.split(r'(?m)^\s*: ', chunk)[0]))
        if len(vals) != len(exprs[k:k + 4]): raise RuntimeError('model evaluation: %d results for %d expressions: %s' % (len(vals), len(exprs[k:k + 4]), out[-800:]))
        out_vals.extend(vals)
    return out_vals


def gen_case(rng):
    """chain = node ids upstream -> downstream (arbitrary distinct labels); L, Sloc, he by position in the chain"""
    N = rng.choice([2, 2, 3])
    m = rng.choice([2, 3]); off = rng.choice([0, 0, 1, 2])
    while True:
        L = [rng.choice([0, 1, 1, 1, 2, 2]) for _ in range(N)]
        if 1 <= sum(L) <= (4 if m == 2 else 3): break
    tot = 8 if m == 2 else 16
    w = [rng.randint(1, 5) for _ in range(m)]
    w = [max(1, round(x * tot / sum(w))) for x in w]; w[-1] += tot - sum(w)
    if min(w) < 1: w = [tot // m] * m; w[-1] += tot - sum(w)
    pm = [Fraction(x, tot) for x in w]
    gap = rng.choice([1, 1, 2])                 # atoms off, off+gap, ... (zero-probability points in between)
    vals = [off + gap * i for i in range(m)]
    mean = sum(v * q for v, q in zip(vals, pm))
    ids = rng.sample(range(1, 12), N)            # chain upstream -> downstream
    Sloc = []
    for k in range(N):
        base = float(mean) * max(L[k], 0.5)
        Sloc.append(max(0, int(round(base + rng.choice([-2, -1, 0, 0, 1, 2])))))
    Sloc[-1] = max(1, Sloc[-1])                   # the sink's level >= 1: every echelon level >= 1 (expected_cost refuses a level 0)
    he = [Fraction(rng.randint(1, 8), 4) for _ in range(N)]           # echelon holding rates (position k)
    p = Fraction(rng.randint(4, 80), 4)
    T = sum(L) + 1
    return dict(stream='serial-expectation', N=N, chain=ids, L=L, Sloc=Sloc, he=he, p=p, vals=vals, pm=pm, T=T, t=T - 1)


def local_h(c):
    """local holding rate of position k = sum of the echelon rates from the head down to k"""
    out = []; acc = Fraction(0)
    for x in c['he']: acc += x; out.append(acc)
    return out


def sim_expectation(c):
    """E[total cost of period t] over all demand sequences, every one simulated by stockpyl; returns (expectation, node order of the network)"""
    ids = c['chain']; N = c['N']; hl = local_h(c)
    exp = Fraction(0); order = None
    for seq in itertools.product(range(len(c['vals'])), repeat=c['T']):
        pr = Fraction(1)
        for j in seq: pr *= c['pm'][j]
        nodes = {}
        for k, i in enumerate(ids):
            nodes[i] = dict(slt=c['L'][k], olt=0, pol=['BS', c['Sloc'][k]], cap=None, init_il=None, h=hl[k], p=(c['p'] if k == N - 1 else Fraction(0)), ith=None,
                            rev=Fraction(0), demand=([c['vals'][j] for j in seq] if k == N - 1 else None), dis=None, init_orders=0, init_ships=0)
        r = simlib.run_impl(dict(kind='serial', ids=list(ids), edges=[[ids[k], ids[k + 1]] for k in range(N - 1)], T=c['T'], nodes=nodes))
        if 'error' in r: raise RuntimeError(r['error'])
        order = r['struct']['order']
        exp += pr * sum(r['recs'][c['t']][i]['TC'] for i in ids)
    return exp, order


def conv_pmf(c, L):
    d = {0: Fraction(1)}
    for _ in range(L):
        n = {}
        for a, pa in d.items():
            for v, q in zip(c['vals'], c['pm']): n[a + v] = n.get(a + v, 0) + pa * q
        d = n
    return d


def topdown_exact(c):
    """sum_j h^e_j E[IL^e_j] + (p + sum h^e) E[(IL^e_1)^-], IL^e_j = min(S_j, IL^e_{j+1}) - D_j, independent lead-time demands, head first"""
    N = c['N']; Se = [sum(c['Sloc'][k:]) for k in range(N)]; H = sum(c['he'])
    def rec(k, up):
        if k == N: return (c['p'] + H) * max(0, -up)
        ip = Se[k] if up is None else min(Se[k], up)
        return sum(q * (c['he'][k] * (ip - d) + rec(k + 1, ip - d)) for d, q in conv_pmf(c, c['L'][k]).items())
    return rec(0, None)


def ssm_expected_cost(c):
    from stockpyl.demand_source import DemandSource
    from stockpyl.ssm_serial import expected_cost
    N = c['N']
    ds = DemandSource(type='CD', demand_list=list(c['vals']), probabilities=[float(x) for x in c['pm']])
    # ssm index j = 1 (downstream) .. N (upstream): position k = N - j
    return float(expected_cost({j: sum(c['Sloc'][N - j:]) for j in range(1, N + 1)}, num_nodes=N,
                               echelon_holding_cost={j: float(c['he'][N - j]) for j in range(1, N + 1)},
                               lead_time={j: c['L'][N - j] for j in range(1, N + 1)}, stockout_cost=float(c['p']), demand_source=ds))


def coq_exprs(c, order):
    """(model expectation of the period cost, right-hand side SSM.topdown) for the case; pm as a dense list on off, off+1, ..."""
    off = c['vals'][0]; dense = [Fraction(0)] * (c['vals'][-1] - off + 1)
    for v, q in zip(c['vals'], c['pm']): dense[v - off] = q
    ids = c['chain']; hl = local_h(c); N = c['N']
    def fn(pairs, dflt):
        s = cq(dflt)
        for i, v in reversed(pairs): s = '(if N.eqb n %d then %s else %s)' % (i, cq(v), s)
        return '(fun n : N => %s)' % s
    h = fn(list(zip(ids, hl)), 0); p = fn([(ids[-1], c['p'])], 0)
    zs = '[' + '; '.join('(%d%%N, %s, %s)' % (i, cz(c['Sloc'][k]), cnat(c['L'][k])) for k, i in enumerate(ids)) + ']'
    ordr = '[' + '; '.join('%d%%N' % i for i in order) + ']'
    rhs = ('qobs (SSM.topdown %s (qsum (map SSM.sg_h (ssm_stages_of %s %s %s %s))) (List.rev (combine (ssm_stages_of %s %s %s %s) (ssm_levels_of %s %s))) None)'
           % (cq(c['p']), cnat(off), cqlist(dense), h, zs, cnat(off), cqlist(dense), h, zs, h, zs))
    lhs = ('qobs (expect_list %s %s %s (serial_period_cost %s %s %s (map zsim_stage %s) %s))'
           % (cnat(c['T']), cnat(off), cqlist(dense), h, p, ordr, zs, cnat(c['t'])))
    return lhs, rhs, len(dense) ** c['T']


def describe(c):
    return ('serial chain %s (upstream -> downstream), lead times %s, local levels %s (echelon %s), echelon holding rates %s (local %s), p=%s at the sink, '
            'demand %s w.p. %s' % (c['chain'], c['L'], c['Sloc'], [sum(c['Sloc'][k:]) for k in range(c['N'])], [str(x) for x in c['he']],
                                   [str(x) for x in local_h(c)], c['p'], c['vals'], [str(x) for x in c['pm']]))


def serial_expectation_stream(chk, n):
    rng = chk.rng
    cases = [gen_case(rng) for _ in range(n)]
    impl = []
    for c in cases:
        try:
            exp, order = sim_expectation(c)
            # ssm_serial refuses a lead time 0 (`not all(lead_time_dict.values())` -> "lead_time cannot be None for any node"; accepting it would be right
            # for discrete demand but the module mishandles normal demand with a zero lead time, so the library keeps rejecting it: observation in DESIGN 11.8):
            # the SSM entry point is then not called; the simulated expectation is still compared with the exact enumeration and with the Coq statement
            an = ssm_expected_cost(c) if all(c['L']) else None
            impl.append((exp, order, an, None))
        except Exception as e:
            impl.append((None, None, None, e))
    exprs = []; slots = []
    for c, (exp, order, an, err) in zip(cases, impl):
        if err is not None: slots.append(None); continue
        lhs, rhs, nseq = coq_exprs(c, order)
        if nseq <= MAX_MODEL_SEQS: slots.append((len(exprs), len(exprs) + 1)); exprs += [lhs, rhs]
        else: slots.append((None, len(exprs))); exprs += [rhs]
    vals = None
    try: vals = model_eval('c15serialexp', exprs)
    except Exception as e: chk.broken.append(('model-evaluation-serial-expectation', str(e)[-600:]))
    for c, (exp, order, an, err), sl in zip(cases, impl, slots):
        if err is not None:
            chk.fail('simulation|serial|expected-cost-vs-ssm|raises-%s' % exc_kind(err), '%s: %s; %s' % (type(err).__name__, str(err)[:200], describe(c)), c); chk.case(c, False); continue
        td = topdown_exact(c)
        if exp != td:
            chk.fail('simulation|serial|expected-cost-vs-ssm', '%s: expected total cost of period %d over all %d demand sequences (implementation runs) = %s (%r), '
                     'exact expected cost of the echelon levels (independent lead-time demands) = %s (%r)' % (describe(c), c['t'], len(c['vals']) ** c['T'], exp, float(exp), td, float(td)), c)
        if an is None: chk.count('serial-expectation:ssm-entry-point-skipped(lead-time-0)')
        elif not close(F(an), td):
            chk.fail('ssm_serial.expected_cost|serial|expected-cost-vs-enumeration', '%s: expected_cost returns %r, exact expected cost of the echelon levels = %s (%r); simulated expectation %r'
                     % (describe(c), an, td, float(td), float(exp)), c)
        if vals is not None:
            chk.traces += 1
            rhs = qv(vals[sl[1]])
            if rhs != td: chk.mismatch('SSM.topdown on the convolved tables %s vs exact top-down enumeration %s' % (rhs, td), c)
            if rhs != exp: chk.mismatch('right-hand side of C15_serial_expected_cost_topdown %s vs expectation over the implementation runs %s' % (rhs, exp), c)
            if sl[0] is not None:
                lhs = qv(vals[sl[0]])
                if lhs != exp: chk.mismatch('expectation over all demand sequences: simulator model %s vs implementation runs %s' % (lhs, exp), c)
                chk.count('serial-expectation:model-side-evaluated')
        chk.count('serial-expectation:N=%d' % c['N']); chk.count('serial-expectation:sumL=%d' % sum(c['L'])); chk.count('serial-expectation:support=%d' % len(c['vals']))
        if 0 in c['L']: chk.count('serial-expectation:some-lead-time-0')
        # non-trivial: some upstream stage is short with positive probability (the min of the recursion is attained on both sides)
        nontriv = any(sum(c['Sloc'][k:]) - max(conv_pmf(c, c['L'][k])) < sum(c['Sloc'][k + 1:]) for k in range(c['N'] - 1))
        chk.case(c, nontriv, key=repr((c['chain'], c['L'], c['Sloc'], c['vals'])))


class _Stub:
    def __init__(self, seed):
        import random
        self.rng = random.Random(seed); self.fails = []; self.mismatches = []; self.broken = []; self.traces = 0; self.counts = {}; self.cases = 0; self.nontrivial = 0; self.extra = {}
    def fail(self, sig, what, case): self.fails.append((sig, what)); print('FAIL', sig, what)
    def mismatch(self, what, case): self.mismatches.append(what); print('MISMATCH', what, describe(case))
    def case(self, case, nontrivial, key=None): self.cases += 1; self.nontrivial += bool(nontrivial)
    def count(self, label): self.counts[label] = self.counts.get(label, 0) + 1


if __name__ == '__main__':
    import warnings
    warnings.simplefilter('ignore')
    n = int(sys.argv[1]) if len(sys.argv) > 1 else 8
    seed = int(sys.argv[2]) if len(sys.argv) > 2 else 20261001
    chk = _Stub(seed); t0 = time.time()
    serial_expectation_stream(chk, n)
    print('cases %d (non-trivial %d), traces %d, fails %d, mismatches %d, broken %r, %.1fs' % (chk.cases, chk.nontrivial, chk.traces, len(chk.fails), len(chk.mismatches), chk.broken, time.time() - t0))
    for k in sorted(chk.counts): print('  ', k, chk.counts[k])
    sys.exit(1 if (chk.fails or chk.mismatches or chk.broken) else 0)
