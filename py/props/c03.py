"""C03 — Orders and shipments arrive exactly one lead time later; on-order is exact: correspondence of Sim/Model.v with stockpyl.sim on the observables of C03 + monitors (py/simmon.py) on the implementation's state variables."""
from vlib import *
import simmon

PID = 'C03'


def run(chk):
    simmon.run_property(chk, PID)


def replay(chk, rp):
    simmon.replay_property(chk, PID, rp)
