"""C03 — Orders and shipments arrive exactly one lead time later; on-order is exact: correspondence of Sim/Model.v with stockpyl.sim on the observables of C03 + monitors (py/simmon.py) on the implementation's state variables
+ the reference delay line of C03_shipment_refinement (Sim/ShipDelay.v dl_trace) evaluated in Coq on the shipments and pause flags the
implementation recorded, against the receipts / held items / pipelines the implementation recorded."""
from fractions import Fraction
from vlib import *
import simlib, simmon

PID = 'C03'


def delay_line_stream(chk, mult):
    """per edge of generated networks: dl_trace L init [(transit paused, receipt paused, sent)_t] (Coq) vs the implementation's (IS, IDI, pipeline)_t"""
    if mult != 1 or not simmon.ensure_model(chk): return
    ok, log = coq_make(['Sim/ShipDelay.vo'])
    if not ok:
        chk.broken.append(('Sim/ShipDelay.vo', log[-600:])); return
    n = 40 if chk.tier == 'quick' else 300
    exprs = []; meta = []
    for _ in range(n):
        c = simmon.gen_single(PID, chk.rng, 5, 12, directed=True)
        try: impl = simlib.run_impl(c)
        except Exception: continue       # reported by the main stream
        spec = simmon.spec_single(c, impl['struct']); G = simmon.g_single(impl['recs']); I = simmon.init_record(spec); T = c['T']
        for (nn, p, r) in simmon.edges_of(spec):
            s = spec['nodes'][nn]; L = s['slt'] + (s['olt'] if p is None else 0)
            sent = [(G[t][nn]['supp'][(None, r)]['OQ'] if p is None else G[t][p]['cust'][(nn, r)]['OS']) for t in range(T)]
            ins = clist(['(%s, %s, %s)' % (cbool(simmon.dis_at(spec, nn, t, 'TP')), cbool(simmon.dis_at(spec, nn, t, 'RP')), cq(sent[t])) for t in range(T)])
            exprs.append('map (fun x => [[qobs (snd x)]; [qobs (d_held (fst x))]; map qobs (d_pipe (fst x))]) (dl_trace %s {| d_pipe := %s; d_held := 0 |} %s)'
                         % (cnat(L), cqlist(I[nn]['supp'][(p, r)]['SP']), ins))
            meta.append((c, nn, p, r, L, [(G[t][nn]['supp'][(p, r)]['IS'], G[t][nn]['supp'][(p, r)]['IDI'], list(G[t][nn]['supp'][(p, r)]['SP'])) for t in range(T)],
                         any(simmon.dis_at(spec, nn, t, k) for t in range(T) for k in ('TP', 'RP'))))
    try:
        vals = coq_eval_sharded('c03dl', 'Sim.Model Sim.ShipDelay', '', exprs, shard=60)
    except Exception as e:
        chk.broken.append(('model-evaluation-delay-line', str(e)[-500:])); return
    for v, (c, nn, p, r, L, rec, paused) in zip(vals, meta):
        chk.traces += 1; chk.count('delay-line:L=%d' % L); chk.count('delay-line:paused=%s' % paused); chk.count('delay-line:external=%s' % (p is None))
        mod = [(qv(x[0][0]), qv(x[1][0]), [qv(y) for y in x[2]]) for x in v]
        if mod != rec:
            t = next(i for i, (a, b) in enumerate(zip(mod, rec)) if a != b)
            chk.mismatch('edge %s->%s (lead time %d): reference delay line of Sim/ShipDelay.v fed with the recorded shipments gives (receipt, held, pipeline) = %s in period %d, the implementation recorded %s'
                         % (p, nn, L, jsonable(mod[t]), t, jsonable(rec[t])), c)
    chk.extra['delay_line_edges'] = len(meta)


def run(chk):
    simmon.run_property(chk, PID, extra=delay_line_stream)


def replay(chk, rp):
    simmon.replay_property(chk, PID, rp)
