"""C13/C14 -- tie of the GENERATED terms of stockpyl.rq / stockpyl.ss (gen/Gen_rq.v, gen/Gen_ss.v, written by py2v.py from the
current source) to the running Python functions: every case runs the Python function, records the library calls it makes
(norm.ppf/cdf/pdf through c10_tie.Recorder, float `**` through the AST-instrumented twin module), evaluates the generated
Gallina term at FOps (binary64, vm_compute) on the same inputs with the recorded oracle values and compares BIT FOR BIT.

    gen_tie_stream(chk, n)      n cases per function (valid stream + malformed stream), reports with chk.mismatch / chk.count
    python c14_gen.py [n] [seed]  stand-alone run with a printing stub instead of vlib.Check

Functions tied: rq.r_q_eoqss_approximation, ss.s_s_power_approximation (loop-free: option), rq.r_q_optimal_r_for_q,
rq.r_q_eoqb_approximation (while loop -> fuelled Fixpoint: option (option _); `None` = out of fuel is reported as a mismatch,
FUEL is far above the <= ~60 halvings a binary64 bisection can make before the midpoint stops moving).
Not compared (counted as skipped): inputs on which Python raises something else than ValueError (ZeroDivisionError at
demand_mean = 0 / demand_sd = 0 in the power approximation: not modelled by the translator), inputs on which libm's pow(x, 2)
is not correctly rounded (the term uses x*x), runs of the Python loop that exceed the watchdog (tol too small to be reached).
While this file lives in build/wip/gentie it uses the translator copy next to it and compiles gen/ under the logical root WIP;
once copied to py/props (with py2v.py replaced and Gen_rq.v / Gen_ss.v in coq/gen) it uses the standard paths."""
import os, sys, math, random, signal, time, re

HERE = os.path.dirname(os.path.abspath(__file__))
WIP = os.path.basename(HERE) != 'props'
if WIP:
    for p in ('/verif/py/props', '/verif/py', HERE):          # HERE first: `import py2v` must find the extended copy
        if p in sys.path: sys.path.remove(p)
        sys.path.insert(0, p)
from vlib import *
import vlib
import py2v
if WIP:
    import c10_tie
else:
    from props import c10_tie

class _Timeout(BaseException):
    pass


FUEL = 400
LOOPFREE = ['rq.r_q_eoqss_approximation', 'ss.s_s_power_approximation']
LOOPY = ['rq.r_q_optimal_r_for_q', 'rq.r_q_eoqb_approximation']
WATCHDOG_S = 5

for _m in ('rq', 'ss'):
    if _m not in c10_tie.Recorder.MODS: c10_tie.Recorder.MODS = c10_tie.Recorder.MODS + [_m]


# ---------------------------------------------------------------------------------------------- evaluation under WIP
def _wip_header(imports):
    sv, wip = [], []
    for m in imports.replace(',', ' ').split():
        path = os.path.join(vlib.COQ, *m.split('.')) + '.v'
        (sv if os.path.exists(path) else wip).append(m)
    h = 'From SV Require Import %s.\n' % ' '.join(sv)
    if wip: h += 'From WIP Require Import %s.\n' % ' '.join(wip)
    return h


def _wip_build(force=False):
    """compile gen/Gen_rq.v, gen/Gen_ss.v (logical root WIP) when missing or older than their source"""
    for m in ('rq', 'ss'):
        v = os.path.join(HERE, 'gen', 'Gen_%s.v' % m); vo = v + 'o'
        deps = [v] + [os.path.join(vlib.COQ, 'gen', 'Gen_%s.vo' % d) for d in ('eoq', 'newsvendor', 'loss_functions')] + [os.path.join(vlib.COQ, 'Base', 'Ops.vo')]
        if force or not os.path.exists(vo) or any(os.path.getmtime(d) > os.path.getmtime(vo) for d in deps if os.path.exists(d)):
            rc, out, _ = vlib._run(['bash', '-c', 'exec timeout 300 coqc -Q %s SV -Q %s WIP %s' % (vlib.COQ, HERE, v)], cwd=os.path.join(HERE, 'gen'), timeout=330)
            if rc != 0: raise RuntimeError('cannot compile %s: %s' % (v, out[-1500:]))


def _wip_eval(name, imports, defs, exprs, timeout=900):
    d = os.path.join(HERE, 'eval'); os.makedirs(d, exist_ok=True)
    base = re.sub(r'[^A-Za-z0-9_]', '_', '%s_%d_%d' % (name, os.getpid(), int(time.time() * 1000) % 100000000))
    path = os.path.join(d, base + '.v')
    with open(path, 'w') as f:
        f.write(_wip_header(imports))
        f.write('Set Printing Width 100000000.\nSet Printing Depth 100000000.\nOpen Scope Q_scope.\n' + defs + '\n')
        for e in exprs: f.write('Eval vm_compute in (%s).\n' % e)
    rc, out, _ = vlib._run(['bash', '-c', 'ulimit -s unlimited 2>/dev/null; exec timeout %d coqc -Q %s SV -Q %s WIP %s' % (timeout, vlib.COQ, HERE, path)],
                           cwd=d, timeout=timeout + 30)
    for ext in ('.vo', '.glob', '.vok', '.vos', '.aux'):
        for pth in (os.path.join(d, base + ext), os.path.join(d, '.' + base + ext)):
            try: os.remove(pth)
            except OSError: pass
    if rc != 0:
        os.replace(path, os.path.join(d, 'FAILED_' + base + '.v'))
        raise RuntimeError('coq_eval %s failed (rc %d): %s' % (name, rc, out[-2000:]))
    os.remove(path)
    vals = [vlib._parse(re.split(r'(?m)^\s*: ', chunk)[0]) for chunk in re.split(r'(?m)^\s*= ', out)[1:]]
    if len(vals) != len(exprs): raise RuntimeError('coq_eval %s: expected %d results, got %d' % (name, len(exprs), len(vals)))
    return vals


def _wip_eval_sharded(name, imports, defs, exprs, shard=250, jobs=2, timeout=900):
    from concurrent.futures import ThreadPoolExecutor
    shards = [exprs[i:i + shard] for i in range(0, len(exprs), shard)]
    if not shards: return []
    def go():
        with ThreadPoolExecutor(max_workers=jobs) as ex:
            futs = [ex.submit(_wip_eval, '%s_s%d' % (name, i), imports, defs, sh, timeout) for i, sh in enumerate(shards)]
            return [v for fu in futs for v in fu.result()]
    try:
        return go()
    except RuntimeError as e:
        if 'inconsistent assumptions' not in str(e): raise
        _wip_build(force=True)          # /verif/coq/gen/*.vo were rebuilt by someone else in the meantime
        return go()


if WIP:
    c10_tie.coq_eval_sharded = _wip_eval_sharded
_eval_sharded = _wip_eval_sharded if WIP else coq_eval_sharded


def prepare():
    """(re)translate; in WIP mode also compile the two generated files.  Returns the functions that are tied."""
    if not py2v.FUNCS: py2v.translate_all(write=True)
    missing = [q for q in LOOPFREE if q not in py2v.FUNCS] + [q for q in LOOPY if q not in py2v.LOOPY_FUNCS]
    if WIP: _wip_build()
    return missing


# ---------------------------------------------------------------------------------------------- generators
def _num(rng):
    k = rng.random()
    if k < 0.35: return float(rng.choice([1, 2, 5, 8, 10, 50, 100, 1300, 0.18, 0.7, 2.5, 0.225, 7.5, 150])) * rng.choice([1, 1, 1, 0.5, 3])
    if k < 0.7: return round(rng.uniform(0.05, 200), rng.choice([1, 2, 3]))
    return math.exp(rng.uniform(-3, 7))


def _bad(rng):
    return rng.choice([0.0, -0.0, -1.0, -rng.random() * 10, 0.0])


def _info(q):
    return py2v.FUNCS[q] if q in py2v.FUNCS else py2v.LOOPY_FUNCS[q]


def call_impl_loopy(q, args):
    """c10_tie.call_impl for a function of LOOPY_FUNCS (no float pow in them: no twin needed)"""
    import importlib, warnings
    info = _info(q)
    if {'pow_', 'powi'} & set(info['oracles']): raise RuntimeError('%s uses float pow: extend call_impl_loopy with the pow twin' % q)
    fn = getattr(importlib.import_module('stockpyl.' + info['module']), info['name'])
    rec = c10_tie.Recorder()
    with warnings.catch_warnings():
        warnings.simplefilter('ignore')
        with rec:
            try:
                r = fn(**args)
                out = ('ok', [float(x) for x in (list(r) if isinstance(r, tuple) else [r])])
            except ValueError as e:
                out = ('ValueError', str(e)[:120])
            except _Timeout:
                raise
            except Exception as e:
                out = ('other', exc_kind(e), str(e)[:120])
    return out, rec


def gen_args(q, rng, malformed):
    info = _info(q)
    names = [p['name'] for p in info['params']]
    a = {}
    for nm in names:
        if nm == 'tol': a[nm] = rng.choice([1e-6, 1e-6, 1e-6, 1e-3, 1e-4, 0.5])
        elif nm == 'lead_time': a[nm] = rng.choice([1.0, 2.0, 1 / 12, 0.5, 4.0, round(rng.uniform(0.1, 9), 2), rng.uniform(0.01, 20)])
        elif nm == 'demand_sd': a[nm] = None
        else: a[nm] = _num(rng)
    if 'demand_sd' in a:
        a['demand_sd'] = a['demand_mean'] * rng.choice([0.05, 0.1, 0.16, 0.25, 0.3, rng.uniform(0.02, 0.6)])
    if q in LOOPY:
        # keep the bisection well inside its watchdog: cost rates and the order quantity of comparable magnitude
        a['holding_cost'] = rng.choice([0.18, 0.225, 1.0, 2.0, round(rng.uniform(0.1, 5), 2)])
        a['stockout_cost'] = a['holding_cost'] * rng.choice([2, 5, 10, 33.3, rng.uniform(1.2, 40)])
        if 'order_quantity' in a: a['order_quantity'] = a['demand_mean'] * rng.choice([0.1, 0.25, 0.5, 1.0, rng.uniform(0.05, 2)])
    if malformed:
        # tol <= 0 makes the Python loop spin for ever once the guards pass: not generated (the watchdog is only a safety net)
        for nm in rng.sample([x for x in names if x != 'tol'], rng.choice([1, 1, 1, 2])):
            a[nm] = _bad(rng)
    return a


# ---------------------------------------------------------------------------------------------- fuelled functions
def _alarm(signum, frame):
    raise _Timeout('python loop exceeded %d s' % WATCHDOG_S)


def coq_call_loopy(q, args, rec, fuel=FUEL):
    info = _info(q)
    parts = [c10_tie.cfloat(args[p['name']]) for p in info['params']]
    ty = info['ret']
    n = len(ty[1]) if isinstance(ty, tuple) else 1
    if n == 1: obs = 'fun r => [fobs r]'
    else:
        names = ['r%d' % i for i in range(n)]
        obs = "fun r => let '(%s) := r in [%s]" % (', '.join(names), '; '.join('fobs %s' % x for x in names))
    return 'option_map (option_map (%s)) (Gen_%s.%s (FOps (FOracles %s)) %d %s)' % (obs, info['module'], info['coqname'], rec.coq_table(), fuel, ' '.join(parts))


def run_tie_loopy(chk, cases, tag='c14genloop'):
    todo = []
    for q, args in cases:
        signal.pthread_sigmask(signal.SIG_UNBLOCK, {signal.SIGALRM})       # a blocked mask may be inherited from the caller
        old = signal.signal(signal.SIGALRM, _alarm); signal.alarm(WATCHDOG_S)
        try:
            impl, rec = call_impl_loopy(q, args)
        except _Timeout:
            chk.count('tie_skipped_python_loop_watchdog'); continue
        finally:
            signal.alarm(0); signal.signal(signal.SIGALRM, old)
        if impl[0] == 'other':
            chk.count('tie_skipped_%s' % impl[1]); continue
        todo.append((q, args, impl, coq_call_loopy(q, args, rec), len(rec.tbl)))
    if not todo: return 0
    vals = _eval_sharded(tag, c10_tie.tie_imports([t[0] for t in todo]), c10_tie.TIE_DEFS, [t[3] for t in todo], shard=40)
    for (q, args, impl, _, ncalls), v in zip(todo, vals):
        chk.traces += 1
        chk.count('tie_' + q.split('.', 1)[1])
        chk.extra['gen_tie_oracle_calls'] = chk.extra.get('gen_tie_oracle_calls', 0) + ncalls
        case = dict(function=q, args=args)
        if v is None:
            chk.mismatch('translated %s ran out of fuel (%d) but the implementation returned %r' % (q, FUEL, impl), case); continue
        inner = v[1] if isinstance(v, tuple) and v[0] == 'Some' else v
        if impl[0] == 'ValueError':
            chk.count('tie_ValueError')
            if inner is not None:
                chk.mismatch('translated %s returns a value but the implementation raises ValueError(%s)' % (q, impl[1]), case)
            continue
        if inner is None:
            chk.mismatch('translated %s = Some None (ValueError) but the implementation returns %r' % (q, impl[1]), case); continue
        got = [c10_tie.fval(t) for t in (inner[1] if isinstance(inner, tuple) and inner[0] == 'Some' else inner)]
        if len(got) != len(impl[1]) or not all(c10_tie.same_bits(a, b) for a, b in zip(got, impl[1])):
            chk.mismatch('translated %s at FOps gives %s, implementation gives %s (not bit-identical)'
                         % (q, [x.hex() for x in got], [float(x).hex() for x in impl[1]]), case)
    return len(todo)


# ---------------------------------------------------------------------------------------------- entry point
def gen_tie_stream(chk, n):
    """n cases per tied function (about 1/4 of them malformed).  Returns the number of compared cases."""
    missing = prepare()
    for q in missing:
        chk.mismatch('the translator no longer translates %s: %s %s' % (q, dict(py2v.ERRORS).get(q, 'function not found'), py2v.LOOP_ERRORS.get(q, '')), dict(function=q))
    rng = random.Random(chk.rng.getrandbits(64))
    done = 0
    free = [(q, gen_args(q, rng, i % 4 == 3)) for q in LOOPFREE if q in py2v.FUNCS for i in range(n)]
    # fixed cases: the doctest examples and the ZeroDivisionError corners of the power approximation
    if 'rq.r_q_eoqss_approximation' in py2v.FUNCS:
        free.append(('rq.r_q_eoqss_approximation', dict(holding_cost=0.225, stockout_cost=7.5, fixed_cost=8.0, demand_mean=1300.0, demand_sd=150.0, lead_time=1 / 12)))
        free.append(('rq.r_q_eoqss_approximation', dict(holding_cost=0.225, stockout_cost=7.5, fixed_cost=8.0, demand_mean=1300.0, demand_sd=150.0, lead_time=0.0)))
        free.append(('rq.r_q_eoqss_approximation', dict(holding_cost=0.225, stockout_cost=7.5, fixed_cost=8.0, demand_mean=0.0, demand_sd=150.0, lead_time=1.0)))
    if 'ss.s_s_power_approximation' in py2v.FUNCS:
        free.append(('ss.s_s_power_approximation', dict(holding_cost=0.18, stockout_cost=0.70, fixed_cost=2.5, demand_mean=50.0, demand_sd=8.0)))
        free.append(('ss.s_s_power_approximation', dict(holding_cost=0.18, stockout_cost=0.70, fixed_cost=2.5, demand_mean=0.0, demand_sd=8.0)))
        free.append(('ss.s_s_power_approximation', dict(holding_cost=0.18, stockout_cost=0.70, fixed_cost=2.5, demand_mean=50.0, demand_sd=0.0)))
    done += c10_tie.run_tie(chk, free, tag='c14gen')
    nl = max(1, n // 4)
    loopy = [(q, gen_args(q, rng, i % 4 == 3)) for q in LOOPY if q in py2v.LOOPY_FUNCS for i in range(nl)]
    if 'rq.r_q_optimal_r_for_q' in py2v.LOOPY_FUNCS:
        loopy.append(('rq.r_q_optimal_r_for_q', dict(order_quantity=318.5, holding_cost=0.225, stockout_cost=7.5, demand_mean=1300.0, demand_sd=150.0, lead_time=1 / 12, tol=1e-6)))
    if 'rq.r_q_eoqb_approximation' in py2v.LOOPY_FUNCS:
        loopy.append(('rq.r_q_eoqb_approximation', dict(holding_cost=0.225, stockout_cost=7.5, fixed_cost=8.0, demand_mean=1300.0, demand_sd=150.0, lead_time=1 / 12)))
    done += run_tie_loopy(chk, loopy)
    chk.extra['gen_tie_compared'] = chk.extra.get('gen_tie_compared', 0) + done
    return done


class _StubChk:
    def __init__(self, seed):
        self.rng = random.Random(seed); self.traces = 0; self.extra = {}; self.counts = {}; self.mismatches = []
    def count(self, label): self.counts[label] = self.counts.get(label, 0) + 1
    def mismatch(self, what, case): self.mismatches.append((what, case)); print('MISMATCH', what, case)


if __name__ == '__main__':
    n = int(sys.argv[1]) if len(sys.argv) > 1 else 40
    seed = int(sys.argv[2]) if len(sys.argv) > 2 else 1
    chk = _StubChk(seed)
    t0 = time.time()
    done = gen_tie_stream(chk, n)
    print('compared %d cases in %.1f s; mismatches %d' % (done, time.time() - t0, len(chk.mismatches)))
    for k in sorted(chk.counts): print('  %-55s %d' % (k, chk.counts[k]))
    print('  extra', chk.extra)
    sys.exit(1 if chk.mismatches else 0)
