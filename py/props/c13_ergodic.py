"""C13 — ergodic step: the cost reported by stockpyl.ss.s_s_cost_discrete is the long-run average EXPECTED cost per period of
the inventory system operated under the (s,S) rule, from every start (Coq: C13_long_run_average*, Alg/SSErgo*.v).

ergodic_stream(chk, n_cases):
  for generated instances (custom pmf incl. deterministic / lattice = periodic demand and S-s > support; a float Poisson stream)
  * simulate the expected cost EXACTLY (Fractions) by propagating the distribution of the inventory position (before ordering)
    under the policy definition for T periods -- written from the policy, not from the Coq model:
        period t:  position x;  if x <= s: place an order, pay K, position becomes S;   y = position after ordering;
                   pay G(y) = E[h (y-D)^+ + p (D-y)^+]  (ss.py: "g(.) is the newsvendor cost function");  x' = y - D.
    Two accountings are accumulated: 'ord' (K charged in the period in which the order is placed) and 'trig' (K charged in the
    period whose demand triggers the order; = the per-state cost of C13_cost_is_stationary_cost);
  * check   |avg_T(ord)  - reported| <= (B + K)/T   and   |avg_T(trig) - reported| <= B/T   for T in {10,100,1000}, where
    B = ergB = 2 max_i |bias_i| is computed in Python by the formula of Alg/SSErgo.v (and, for a subset of small cases, ALSO by
    coq_eval together with avgcost / avgcost_ord / gcost of the Coq model at T = 10: exact equality required -> chk.mismatch);
    `reported` is the float returned by the implementation (tolerance 1e-9 relative for its rounding);
  * check the exact identity of C13_total_cost_identity on the simulation:  tot_T(trig) = T g + mu.h - mu_T.h  (Fractions).
A violation of the bound is chk.fail('s_s_cost_discrete|long-run-average|<feature>', ...).
"""
import math, os, re, subprocess, sys, time
from fractions import Fraction

if '/verif/py' not in sys.path and not any(os.path.exists(os.path.join(p, 'vlib.py')) for p in sys.path if p):
    sys.path.insert(0, '/verif/py')
from vlib import *
import vlib
try:
    from props import c13 as base
except ImportError:                      # stand-alone from the wip directory
    sys.path.insert(0, '/verif/py')
    from props import c13 as base

HERE = os.path.dirname(os.path.abspath(__file__))
TS = (10, 100, 1000)
RULE_ERGODIC = ('ergodic stream: h,p,K = k/4; custom dyadic pmfs of c13.gen_pmf plus deterministic demand (one atom at d>=1: periodic chain), lattice demand '
                '(support in multiples of 2 or 3: periodic classes) and two-point pmfs; S-s > D in ~45% of the cases, S-s in 1..D+10; starts: x0 = S, x0 = s+1, '
                'x0 <= s (order at time 0), a random mixture of positions in s-3..S; T in {10,100,1000}; Poisson stream (floats, means 0.5..12) with the same starts. '
                'non-trivial = S-s >= 2.')


# ------------------------------------------------------------------------------------------------ generator
def gen_instance(rng):
    h, p, K = base.gen_costs(rng)
    u = rng.random()
    if u < 0.18:                                     # deterministic demand d >= 1: the chain is periodic
        d = rng.choice([1, 1, 2, 3, 4])
        pmf = [Fraction(0)] * d + [Fraction(1)]
        flavour = 'deterministic'
    elif u < 0.36:                                   # lattice demand: support inside the multiples of q (0 allowed): periodic classes
        q = rng.choice([2, 2, 3])
        D = q * rng.randint(1, 3)
        den = rng.choice([4, 8, 16])
        pts = [k for k in range(0, D + 1, q)]
        pts = [x for x in pts if x == D or rng.random() < 0.7] or [D]
        if pts == [0]: pts = [0, D]
        units = [1] * len(pts)
        for _ in range(den - len(pts)): units[rng.randrange(len(pts))] += 1
        pmf = [Fraction(0)] * (D + 1)
        for x, w in zip(pts, units): pmf[x] = Fraction(w, den)
        flavour = 'lattice'
    elif u < 0.46:                                   # two-point pmf, not dyadic
        D = rng.randint(1, 6); a = rng.randint(0, D - 1)
        w = Fraction(rng.randint(1, 9), 10)
        pmf = [Fraction(0)] * (D + 1); pmf[a] += w; pmf[D] += 1 - w
        flavour = 'two-point'
    else:
        pmf = base.gen_pmf(rng)
        flavour = 'dyadic'
    D = len(pmf) - 1
    n = rng.randint(D + 1, D + 10) if rng.random() < 0.45 else rng.randint(1, max(1, D))
    s = rng.randint(-4, D + 3)
    return dict(kind='cost_custom', h=h, p=p, K=K, pmf=pmf, s=s, S=s + n, malformed=None, flavour=flavour)


def gen_starts(rng, s, S):
    """initial distributions of the inventory position BEFORE the first ordering decision: list of (label, {x: prob})"""
    st = [('x0=S', {S: Fraction(1)}), ('x0=s+1', {s + 1: Fraction(1)}), ('x0<=s', {s - rng.randint(0, 7): Fraction(1)})]
    xs = sorted(set(rng.randint(s - 3, S) for _ in range(rng.randint(2, 5))))
    w = [rng.randint(1, 8) for _ in xs]; tot = sum(w)
    st.append(('mixture', {x: Fraction(a, tot) for x, a in zip(xs, w)}))
    return st


# ------------------------------------------------------------------------------------------------ independent simulation (policy definition)
def G_direct(h, p, pmf, y):
    return sum(pd * (h * max(y - d, 0) + p * max(d - y, 0)) for d, pd in enumerate(pmf) if pd)


def simulate(h, p, K, pmf, s, S, start, Ts, zero=Fraction(0)):
    """expected total costs of the first T periods, T in Ts, for both accountings, and the distribution of the position after
    ordering in period T. Returns {T: (tot_ord, tot_trig, post_order_distribution_in_period_T)}; written from the policy definition."""
    cur = dict(start)                    # position before the ordering decision -> probability
    Gc = {}
    tot_ord = zero; tot_trig = zero
    out = {}
    supp = [(d, pd) for d, pd in enumerate(pmf) if pd]
    def after_order(dist):
        post = {}
        for x, w in dist.items():
            y = S if x <= s else x
            post[y] = post.get(y, zero) + w
        return post
    for t in range(max(Ts)):
        for x, w in cur.items():
            if x <= s: tot_ord += w * K              # an order is placed at the start of period t
        post = after_order(cur)
        nxt = {}
        for y, w in post.items():
            g = Gc.get(y)
            if g is None: g = Gc[y] = G_direct(h, p, pmf, y)
            tot_ord += w * g; tot_trig += w * g
            for d, pd in supp:
                x2 = y - d
                nxt[x2] = nxt.get(x2, zero) + w * pd
                if x2 <= s: tot_trig += w * pd * K   # the demand of period t triggers an order
        cur = nxt
        if t + 1 in Ts:
            out[t + 1] = (tot_ord, tot_trig, after_order(cur))
    return out


# ------------------------------------------------------------------------------------------------ the constant of the theorem (formula of Alg/SSErgo.v)
def renewal(pmf, n, one=Fraction(1)):
    pf = lambda l: pmf[l] if l < len(pmf) else 0 * one
    m = [one / (one - pf(0))]
    for j in range(1, n):
        m.append(m[0] * sum(pf(l) * m[j - l] for l in range(1, j + 1)))
    M = [0 * one]
    for j in range(n): M.append(M[-1] + m[j])
    return m, M


def bias_vector(h, p, K, pmf, s, S, Gfun=None, one=Fraction(1)):
    n = S - s
    m, M = renewal(pmf, n, one)
    G = Gfun if Gfun is not None else (lambda y: G_direct(h, p, pmf, y))
    Gv = {y: G(y) for y in range(s + 1, S + 1)}
    wG = lambda U, k: sum(m[d] * Gv[U - d] for d in range(k))
    g = (K + wG(S, n)) / M[n]
    bias = [K + wG(S - i, n - i) - g * M[n - i] for i in range(n)]
    return g, bias, 2 * max(abs(b) for b in bias)


# ------------------------------------------------------------------------------------------------ Coq evaluation (subset)
def _coq_eval_any(name, defs, exprs):
    if os.path.exists(os.path.join(vlib.COQ, 'Alg', 'SSErgo.vo')):
        return coq_eval(name, 'Alg.SSErgo', defs, exprs)
    # stand-alone: the modules live in the wip directory under the logical root WIP
    d = os.path.join(HERE, 'eval'); os.makedirs(d, exist_ok=True)
    basen = re.sub(r'[^A-Za-z0-9_]', '_', '%s_%d_%d' % (name, os.getpid(), int(time.time() * 1000) % 100000000))
    path = os.path.join(d, basen + '.v')
    with open(path, 'w') as f:
        f.write('From WIP Require Import SSErgo.\nSet Printing Width 100000000.\nSet Printing Depth 100000000.\nOpen Scope Q_scope.\n' + defs + '\n')
        for e in exprs: f.write('Eval vm_compute in (%s).\n' % e)
    r = subprocess.run(['bash', '-c', 'exec timeout 600 coqc -Q %s SV -Q %s WIP %s' % (vlib.COQ, HERE, path)], cwd=d, capture_output=True, text=True)
    for ext in ('.vo', '.glob', '.vok', '.vos', '.aux'):
        for pth in (os.path.join(d, basen + ext), os.path.join(d, '.' + basen + ext)):
            try: os.remove(pth)
            except OSError: pass
    if r.returncode != 0:
        raise RuntimeError('coq eval failed: ' + (r.stdout + r.stderr)[-1500:])
    os.remove(path)
    vals = []
    for chunk in re.split(r'(?m)^\s*= ', r.stdout)[1:]:
        vals.append(vlib._parse(re.split(r'(?m)^\s*: ', chunk)[0]))
    assert len(vals) == len(exprs)
    return vals


def coq_exprs(c, start):
    """gcost, ergB, avgcost (trig) and avgcost_ord at T = 10 of the Coq model for this instance / start"""
    s, S, n = c['s'], c['S'], c['S'] - c['s']
    o0 = sum((w for x, w in start.items() if x <= s), Fraction(0))
    mu = [Fraction(0)] * n
    for x, w in start.items(): mu[0 if x <= s else S - x] += w
    G = '(Gdisc %s %s %s)' % (cq(c['h']), cq(c['p']), cqlist(c['pmf']))
    a = '%s %s %s' % (cqlist(c['pmf']), G, cq(c['K']))
    return ['[qobs (gcost %s %s %s); qobs (ergB %s %s %s); qobs (avgcost %s %s %s %s 10); qobs (avgcost_ord %s %s %s %s %s 10)]'
            % (a, cz(s), cz(S), a, cz(s), cz(S), a, cnat(n), cz(S), cqlist(mu), a, cnat(n), cz(S), cq(o0), cqlist(mu))]


# ------------------------------------------------------------------------------------------------ checks
def public(c):
    return {k: v for k, v in c.items() if not k.startswith('_')}


def check_instance(chk, c, r, starts, stats):
    """r = ('ok', Fraction(float returned by the implementation)); returns the per-start simulation results"""
    h, p, K, pmf, s, S = c['h'], c['p'], c['K'], c['pmf'], c['s'], c['S']
    n = S - s
    feat = ('S-s>D' if n > len(pmf) - 1 else 'S-s<=D') + '|' + c.get('flavour', '')
    g, bias, B = bias_vector(h, p, K, pmf, s, S)
    rep = r[1]
    tol = Fraction(1, 10 ** 9) * (1 + abs(g))
    sims = []
    for label, start in starts:
        sim = simulate(h, p, K, pmf, s, S, start, TS)
        sims.append(sim)
        o0 = sum((w for x, w in start.items() if x <= s), Fraction(0))
        mu0 = {}
        for x, w in start.items():
            y = S if x <= s else x
            mu0[y] = mu0.get(y, Fraction(0)) + w
        for T in TS:
            tot_ord, tot_trig, post = sim[T]
            a_ord, a_trig = tot_ord / T, tot_trig / T
            case = dict(public(c), start=label, start_dist={str(x): str(w) for x, w in start.items()}, pmf_exact=[str(x) for x in c['pmf']], T=T)
            if abs(a_ord - rep) > (B + K) / T + tol:
                chk.fail('s_s_cost_discrete|long-run-average|%s' % feat,
                         'reported cost %r, but the expected cost per period over the first %d periods under the (s,S) rule started from %s is %r: '
                         'off by %.6g > (B+K)/T = %.6g (B = %.6g is the constant of C13_long_run_average_order_convention); the exact long-run average is %r'
                         % (float(rep), T, label, float(a_ord), float(abs(a_ord - rep)), float((B + K) / T), float(B), float(g)), case)
            if abs(a_trig - rep) > B / T + tol:
                chk.fail('s_s_cost_discrete|long-run-average|%s' % feat,
                         'reported cost %r, but the expected cost per period (K charged to the period whose demand triggers the order) over the first %d periods '
                         'started from %s is %r: off by %.6g > B/T = %.6g (C13_long_run_average)' % (float(rep), T, label, float(a_trig), float(abs(a_trig - rep)), float(B / T)), case)
            # exact identity of C13_total_cost_identity on the simulated chain (model-side statement vs independent simulation)
            mh0 = sum(w * bias[S - y] for y, w in mu0.items())
            mhT = sum(w * bias[S - y] for y, w in post.items())
            if tot_trig != T * g + mh0 - mhT:
                chk.mismatch('C13_total_cost_identity does not hold on the simulated chain: tot_T = %s, T g + mu.h - mu_T.h = %s' % (tot_trig, T * g + mh0 - mhT), case)
            if B > 0:
                stats['max_ratio'] = max(stats.get('max_ratio', 0.0), float(abs(a_trig - g) * T / B))
            stats['checked'] = stats.get('checked', 0) + 2
    return g, B, sims


def ergodic_stream(chk, n_cases, n_coq=None, n_poisson=None):
    rng = chk.rng
    stats = chk.extra.setdefault('ergodic', {})
    if n_coq is None: n_coq = min(40, n_cases)
    if n_poisson is None: n_poisson = max(4, n_cases // 5)
    coq_jobs = []
    for k in range(n_cases):
        c = gen_instance(rng)
        n = c['S'] - c['s']
        starts = gen_starts(rng, c['s'], c['S'])
        r = base.run_impl(c)
        chk.count('ergodic:%s' % c['flavour']); chk.count('ergodic:%s' % ('S-s>D' if n > len(c['pmf']) - 1 else 'S-s<=D'))
        chk.case(public(c), n >= 2, key='ergodic|' + repr((c['h'], c['p'], c['K'], tuple(c['pmf']), c['s'], c['S'])))
        if r[0] != 'ok':
            chk.fail('s_s_cost_discrete|raises-%s|valid-input' % (r[1] if len(r) > 1 else r[0]), 'valid (s,S) instance not evaluated: %r' % (r,), public(c))
            continue
        g, B, sims = check_instance(chk, c, r, starts, stats)
        if len(coq_jobs) < n_coq and n <= 9:
            j = rng.randrange(len(starts))
            coq_jobs.append((c, starts[j], g, B, sims[j][10]))
    # ---- subset through the Coq model: gcost, ergB, avgcost, avgcost_ord at T = 10 must equal the Python values exactly
    if coq_jobs:
        exprs = []
        for c, (label, start), g, B, simT in coq_jobs: exprs += coq_exprs(c, start)
        vals = []
        for i in range(0, len(exprs), 20):
            vals += _coq_eval_any('c13erg_%d' % i, '', exprs[i:i + 20])
        for (c, (label, start), g, B, simT), v in zip(coq_jobs, vals):
            cg, cB, ca, cao = (qv(x) for x in v)
            chk.traces += 1
            case = dict(public(c), start=label, start_dist={str(x): str(w) for x, w in start.items()}, pmf_exact=[str(x) for x in c['pmf']], T=10)
            if cg != g: chk.mismatch('Coq gcost %s <> python formula %s' % (cg, g), case)
            if cB != B: chk.mismatch('Coq ergB %s <> python formula %s' % (cB, B), case)
            if ca != simT[1] / 10: chk.mismatch('Coq avgcost(T=10) %s <> independent simulation %s' % (ca, simT[1] / 10), case)
            if cao != simT[0] / 10: chk.mismatch('Coq avgcost_ord(T=10) %s <> independent simulation %s' % (cao, simT[0] / 10), case)
            # the theorems instantiated on the Coq values themselves
            if abs(ca - cg) > cB / 10 or abs(cao - cg) > (cB + c['K']) / 10:
                chk.mismatch('Coq values violate the proved bound (impossible unless the evaluation is broken)', case)
        stats['coq_evaluated'] = stats.get('coq_evaluated', 0) + len(coq_jobs)
    poisson_stream(chk, n_poisson, stats)
    return stats


def replay_case(chk, case):
    """re-run the bound check on one recorded failing case (rp['case'] of a replay file written for a 'long-run-average' signature)"""
    c = dict(case)
    for k in ('h', 'p', 'K'): c[k] = Fraction(c[k])
    c['pmf'] = [Fraction(x) for x in c.pop('pmf_exact', c['pmf'])]
    c.setdefault('malformed', None); c['kind'] = 'cost_custom'
    start = {int(x): Fraction(w) for x, w in c.pop('start_dist').items()}
    label = c.pop('start', 'recorded start'); c.pop('T', None)
    r = base.run_impl(c)
    print('implementation:', jsonable(r))
    if r[0] == 'ok':
        check_instance(chk, c, r, [(label, start)], chk.extra.setdefault('ergodic', {}))
    chk.case(public(c))


# ------------------------------------------------------------------------------------------------ Poisson stream (floats)
def poisson_stream(chk, n_cases, stats):
    """same check in floating point for the Poisson entry point. Any demand >= y - s triggers an order, so the chain on the
    positions only needs pmf(0..n-1) and the tail; G(y) is summed directly from SciPy's pmf over a long range."""
    rng = chk.rng
    from scipy.stats import poisson
    for k in range(n_cases):
        h, p, K = base.gen_costs(rng)
        mean = rng.choice([0.5, 1.0, 1.5, 2.0, 3.0, 4.5, 6.0, 8.0, 12.0])
        sd = math.sqrt(mean)
        s = rng.randint(int(mean - 2 * sd - 3), int(mean + sd + 1))
        n = rng.randint(1, int(6 * sd + 8))
        S = s + n
        c = dict(kind='cost_poisson', h=h, p=p, K=K, mean=mean, s=s, S=S, malformed=None)
        r = base.run_impl(c)
        chk.count('ergodic:poisson')
        chk.case(public(c), n >= 2, key='ergodic|' + repr((h, p, K, mean, s, S)))
        if r[0] != 'ok':
            chk.fail('s_s_cost_discrete|raises-%s|valid-input' % (r[1] if len(r) > 1 else r[0]), 'valid Poisson (s,S) instance not evaluated: %r' % (r,), public(c))
            continue
        rep = float(r[1])
        hf, pf_, Kf = float(h), float(p), float(K)
        Dmax = int(mean + 12 * sd + 30)
        pm = [float(x) for x in poisson.pmf(range(Dmax + 1), mean)]
        G = lambda y: sum(pd * (hf * max(y - d, 0) + pf_ * max(d - y, 0)) for d, pd in enumerate(pm))
        g, bias, B = bias_vector(hf, pf_, Kf, pm[:n] + [0.0], s, S, Gfun=G, one=1.0)
        cdf = [0.0]
        for d in range(n): cdf.append(cdf[-1] + pm[d])
        Gv = [G(S - i) for i in range(n)]
        for label, i0, o0 in (('x0=S', 0, 0.0), ('x0=s+1', n - 1, 0.0), ('x0<=s', 0, 1.0)):
            mu = [0.0] * n; mu[i0] = 1.0
            tot_ord = Kf * o0
            for t in range(1, max(TS) + 1):
                ordp = sum(mu[i] * (1.0 - cdf[n - i]) for i in range(n))      # P(the demand of this period triggers an order)
                tot_ord += sum(mu[i] * Gv[i] for i in range(n))
                if t in TS:
                    a = tot_ord / t
                    if abs(a - rep) > (B + Kf) / t + 1e-7 * (1 + abs(rep)):
                        chk.fail('s_s_cost_discrete|long-run-average|poisson',
                                 'reported cost %r, but the expected cost per period over the first %d periods under the (s,S) rule started from %s is %r: off by %.6g > (B+K)/T = %.6g'
                                 % (rep, t, label, a, abs(a - rep), (B + Kf) / t), dict(public(c), start=label, T=t))
                    stats['checked_poisson'] = stats.get('checked_poisson', 0) + 1
                nu = [0.0] * n
                for i in range(n):
                    w = mu[i]
                    if w == 0.0: continue
                    for d in range(n - i): nu[i + d] += w * pm[d]
                nu[0] += ordp
                tot_ord += Kf * ordp                                          # the order is placed at the start of the next period
                mu = nu


# ------------------------------------------------------------------------------------------------ stand-alone run (no evidence written)
if __name__ == '__main__':
    import argparse
    ap = argparse.ArgumentParser()
    ap.add_argument('--n', type=int, default=120)
    ap.add_argument('--seed', type=int, default=None)
    ap.add_argument('--coq', type=int, default=40)
    a = ap.parse_args()
    chk = vlib.Check('C13', 'quick', a.seed)          # finish() is NOT called: nothing is written to /verif/evidence or /verif/replays
    chk.rule = RULE_ERGODIC
    t0 = time.time()
    st = ergodic_stream(chk, a.n, n_coq=a.coq)
    print('cases %d (distinct non-trivial %d), bound checks %d exact + %d Poisson, Coq-evaluated %d, max |avg-g|*T/B = %.4f, %.1fs'
          % (chk.evaluations, len(chk.nontrivial), st.get('checked', 0), st.get('checked_poisson', 0), st.get('coq_evaluated', 0), st.get('max_ratio', 0.0), time.time() - t0))
    print('distribution:', chk.hist)
    print('failing inputs: %d, mismatches: %d' % (len(chk.fails), len(chk.mismatches)))
    for sig, what, case in chk.fails[:5]: print('FAIL', sig, '::', what, '::', case)
    for what, case in chk.mismatches[:5]: print('MISMATCH', what, '::', case)
    sys.exit(1 if (chk.fails or chk.mismatches) else 0)
