"""C14 — (r,Q): correspondence of Alg/RQ.v with stockpyl.rq (Poisson cost evaluator, Federgruen-Zheng loop) and
independent oracles (own Poisson/normal newsvendor cost, exhaustive integer window, closed-form integral, defining
equations of the approximations) on the implementation's own outputs."""
import math, statistics
from fractions import Fraction
import numpy as np
from vlib import *

RULE = ('Poisson stream: h = k/4 (k in 1..40), p = k/4 (1..200), K = k/4 (1..400) or (15%) arbitrary binary64 values, integer demand '
        'mean 1..30, lead time in {1/4, 1/2, 1, 2, 3} or (20%) k/10; r_q_poisson_exact plus r_q_cost_poisson at 3 random integer '
        'pairs (r possibly negative); 25% small-K regime (K <= 1, h >= 5: optimal Q in 1..3); 20% low-critical-ratio regime (p < h, i.e. p/(p+h) < 1/2: S below floor(mu), down to S = 0 / r = -1; K tiny, small or ordinary; lambda 2..30); 35% of the calls repeat the previous call with one parameter changed '
        '(call sequences in one process; 15 earlier calls are repeated at the end and must return bit-identical results); exact-tie stream (lambda = 1, K chosen so that c(1) = c(2) exactly in binary64); malformed '
        'stream (non-positive costs, negative mean / lead time, Q <= 0, non-integer r or Q, zero lead-time demand). '
        'Normal stream: h, p, K floats, mean 50..2000, cv 0.05..0.4, lead time in {1/12, 1/4, 1/2, 1, 2}: r_q_cost at random (r,Q), '
        'r_q_optimal_r_for_q, the four approximations (8% with p << h and large K, where the EIL equations have no solution; 27% with p/h in [1.2, 3] and K in 20..500, reorder point below mean lead-time demand; 30% siblings of the previous call; 30% with h, p, K scaled by 1e-2..1e-5 (small unit costs, flat g)); every normal case additionally calls r_q_optimal_r_for_q with a CALLER-SUPPLIED tol in 1e-2..1e-12 (raised to 1000 x the binary64 resolution of g(r)-g(r+Q) when below it) at Q = 0.3..2 EOQ and checks |g(r)-g(r+Q)| <= tol with that tol (and the bit-for-bit transcription of the bisection), r_q_eil_approximation with tol in {1e-3,1e-4,1e-5,1e-8,1e-9} and r_q_loss_function_approximation with tol in {1e-3,1e-4,1e-5}. '
        'EIL solvability-boundary stream (16 quick / 400 thorough normal cases, all normal-stream oracles): h, lambda, cv, L as above, p/h log-uniform in 0.3..20, K placed at a relative distance '
        '10^-3..0.5 (log-uniform) below the largest fixed cost K* = max_Q [h Q^2/(2 lambda) - p n(r(Q))] for which (5.17), (5.18) have a solution (two solutions close together, slow iteration) '
        'or (25%) above it (no solution). A (nan, nan, nan) result of r_q_eil_approximation (any stream, default or caller tol) is a failing input whenever an own run of the documented '
        'Algorithm 5.1 from Q = EOQ (statistics.NormalDist / math.erfc) converges to a point where the fixed-point map changes sign with a margin, i.e. the defining equations have a solution; '
        'nan is tolerated only where that run leaves the domain Q h/(p lambda) < 1. non-trivial (Poisson) = the returned window was extended at least once to '
        'each side of S; distinct = distinct parameter tuples.')

BIG = Fraction(10) ** 30
EIL_NAN_IS_FAILURE = False      # r_q_eil_approximation returns (nan, nan, nan) when Q h/(p lambda) >= 1 (no solution); recorded, reported to the lead;
                                # nan where eil_reference() finds a solution of the defining equations IS a failing input (oracle_normal)


# ------------------------------------------------------------------------------------------------
# independent re-computation (no stockpyl, no scipy.stats)
def pois_pmf_list(mu, n):
    return [math.exp(-mu + k * math.log(mu) - math.lgamma(k + 1)) for k in range(n)]


class PoisG:
    """own Poisson newsvendor cost g(y) = h E(y-D)+ + p E(D-y)+ with E(D-y)+ = mu - y + E(y-D)+"""
    def __init__(self, h, p, mu, ymax):
        self.h, self.p, self.mu = h, p, mu
        pm = pois_pmf_list(mu, ymax + 2)
        self.cdf = list(np.cumsum(pm))
        # nb[y] = sum_{k<y} (y-k) pmf(k) = sum_{j<y} cdf(j)
        self.nb = [0.0]
        acc = 0.0
        for j in range(ymax + 1):
            acc += self.cdf[j]; self.nb.append(acc)

    def __call__(self, y):
        nb = self.nb[y] if y > 0 else 0.0
        return self.h * nb + self.p * (self.mu - y + nb)

    def S(self):
        a = self.p / (self.p + self.h)
        s = 0
        while self.cdf[s] < a: s += 1
        return s, min(abs(self.cdf[s] - a), abs(self.cdf[s - 1] - a) if s > 0 else 1.0)


def phi(z): return math.exp(-z * z / 2) / math.sqrt(2 * math.pi)
def Phi(z): return 0.5 * math.erfc(-z / math.sqrt(2))
def Phic(z): return 0.5 * math.erfc(z / math.sqrt(2))
def L1(z): return phi(z) - z * Phic(z)
def L2(z): return 0.5 * ((z * z + 1) * Phic(z) - z * phi(z))


class NormG:
    def __init__(self, h, p, mu, sigma):
        self.h, self.p, self.mu, self.sigma = h, p, mu, sigma
    def n(self, x): return self.sigma * L1((x - self.mu) / self.sigma)
    def n2(self, x): return self.sigma ** 2 * L2((x - self.mu) / self.sigma)
    def __call__(self, x): return self.h * (x - self.mu) + (self.h + self.p) * self.n(x)
    def integral(self, a, b):
        """closed form of int_a^b g: h[(b-mu)^2 - (a-mu)^2]/2 + (h+p)[n2(a) - n2(b)]"""
        return self.h * ((b - self.mu) ** 2 - (a - self.mu) ** 2) / 2 + (self.h + self.p) * (self.n2(a) - self.n2(b))
    def S(self): return self.mu + self.sigma * statistics.NormalDist().inv_cdf(self.p / (self.p + self.h))
    def cdf(self, x): return Phi((x - self.mu) / self.sigma)


# ------------------------------------------------------------------------------------------------
# Poisson stream
def gen_poisson(rng, prev=None):
    def q4(lo, hi): return rng.randint(lo, hi) / 4
    if prev is not None and rng.random() < 0.35:
        # call SEQUENCES: same parameters as the previous call except one (results must not depend on earlier calls)
        c = {k: prev[k] for k in ('kind', 'h', 'p', 'K', 'lam', 'L', 'regime')}
        which = rng.choice(['L', 'L', 'lam', 'lam', 'h', 'p', 'K'])
        while True:
            v = {'L': rng.choice([0.25, 0.5, 1, 1.5, 2, 3]), 'lam': rng.randint(1, 30), 'h': q4(1, 40), 'p': q4(1, 200), 'K': q4(1, 400)}[which]
            if v != c[which]: break
        c[which] = v; c['sibling'] = which
        c['prelude'] = (prev.get('prelude', []) + [{k: prev[k] for k in ('kind', 'h', 'p', 'K', 'lam', 'L')}])[-3:]
        return c
    arb = rng.random() < 0.15
    h = rng.uniform(0.1, 10) if arb else q4(1, 40)
    p = rng.uniform(0.5, 50) if arb else q4(1, 200)
    K = rng.uniform(0.5, 100) if arb else q4(1, 400)
    lam = rng.randint(1, 30)
    L = rng.randint(1, 40) / 10 if rng.random() < 0.2 else rng.choice([0.25, 0.5, 1, 2, 3])
    regime = 'std'
    if rng.random() < 0.25:
        # tiny fixed cost / steep newsvendor cost: the optimal Q is 1, 2 or 3 (the loop stops in its first passes)
        regime = 'smallK'
        K = rng.choice([rng.uniform(0.005, 0.5), rng.randint(1, 16) / 16]); h = q4(20, 120); p = q4(40, 800)
        lam = rng.choice([1, 1.5, 2, 3, rng.randint(1, 8)])
    elif rng.random() < 0.27:
        # stockout cost BELOW holding cost (critical ratio p/(p+h) < 1/2): the newsvendor level S lies below the median /
        # floor(mu) of the lead-time demand (down to S = 0, r = -1); fixed cost from tiny (window stays left of floor(mu))
        # to ordinary (window reaches over the mean)
        regime = 'lowcr'
        h = q4(4, 160); p = rng.choice([q4(1, max(1, int(4 * h) - 1)), round(h * rng.uniform(0.02, 0.95), 3)])
        K = rng.choice([q4(1, 20), rng.uniform(0.05, 3), q4(1, 400)])
        lam = rng.choice([rng.randint(2, 30), rng.randint(8, 30)])
    return dict(kind='poisson', h=h, p=p, K=K, lam=lam, L=L, regime=regime)


def gen_tie(rng):
    """lambda = 1 and K = g(S+1) - g(S) exactly, so c(S-1,1) == c(S-1,2) in binary64 and in Q: exercises `g > g_prev`"""
    from stockpyl.newsvendor import newsvendor_poisson_cost
    for _ in range(200):
        h = rng.randint(1, 40) / 4; p = rng.randint(1, 200) / 4; L = rng.choice([0.5, 1, 2, 3, 1.5, 2.5])
        og = PoisG(h, p, L, 60); S, _ = og.S()
        try:
            g0, gl, gr = (float(newsvendor_poisson_cost(y, h, p, L)) for y in (S, S - 1, S + 1))
        except Exception:
            continue
        if not (g0 < gr <= gl): continue
        K = gr - g0
        if K > 0 and F(K) + F(g0) == F(gr):
            return dict(kind='tie', h=h, p=p, K=K, lam=1, L=L)
    return None


def impl_poisson(c):
    from stockpyl.rq import r_q_poisson_exact
    try:
        r, Q, g = r_q_poisson_exact(c['h'], c['p'], c['K'], c['lam'], c['L'])
        return ('ok', int(r), int(Q), float(g))
    except Exception as e:
        return ('err', exc_kind(e), str(e)[:200])


def impl_cost_poisson(r, Q, c):
    from stockpyl.rq import r_q_cost_poisson
    try:
        return ('ok', float(r_q_cost_poisson(r, Q, c['h'], c['p'], c['K'], c['lam'], c['L'])))
    except Exception as e:
        return ('err', exc_kind(e), str(e)[:200])


def impl_tables(c, ylo, yhi):
    """the implementation's own g and cdf values as exact rationals (inputs of the model)"""
    from stockpyl.newsvendor import newsvendor_poisson_cost
    from scipy.stats import poisson
    mu = c['lam'] * c['L']
    g = [float(newsvendor_poisson_cost(y, c['h'], c['p'], mu)) for y in range(ylo, yhi + 1)]
    cdf = [float(poisson.cdf(y, mu)) for y in range(0, max(yhi, 1) + 1)]
    return g, cdf


def oracle_poisson(c, res, og, S, Smargin):
    """property monitors on the implementation's output (r, Q, g); returns list of (signature, what)"""
    _, r, Q, g = res
    bad = []
    KL = c['K'] * c['lam']
    if Q < 1:
        return [('r_q_poisson_exact|Q<1', 'returned order quantity %r' % Q)]
    own = (KL + math.fsum(og(y) for y in range(r + 1, r + Q + 1))) / Q
    if not close(own, g):
        bad.append(('r_q_poisson_exact|reported-cost-not-cost-of-pair', 'reported cost %.12g but (K lam + sum_{y=%d}^{%d} g(y))/%d = %.12g' % (g, r + 1, r + Q, Q, own)))
    if Smargin > 1e-9 and not (r + 1 <= S <= r + Q):
        bad.append(('r_q_poisson_exact|window-misses-S', 'window %d..%d does not contain the newsvendor level S=%d' % (r + 1, r + Q, S)))
    # exhaustive window: r' in [S-Qmax-3, S+3], Q' in 1..Qmax
    Qmax = c['_Qmax']
    lo = S - Qmax - 3
    ys = range(lo + 1, S + 3 + Qmax + 1)
    P = np.concatenate([[0.0], np.cumsum([og(y) for y in ys])])      # P[i] = sum of g over lo+1 .. lo+i
    nr = S + 3 - lo + 1
    best = (float('inf'), None, None)
    for q in range(1, Qmax + 1):
        v = (KL + P[q:q + nr] - P[0:nr]) / q
        i = int(np.argmin(v))
        if v[i] < best[0]: best = (float(v[i]), lo + i, q)
    if best[0] < own - 1e-9 * max(1.0, abs(own)):
        bad.append(('r_q_poisson_exact|not-optimal', 'returned (r,Q)=(%d,%d) costs %.12g but (%d,%d) costs %.12g' % (r, Q, own, best[1], best[2], best[0])))
    return bad


def check_cost_call(chk, c, r, Q, og):
    """r_q_cost_poisson at an arbitrary integer pair vs own summation"""
    res = impl_cost_poisson(r, Q, c)
    if res[0] != 'ok':
        chk.fail('r_q_cost_poisson|raises-%s' % res[1], 'valid call r=%d Q=%d raises %s: %s' % (r, Q, res[1], res[2]), dict(c, r=r, Q=Q)); return None
    own = (c['K'] * c['lam'] + math.fsum(og(y) for y in range(r + 1, r + Q + 1))) / Q
    if not close(own, res[1]):
        chk.fail('r_q_cost_poisson|not-the-documented-sum', 'r_q_cost_poisson(%d,%d)=%.12g but (K lam + sum_{y=r+1}^{r+Q} g(y))/Q = %.12g' % (r, Q, res[1], own), dict(c, r=r, Q=Q))
    return res[1]


def coq_case_expr(c, goff, gtab_vals, cdf_vals, pairs, fuel):
    g = 'gtab %s %s %s' % (cz(goff), cqlist(gtab_vals), cq(BIG))
    Fm = 'gtab 0%%Z %s 1' % cqlist(cdf_vals)
    args = '%s %s %s %s %s' % (cq(c['h']), cq(c['p']), cq(c['K']), cq(c['lam']), cq(c['L']))
    costs = clist(['obs1 (r_q_cost_poisson g %s %s %s)' % (cz(r), cz(Q), args) for r, Q in pairs])
    return 'let g := %s in let Fm := %s in (obs3 (r_q_poisson_exact Fm g %s %s), %s)' % (g, Fm, args, cnat(fuel), costs)


DEFS = '''
Definition obs3 (x : res (Z * nat * Q)) : Z * Z * Z * (Z * Z) :=
  match x with Ok (r, n, c) => (0, r + 1000000, Z.of_nat n, qobs c) | VErr => (1, 0, 0, (0, 1)) | ZDiv => (2, 0, 0, (0, 1)) | Fuel => (3, 0, 0, (0, 1)) end%Z.
Definition obs1 (x : res Q) : Z * (Z * Z) :=
  match x with Ok c => (0, qobs c) | VErr => (1, (0, 1)) | ZDiv => (2, (0, 1)) | Fuel => (3, (0, 1)) end%Z.
'''
DEFS += "Definition tag3 (x : res (Z * nat * Q)) : Z * (Z * Z) := (fst (fst (fst (obs3 x))), (0, 1))%Z.\n"
KIND = {1: 'ValueError', 2: 'ZeroDivisionError', 3: 'FUEL'}


def explore_poisson(chk, n, ntie, do_model=True):
    rng = chk.rng
    cases = []
    for _ in range(n):
        cases.append(gen_poisson(rng, cases[-1] if cases else None))
    for _ in range(ntie):
        t = gen_tie(rng)
        if t: cases.append(t)
    exprs = []; ctx = []; impl_first = {}
    for c in cases:
        mu = c['lam'] * c['L']
        res = impl_poisson(c)
        impl_first[id(c)] = res
        chk.count('kind=%s' % c['kind']); chk.count('mu<=5' if mu <= 5 else 'mu<=30' if mu <= 30 else 'mu>30')
        if res[0] != 'ok':
            chk.fail('r_q_poisson_exact|raises-%s' % res[1], 'valid input raises %s: %s' % (res[1], res[2]), c)
            chk.case(c, False); continue
        _, r, Q, g = res
        Qmax = min(max(2 * Q + 25, 40), 2 * Q + 400)
        c['_Qmax'] = Qmax
        ymax = int(mu + 12 * math.sqrt(mu) + 3 * Qmax + 60)
        og = PoisG(c['h'], c['p'], mu, ymax)
        S, Smargin = og.S()
        chk.count('S<floor(mu)' if S < int(mu) else 'S>=floor(mu)')
        for sig, what in oracle_poisson(c, res, og, S, Smargin):
            chk.fail(sig, what, c)
        # evaluator at random pairs
        pairs = [(r, Q)] + [(S + rng.randint(-Q - 5, 3), rng.randint(1, Q + 6)) for _ in range(3)]
        vals = [check_cost_call(chk, c, rr, qq, og) for rr, qq in pairs]
        # hypotheses of C14_poisson_g_unimodal on the implementation's g and cdf
        ylo = min(r, S) - Q - 8; yhi = max(r + Q, S) + Q + 8
        ylo = min(ylo, min(rr for rr, _ in pairs) - 1); yhi = max(yhi, max(rr + qq for rr, qq in pairs) + 1)
        try:
            gt, cdf = impl_tables(c, ylo, yhi)
        except Exception as e:
            chk.fail('newsvendor_poisson_cost|raises-%s' % exc_kind(e), str(e)[:200], c); chk.case(c, False); continue
        scale = max(1.0, c['h'] + c['p'])
        for i in range(len(gt) - 1):
            y = ylo + i
            Fy = cdf[y] if y >= 0 else 0.0
            d = gt[i + 1] - gt[i]
            if abs(d - ((c['h'] + c['p']) * Fy - c['p'])) > 1e-9 * max(scale, abs(gt[i])):
                chk.fail('newsvendor_poisson_cost|difference-identity', 'g(%d)-g(%d)=%.12g but (h+p)F(%d)-p=%.12g' % (y + 1, y, d, y, (c['h'] + c['p']) * Fy - c['p']), c); break
        if any(cdf[i + 1] < cdf[i] for i in range(len(cdf) - 1)):
            chk.fail('poisson.cdf|not-monotone', 'cdf decreases', c)
        nontriv = (r < S - 1) and (r + Q > S)
        key = json.dumps([c['h'], c['p'], c['K'], c['lam'], c['L']])
        chk.case({k: v for k, v in c.items() if not k.startswith('_')}, nontriv, key)
        chk.count('regime=%s' % c.get('regime', '-')); chk.count('sibling=%s' % c.get('sibling', '-'))
        chk.count('Q=1' if Q == 1 else 'Q<=5' if Q <= 5 else 'Q<=20' if Q <= 20 else 'Q<=60' if Q <= 60 else 'Q>60')
        if do_model:
            exprs.append(coq_case_expr(c, ylo, gt, cdf, pairs, Q + S + 60))
            ctx.append((c, res, pairs, vals, ylo, gt))
    # results must not depend on the call history: repeat some earlier calls at the end and compare bit for bit
    done = [(c, impl_first[id(c)]) for c in cases if id(c) in impl_first]
    for c, first in rng.sample(done, min(len(done), 15)):
        again = impl_poisson(c)
        if again != first:
            chk.fail('r_q_poisson_exact|result-depends-on-call-history', 'first call returned %r, the same call later returns %r' % (first, again),
                     dict({k: v for k, v in c.items() if not k.startswith('_')}, prelude=[{k: v for k, v in d.items() if k in ('kind', 'h', 'p', 'K', 'lam', 'L')} for d, _ in done][-20:]))
    if not (do_model and exprs): return
    out = coq_eval_sharded('c14', 'Alg.RQ', DEFS, exprs, shard=12, jobs=8)
    for (c, res, pairs, vals, ylo, gt), m in zip(ctx, out):
        chk.traces += 1
        cc = {k: v for k, v in c.items() if not k.startswith('_')}
        tag, mr, mQ, mc, mcosts = m
        mr -= 1000000      # printed shifted: the output parser does not read (-1)%Z
        _, r, Q, g = res
        def tabcost(rr, qq): return (F(c['K']) * F(c['lam']) + sum(F(gt[y - ylo]) for y in range(rr + 1, rr + qq + 1))) / qq
        if tag != 0:
            chk.mismatch('model returns %s but the implementation returned (%d, %d, %.12g)' % (KIND[tag], r, Q, g), cc); continue
        mc = qv(mc)
        if not (ylo + 2 <= mr and mr + mQ + 2 <= ylo + len(gt) - 1):
            chk.mismatch('model left the g table: window %d..%d, table %d..%d' % (mr + 1, mr + mQ, ylo, ylo + len(gt) - 1), cc); continue
        if (mr, mQ) != (r, Q):
            ci, cm = tabcost(r, Q), tabcost(mr, mQ)
            if c['kind'] != 'tie' and abs(ci - cm) <= Fraction(1, 10 ** 7) * max(abs(ci), abs(cm)):
                chk.extra['near_tie_skipped'] = chk.extra.get('near_tie_skipped', 0) + 1
            else:
                chk.mismatch('model returns (r,Q)=(%d,%d) cost %.12g, implementation (%d,%d) cost %.12g' % (mr, mQ, float(mc), r, Q, g), cc)
        elif not close(mc, g):
            chk.mismatch('same (r,Q)=(%d,%d) but model cost %.15g vs implementation %.15g' % (r, Q, float(mc), g), cc)
        for (rr, qq), v, (t, mv) in zip(pairs, vals, mcosts):
            if v is None: continue
            if t != 0 or not close(qv(mv), v):
                chk.mismatch('r_q_cost_poisson(%d,%d): model %s vs implementation %.15g' % (rr, qq, KIND.get(t) or float(qv(mv)), v), cc)


# ------------------------------------------------------------------------------------------------
# malformed stream (documented: ValueError)
def explore_malformed(chk, n):
    from stockpyl import rq
    rng = chk.rng
    good = dict(h=2.0, p=15.0, K=50.0, lam=3, L=1.0, sd=1.0)
    exprs = []; expect = []
    for i in range(n):
        c = dict(good); which = rng.choice(['h', 'p', 'K', 'lam', 'L', 'mu0', 'Qneg', 'Q0', 'Qfrac', 'rfrac'])
        r, Q = rng.randint(-3, 6), rng.randint(1, 6)
        if which in ('h', 'p', 'K'): c[which] = rng.choice([0.0, -1.0])
        elif which in ('lam', 'L'): c[which] = -1.0 if which == 'L' else -1
        elif which == 'mu0': c[rng.choice(['lam', 'L'])] = 0
        elif which == 'Qneg': Q = -rng.randint(1, 3)
        elif which == 'Q0': Q = 0
        elif which == 'Qfrac': Q = Q + 0.5
        elif which == 'rfrac': r = r + 0.5
        chk.count('malformed=%s' % which)
        case = dict(kind='malformed', which=which, r=r, Q=Q, **c)
        try:
            v = rq.r_q_cost_poisson(r, Q, c['h'], c['p'], c['K'], c['lam'], c['L']); got = ('ok', float(v))
        except Exception as e:
            got = ('err', exc_kind(e))
        if which == 'Q0' and got == ('err', 'ZeroDivisionError'):
            # documented as ValueError ("order_quantity <= 0"); the guard tests `< 0`. Outside the admissible domain of C14: recorded only.
            chk.extra['doc_deviation_Q0_ZeroDivisionError'] = chk.extra.get('doc_deviation_Q0_ZeroDivisionError', 0) + 1
        elif got != ('err', 'ValueError'):
            chk.fail('r_q_cost_poisson|malformed-%s-accepted' % which, 'malformed input (%s) not rejected with ValueError: %r' % (which, got), case)
        if which not in ('Qfrac', 'rfrac'):
            exprs.append('obs1 (r_q_cost_poisson (fun _ => 1) %s %s %s %s %s %s %s)' % (cz(r), cz(Q), cq(c['h']), cq(c['p']), cq(c['K']), cq(c['lam']), cq(c['L'])))
            expect.append((case, got))
        if which in ('h', 'p', 'K', 'lam', 'L', 'mu0'):
            try:
                v = rq.r_q_poisson_exact(c['h'], c['p'], c['K'], c['lam'], c['L']); got2 = ('ok',)
            except Exception as e:
                got2 = ('err', exc_kind(e))
            if got2 != ('err', 'ValueError'):
                chk.fail('r_q_poisson_exact|malformed-%s-accepted' % which, 'malformed input (%s) not rejected with ValueError: %r' % (which, got2), case)
            exprs.append('tag3 (r_q_poisson_exact (fun _ => 1) (fun _ => 1) %s %s %s %s %s 5%%nat)' % (cq(c['h']), cq(c['p']), cq(c['K']), cq(c['lam']), cq(c['L'])))
            expect.append((case, got2))
        chk.case(case, False)
    # r_q_cost guards (incl. the ValueError raised by the integrand when mu or sigma is zero)
    for i in range(max(6, n // 3)):
        c = dict(good); which = rng.choice(['h', 'p', 'K', 'lam', 'sd', 'L', 'lam0', 'sd0', 'L0', 'Q0', 'Qneg', 'none'])
        r, Q = 2.5, 4.0
        if which in ('h', 'p', 'K'): c[which] = rng.choice([0.0, -1.0])
        elif which in ('lam', 'sd', 'L'): c[which] = -1.0
        elif which in ('lam0', 'sd0', 'L0'): c[which[:-1]] = 0.0
        elif which == 'Q0': Q = 0.0
        elif which == 'Qneg': Q = -2.0
        chk.count('malformed_r_q_cost=%s' % which)
        case = dict(kind='malformed_r_q_cost', which=which, r=r, Q=Q, **c)
        try:
            v = rq.r_q_cost(r, Q, c['h'], c['p'], c['K'], c['lam'], c['sd'], c['L']); got = ('ok', float(v))
        except Exception as e:
            got = ('err', exc_kind(e))
        if (which == 'none') != (got[0] == 'ok') or (got[0] == 'err' and got[1] != 'ValueError'):
            chk.fail('r_q_cost|malformed-%s' % which, 'expected %s, got %r' % ('a value' if which == 'none' else 'ValueError', got), case)
        exprs.append('obs1 (r_q_cost 1 %s %s %s %s %s %s %s)' % tuple(cq(x) for x in (Q, c['h'], c['p'], c['K'], c['lam'], c['sd'], c['L'])))
        expect.append((case, got))
        chk.case(case, False)
    out = coq_eval('c14m', 'Alg.RQ', DEFS, exprs)
    for (case, got), (t, _) in zip(expect, out):
        chk.traces += 1
        if KIND.get(t) != (got[1] if got[0] == 'err' else None):
            chk.mismatch('guards: model %s vs implementation %r' % (KIND.get(t, 'Ok'), got), case)


# ------------------------------------------------------------------------------------------------
# normal stream (oracle only; quad / ppf / loss functions are inputs of the model)
def gen_normal(rng, prev=None):
    if prev is not None and rng.random() < 0.3:
        c = {k: prev[k] for k in ('kind', 'h', 'p', 'K', 'lam', 'sd', 'L')}
        sc = prev.get('scale', 1)
        if sc != 1: c['scale'] = sc
        which = rng.choice(['L', 'lam', 'sd', 'K', 'p'])
        c[which] = {'L': rng.choice([1 / 12, 0.25, 0.5, 1, 2, 3]), 'lam': rng.randint(50, 2000), 'sd': round(c['lam'] * rng.uniform(0.05, 0.4), 2),
                    'K': round(rng.uniform(1, 500), 2) * sc, 'p': round(c['h'] / sc * rng.uniform(1.2, 60), 3) * sc}[which]
        c['sibling'] = which
        c['prelude'] = (prev.get('prelude', []) + [{k: prev[k] for k in ('kind', 'h', 'p', 'K', 'lam', 'sd', 'L')}])[-3:]
        c['tolreq'] = gen_tolreq(rng)
        return c
    h = round(rng.uniform(0.05, 5), 3); p = round(h * rng.uniform(2, 60), 3); K = round(rng.uniform(1, 200), 2)
    u = rng.random()
    if u < 0.08:      # EIL equations have no solution when Q h / (p lambda) >= 1: cheap stockouts, expensive orders
        p = round(h * rng.uniform(0.02, 0.3), 4); K = round(rng.uniform(200, 5000), 2)
    elif u < 0.35:    # p close to h and sizeable K: reorder point below the mean lead-time demand (negative safety stock)
        p = round(h * rng.uniform(1.2, 3), 3); K = round(rng.uniform(20, 500), 2)
    lam = rng.randint(50, 2000); sd = round(lam * rng.uniform(0.05, 0.4), 2); L = rng.choice([1 / 12, 0.25, 0.5, 1, 2])
    if rng.random() < 0.3:
        # small unit costs (money in thousands / millions): same (r,Q) geometry, but g is flat in absolute terms, so an absolute
        # tolerance of 1e-6 pins r(Q) down only loosely and callers pass a tighter `tol`
        sc = rng.choice([1e-2, 1e-3, 1e-4, 1e-5]); h, p, K = h * sc, p * sc, K * sc
        return dict(kind='normal', h=h, p=p, K=K, lam=lam, sd=sd, L=L, scale=sc, tolreq=gen_tolreq(rng))
    return dict(kind='normal', h=h, p=p, K=K, lam=lam, sd=sd, L=L, tolreq=gen_tolreq(rng))


def gen_tolreq(rng):
    """caller-supplied `tol` of r_q_optimal_r_for_q / the iterative approximations: exponent (tighter and looser than the default 1e-6)
    and the Q (as a multiple of the EOQ) at which r(Q) is requested"""
    return dict(tol=10.0 ** -rng.choice([2, 3, 4, 5, 7, 7, 8, 8, 9, 9, 10, 11, 12]), qf=round(rng.uniform(0.3, 2.0), 3),
                tol_fp=10.0 ** -rng.choice([3, 4, 5, 8, 9]))


def eil_psi(Q, h, p, lam, sigma):
    """psi(Q) = h Q^2 / (2 lam) - p n(r(Q)) with r(Q) = F^{-1}(1 - Q h / (p lam)) (eq. 5.17): the EIL equations (5.17), (5.18) hold at
    (r(Q), Q) iff psi(Q) = K, and sqrt(2 lam [K + p n(r(Q))] / h) > Q iff psi(Q) < K.  Own computation (statistics.NormalDist, math.erfc)."""
    z = -statistics.NormalDist().inv_cdf(Q * h / (p * lam))
    return h * Q * Q / (2 * lam) - p * sigma * L1(z)


def eil_Kstar(h, p, lam, sigma, N=400):
    """largest fixed cost for which the EIL equations have a solution: max of psi over 0 < Q < p lam / h (grid + golden section);
    <= 0 when the lead-time-demand density never exceeds h / (p lam) (no solution for any K > 0)"""
    Qm = p * lam / h
    i = max(range(1, N), key=lambda i: eil_psi(Qm * i / N, h, p, lam, sigma))
    a, b = Qm * max(i - 1, 1e-3) / N, Qm * min(i + 1, N - 1e-3) / N
    g = (math.sqrt(5) - 1) / 2
    for _ in range(80):
        c, d = b - g * (b - a), a + g * (b - a)
        if eil_psi(c, h, p, lam, sigma) > eil_psi(d, h, p, lam, sigma): b = d
        else: a = c
    return eil_psi((a + b) / 2, h, p, lam, sigma)


def eil_reference(h, p, K, lam, mu, sigma, maxit=200000):
    """own run of the documented Algorithm 5.1 (start at Q = EOQ, alternate (5.17) and (5.18)); returns (r, Q) when it converges to a point
    at which Q -> sqrt(2 lam [K + p n(r(Q))]/h) - Q changes sign from + to - with a margin (a solution of the defining equations that the
    documented algorithm reaches: started at the EOQ, which lies below every solution, the iterates increase to the smallest one), else None
    (Q h / (p lam) reaches 1: the equations have no solution, or only a numerically marginal one)"""
    nd = statistics.NormalDist()
    def step(Q):
        q = Q * h / (p * lam)
        if not 0 < q < 1: return None
        return math.sqrt(2 * lam * (K + p * sigma * L1(-nd.inv_cdf(q))) / h)
    Q = math.sqrt(2 * K * lam / h)
    for _ in range(maxit):
        Qn = step(Q)
        if Qn is None: return None
        if abs(Qn - Q) <= 1e-11 * Q: break
        Q = Qn
    else: return None
    lo, hi = step(Q * (1 - 1e-4)), step(Q * (1 + 1e-4))
    if lo is None or hi is None or not (lo - Q * (1 - 1e-4) > 1e-9 * Q and hi - Q * (1 + 1e-4) < -1e-9 * Q): return None
    return mu - sigma * nd.inv_cdf(Q * h / (p * lam)), Q


def gen_eil_boundary(rng):
    """boundary of the domain on which the EIL equations are solvable: for given h, p, lambda, tau, L they have a solution iff
    K <= K* = max_Q psi(Q); K is placed at a log-uniform relative distance 10^-3 .. 0.5 below K* (two solutions close to each other,
    slowly converging iteration) or (25%) above it (no solution); p/h log-uniform in 0.3..20"""
    for _ in range(50):
        h = round(rng.uniform(0.05, 5), 3); p = round(h * math.exp(rng.uniform(math.log(0.3), math.log(20))), 3)
        lam = rng.randint(50, 2000); sd = round(lam * rng.uniform(0.05, 0.4), 2); L = rng.choice([1 / 12, 0.25, 0.5, 1, 2])
        ks = eil_Kstar(h, p, lam, sd * math.sqrt(L))
        side = 'above' if rng.random() < 0.25 else 'below'
        d = 10.0 ** -rng.uniform(0.3, 3)
        if ks > 1e-6: break
    else: return dict(kind='normal', h=h, p=p, K=round(rng.uniform(1, 200), 2), lam=lam, sd=sd, L=L, eil_boundary='never-solvable', tolreq=gen_tolreq(rng))
    K = ks * (1 - d) if side == 'below' else ks * (1 + d)
    return dict(kind='normal', h=h, p=p, K=K, lam=lam, sd=sd, L=L, eil_boundary=side, eil_Kstar=ks, tolreq=gen_tolreq(rng))


BISECT_ITER = [0]


def bisect_mirror(gfun, S, Q, tol, maxit=5000):
    """binary64 transcription of Alg/RQ.v [bisect]; BISECT_ITER[0] = number of halvings done (the fuel the model's run consumes)"""
    lo, hi = S - 5 * Q, S
    r = (lo + hi) / 2
    for it in range(maxit):
        gr, grQ = gfun(r), gfun(r + Q)
        if not abs(gr - grQ) > tol: BISECT_ITER[0] = it; return r
        if gr < grQ: hi = r
        else: lo = r
        r = (lo + hi) / 2
    return None


def check_halvings(chk, who, h, p, Q, tol, cc):
    """C14_r_for_q_terminates: the newsvendor cost is max(h,p)-Lipschitz, so every fuel with max(h,p) * 5Q <= 2^fuel * tol suffices;
    the run that reproduced the implementation's r bit for bit must not have used more halvings than that (+1 for rounding of g)"""
    need = max(h, p) * 5 * Q / tol
    bound = 0 if need <= 1 else math.ceil(math.log2(need))
    chk.extra['bisection_halvings_max'] = max(chk.extra.get('bisection_halvings_max', 0), BISECT_ITER[0])
    chk.extra['bisection_bound_slack_min'] = min(chk.extra.get('bisection_bound_slack_min', 10 ** 9), bound - BISECT_ITER[0])
    if BISECT_ITER[0] > bound + 1:
        chk.fail('%s|halvings-exceed-the-proved-bound' % who, 'Q=%.8g tol=%g h=%g p=%g: %d halvings, but ceil(log2(max(h,p) 5Q / tol)) = %d suffice for a max(h,p)-Lipschitz cost'
                 % (Q, tol, h, p, BISECT_ITER[0], bound), dict(cc, Q=Q))


def oracle_normal(chk, c):
    from stockpyl import rq
    from stockpyl.newsvendor import newsvendor_normal_cost, newsvendor_normal
    import scipy.integrate
    rng = chk.rng
    h, p, K, lam, sd, L = (c[k] for k in ('h', 'p', 'K', 'lam', 'sd', 'L'))
    mu = lam * L; sigma = sd * math.sqrt(L)
    og = NormG(h, p, mu, sigma); S = og.S()
    args = (h, p, K, lam, sd, L)
    cc = dict(c)
    def cost(r, Q): return (K * lam + og.integral(r, r + Q)) / Q
    def call(name, f, *a):
        try: return f(*a)
        except Exception as e:
            chk.fail('%s|raises-%s' % (name, exc_kind(e)), 'valid input raises %s: %s' % (exc_kind(e), str(e)[:160]), dict(cc, call=name)); return None
    # --- r_q_cost vs closed-form integral and vs quad of the own g
    Qe = math.sqrt(2 * K * lam / h)
    for _ in range(2):
        r = S + rng.uniform(-1.5, 0.5) * Qe; Q = Qe * rng.uniform(0.2, 2.5)
        v = call('r_q_cost', rq.r_q_cost, r, Q, *args)
        if v is None: continue
        own = cost(r, Q)
        qd = (K * lam + scipy.integrate.quad(og, r, r + Q, epsabs=1e-11, epsrel=1e-12, limit=200)[0]) / Q
        if not close(own, qd, rel=1e-8):
            chk.broken.append(('harness-error', 'own closed form %.12g vs own quadrature %.12g disagree' % (own, qd)))
        if not (close(v, own, rel=1e-7) and close(v, qd, rel=1e-7)):
            chk.fail('r_q_cost|not-the-documented-integral', 'r_q_cost(r=%.6g,Q=%.6g)=%.12g but (K lam + int g)/Q = %.12g' % (r, Q, v, own), dict(cc, r=r, Q=Q))
    # --- r_q_optimal_r_for_q
    tol = 1e-6
    def check_r_for_q(r, Q, who, tol=tol, slack=None):
        d = og(r) - og(r + Q)
        if slack is None: slack = 1e-9 * max(1.0, abs(og(r)))
        if not abs(d) <= tol * (1 + 1e-6) + slack:
            chk.fail('%s|g(r)!=g(r+Q)' % who, 'Q=%.8g r=%.8g tol=%g: g(r)-g(r+Q)=%.3g exceeds tol' % (Q, r, tol, d), dict(cc, Q=Q)); return
        # S <= r+Q is forced (convex g) when g(S-Q) - g(S) > tol; it was always demanded on the original regimes (default tol,
        # ordinary cost scale), where that gap is large; with small unit costs or a loose caller tolerance it is demanded only
        # when the gap condition holds (otherwise the documented stopping rule can be met left of S: not a violation)
        need_right = (tol == 1e-6 and 'scale' not in c) or og(S - Q) - og(S) > tol * (1 + 1e-6) + slack
        if not (S - 5 * Q - 1e-9 * abs(S) <= r <= S + 1e-9 * abs(S)) or (need_right and not S + 1e-9 * abs(S) <= r + Q + 2e-9 * abs(S)):
            chk.fail('%s|r-outside-bracket' % who, 'Q=%.8g r=%.8g S=%.8g: need S-5Q <= r <= S <= r+Q' % (Q, r, S), dict(cc, Q=Q)); return
        c0 = cost(r, Q)
        for dlt in (-0.3, -0.03, -0.003, 0.003, 0.03, 0.3):
            c1 = cost(r + dlt * Q, Q)
            if c1 < c0 - tol * abs(dlt) - 1e-9 * abs(c0):
                chk.fail('%s|r-not-minimising' % who, 'Q=%.8g: cost(r=%.8g)=%.12g > cost(r%+.3gQ)=%.12g' % (Q, r, c0, dlt, c1), dict(cc, Q=Q)); return
    Q = Qe * rng.uniform(0.3, 2.0)
    r = call('r_q_optimal_r_for_q', rq.r_q_optimal_r_for_q, Q, h, p, lam, sd, L)
    if r is not None:
        r = float(r); check_r_for_q(r, Q, 'r_q_optimal_r_for_q')
        # loop structure: binary64 transcription of the model's bisection on the implementation's own g and S
        Simpl = newsvendor_normal(h, p, mu, sigma)[0]
        rm = bisect_mirror(lambda x: newsvendor_normal_cost(x, h, p, mu, sigma), Simpl, Q, tol)
        chk.traces += 1
        if rm is None or float(rm) != r:
            chk.mismatch('bisection: transcription of the model gives r=%r, implementation %r' % (rm, r), dict(cc, Q=Q))
        else: check_halvings(chk, 'r_q_optimal_r_for_q', h, p, Q, tol, cc)
    # --- r_q_optimal_r_for_q with a caller-supplied tolerance (documented stopping rule |g(r) - g(r+Q)| <= tol)
    tr = c.get('tolreq')
    if tr:
        Qt = Qe * tr['qf']
        Simpl = newsvendor_normal(h, p, mu, sigma)[0]
        # binary64 resolution of g(r) - g(r+Q) on the bracket: a tolerance below it can never be met (the loop of the implementation
        # has no iteration limit), so the requested tolerance is raised to 1000 x that resolution
        noise = 1e-15 * (h + p) * (abs(Simpl) + 6 * Qt + abs(mu) + sigma)
        tolc = max(tr['tol'], 1000 * noise)
        chk.count('tol_requested=%s' % ('default' if tolc == 1e-6 else 'tighter' if tolc < 1e-6 else 'looser'))
        gi = lambda x: newsvendor_normal_cost(x, h, p, mu, sigma)
        rm = bisect_mirror(gi, Simpl, Qt, tolc)
        if rm is None:      # (not observed) the transcription does not stop within 5000 halvings: do not call the implementation
            chk.extra['tol_below_resolution_skipped'] = chk.extra.get('tol_below_resolution_skipped', 0) + 1
        else:
            r = call('r_q_optimal_r_for_q', lambda *a: rq.r_q_optimal_r_for_q(*a, tol=tolc), Qt, h, p, lam, sd, L)
            if r is not None:
                r = float(r)
                check_r_for_q(r, Qt, 'r_q_optimal_r_for_q(tol)', tol=tolc, slack=min(10 * noise, 1e-9 * max(1.0, abs(og(r)))))
                chk.traces += 1
                if float(rm) != r:
                    chk.mismatch('bisection with tol=%g: transcription of the model gives r=%r, implementation %r' % (tolc, rm, r), dict(cc, Q=Qt))
                else: check_halvings(chk, 'r_q_optimal_r_for_q(tol)', h, p, Qt, tolc, cc)
    # --- approximations
    # default tolerance, then (new) a caller-supplied one: tighter or looser for EIL, looser only for the loss-function iteration
    # (its inner fsolve has a relative x-tolerance of 1.49e-8, so a tighter outer tolerance is not meaningful there)
    tfp = tr['tol_fp'] if tr else None
    eil_ref = None
    for tl in [None] + ([tfp] if tfp else []):
        if tl is None: v = call('r_q_eil_approximation', rq.r_q_eil_approximation, *args); who = 'r_q_eil_approximation'; tl = tol
        else: v = call('r_q_eil_approximation', lambda *a: rq.r_q_eil_approximation(*a, tol=tl), *args); who = 'r_q_eil_approximation(tol)'
        if v is not None:
            r, Q, cst = map(float, v)
            if math.isnan(r) or math.isnan(Q):
                chk.extra['eil_nan_outputs'] = chk.extra.get('eil_nan_outputs', 0) + 1
                if EIL_NAN_IS_FAILURE: chk.fail('r_q_eil_approximation|nan', 'returns nan', cc)
                # (nan, nan, nan) is not a solution of (5.16)-(5.18): it is tolerated only where the equations have none.  Independent
                # existence test: own run of the documented Algorithm 5.1 from Q = EOQ reaches a sign change of the fixed-point map
                if eil_ref is None: eil_ref = [eil_reference(h, p, K, lam, mu, sigma)]
                if eil_ref[0] is not None:
                    chk.fail('%s|nan-although-equations-solvable' % who, 'returns (%r, %r, %r), but the defining equations (5.17), (5.18) are solved by r=%.10g, Q=%.10g '
                             '(reached by Algorithm 5.1 started at the EOQ; own computation)' % (r, Q, cst, eil_ref[0][0], eil_ref[0][1]), cc)
                else: chk.count('eil_nan_and_no_solution_found_independently')
            else:
                n = og.n(r)
                if who == 'r_q_eil_approximation': chk.count('eil_r<mu' if r < mu else 'eil_r>=mu')
                if not close(h * Q * Q, 2 * lam * (K + p * n)):
                    chk.fail('%s|Q-equation' % who, 'h Q^2=%.12g vs 2 lam (K + p n(r))=%.12g' % (h * Q * Q, 2 * lam * (K + p * n)), cc)
                if abs(og.cdf(r) - (1 - Q * h / (p * lam))) > (h / (p * lam)) * tl * 1.01 + 1e-9:
                    chk.fail('%s|r-equation' % who, 'tol=%g: F(r)=%.12g vs 1 - Q h/(p lam)=%.12g' % (tl, og.cdf(r), 1 - Q * h / (p * lam)), cc)
                own = h * (r - mu + Q / 2) + K * lam / Q + p * lam * n / Q
                if not close(own, cst):
                    chk.fail('%s|cost' % who, 'reported %.12g, formula %.12g' % (cst, own), cc)
    for tl in [None] + ([tfp] if tfp and tfp >= 1e-5 else []):
        if tl is None: v = call('r_q_loss_function_approximation', rq.r_q_loss_function_approximation, *args); who = 'r_q_loss_function_approximation'; tl = tol
        else: v = call('r_q_loss_function_approximation', lambda *a: rq.r_q_loss_function_approximation(*a, tol=tl), *args); who = 'r_q_loss_function_approximation(tol)'
        if v is not None:
            r, Q = map(float, v)
            if math.isnan(r) or math.isnan(Q):
                chk.extra['lossfn_nan_outputs'] = chk.extra.get('lossfn_nan_outputs', 0) + 1
            else:
                if not close(h * Q * Q, 2 * (K * lam + (h + p) * og.n2(r))):
                    chk.fail('%s|Q-equation' % who, 'h Q^2=%.12g vs 2 (K lam + (h+p) n2(r))=%.12g' % (h * Q * Q, 2 * (K * lam + (h + p) * og.n2(r))), cc)
                if abs(og.n(r) - h * Q / (h + p)) > (h / (h + p)) * tl * 1.01 + 1e-7 * max(1.0, h * Q / (h + p)):
                    chk.fail('%s|r-equation' % who, 'tol=%g: n(r)=%.12g vs h Q/(h+p)=%.12g' % (tl, og.n(r), h * Q / (h + p)), cc)
    v = call('r_q_eoqb_approximation', rq.r_q_eoqb_approximation, *args)
    if v is not None:
        r, Q = map(float, v)
        if not close(h * p * Q * Q, 2 * K * lam * (h + p)):
            chk.fail('r_q_eoqb_approximation|Q-equation', 'h p Q^2=%.12g vs 2 K lam (h+p)=%.12g' % (h * p * Q * Q, 2 * K * lam * (h + p)), cc)
        check_r_for_q(r, Q, 'r_q_eoqb_approximation')
    v = call('r_q_eoqss_approximation', rq.r_q_eoqss_approximation, *args)
    if v is not None:
        r, Q = map(float, v)
        if not close(h * Q * Q, 2 * K * lam):
            chk.fail('r_q_eoqss_approximation|Q-equation', 'h Q^2=%.12g vs 2 K lam=%.12g' % (h * Q * Q, 2 * K * lam), cc)
        if abs(og.cdf(r) - p / (p + h)) > 1e-9:
            chk.fail('r_q_eoqss_approximation|r-equation', 'F(r)=%.12g vs p/(p+h)=%.12g' % (og.cdf(r), p / (p + h)), cc)


def explore_normal(chk, n):
    prev = None
    for _ in range(n):
        c = gen_normal(chk.rng, prev); prev = c
        chk.count('kind=normal'); chk.count('normal_sibling=%s' % c.get('sibling', '-')); chk.count('normal_cost_scale=%g' % c.get('scale', 1))
        oracle_normal(chk, c)
        chk.case(c, False)


def explore_eil_boundary(chk, n):
    for _ in range(n):
        c = gen_eil_boundary(chk.rng)
        chk.count('kind=normal'); chk.count('eil_boundary=%s' % c['eil_boundary'])
        oracle_normal(chk, c)
        chk.case(c, False)


# ------------------------------------------------------------------------------------------------
def run(chk):
    chk.rule = RULE
    chk.trusted += ['model Alg/RQ.v is hand-written; r_q_cost_poisson and r_q_poisson_exact are tied to /repo by running the model on the '
                    "implementation's own g and cdf values (exact rationals) and comparing (r, Q) and costs (1e-9; exact on the tie stream); "
                    'the bisection is tied by a binary64 transcription of the model loop compared bit-for-bit; the fixed-point loops of the '
                    'approximations are tied by reading only, their outputs are checked against their defining equations by the oracle '
                    '(a nan output of the EIL iteration against an own run of Algorithm 5.1 that decides whether the equations have a solution)',
                    'oracle hypotheses of C14_poisson_exact_optimal (difference identity of newsvendor_poisson_cost, monotone poisson.cdf) are '
                    'checked numerically on every generated instance, not proved about scipy',
                    'own re-computations used by the oracle: Poisson pmf via exp/lgamma, normal loss functions via math.erfc, closed-form integral '
                    'of the normal newsvendor cost (cross-checked against scipy quad of the own integrand)']
    chk.assume += ['floating-point rounding is not modelled: theorems are over exact rationals (hand-written model) and over the reals (source-generated terms); comparisons use relative tolerance 1e-9 '
                   '(1e-7 for r_q_cost, whose quad call has default tolerance 1.49e-8) and a 1e-7 margin rule for (r,Q) decisions',
                   'library functions (poisson pmf/cdf, norm ppf/cdf/pdf, sqrt, fsolve, quad) are inputs/Section variables of the model with the '
                   'stated hypotheses (squaring error of sqrt at the one argument passed, residual bound of the root finder at the call that produced r, mean-value bounds of the integral)']
    # the closed-form / bisection part of rq.py (and ss.s_s_power_approximation) is REGENERATED from the source before the proofs are checked
    # (gen/Gen_rq.v, gen/Gen_ss.v; theorems C14_gen_* / C13_gen_power_* of Props/C14.v are about these terms): fail-closed
    from props import c14_gen
    import py2v
    errs = py2v.translate_all()
    for q in c14_gen.LOOPFREE + c14_gen.LOOPY:
        if q not in py2v.FUNCS and q not in py2v.LOOPY_FUNCS:
            chk.broken.append(('translator:' + q, dict(errs).get(q, 'function not found in the source') + ' ' + str(py2v.LOOP_ERRORS.get(q, ''))))
    chk.checker_cmd = 'python /verif/py/py2v.py && ' + chk.checker_cmd
    chk.proof()
    c14_gen.gen_tie_stream(chk, 30 if chk.tier == 'quick' else 400)
    if chk.tier == 'quick': n, ntie, nmal, nnorm, nbnd = 120, 8, 30, 80, 16
    else: n, ntie, nmal, nnorm, nbnd = 1500, 60, 200, 1200, 400
    explore_poisson(chk, n, ntie)
    explore_malformed(chk, nmal)
    explore_normal(chk, nnorm)
    explore_eil_boundary(chk, nbnd)
    if (chk.broken or chk.mismatches) and not chk.fails:
        explore_poisson(chk, 6 * n if chk.tier == 'quick' else n, 0, do_model=False)
        if not chk.fails: explore_normal(chk, 4 * nnorm if chk.tier == 'quick' else nnorm)


def replay(chk, rp):
    c = rp['case']
    kind = c.get('kind')
    if kind in ('poisson', 'tie'):
        for pc in c.get('prelude', []): impl_poisson(pc)      # call history
        res = impl_poisson(c); print('implementation:', res)
        mu = c['lam'] * c['L']
        if res[0] != 'ok':
            chk.fail('r_q_poisson_exact|raises-%s' % res[1], res[2], c)
        else:
            Q = res[2]; c['_Qmax'] = min(max(2 * Q + 25, 40), 2 * Q + 400)
            og = PoisG(c['h'], c['p'], mu, int(mu + 12 * math.sqrt(mu) + 3 * c['_Qmax'] + 60 + abs(c.get('r', 0)) + c.get('Q', 0)))
            S, Sm = og.S()
            for sig, what in oracle_poisson(c, res, og, S, Sm): chk.fail(sig, what, c)
            if 'r' in c and 'Q' in c: check_cost_call(chk, c, int(c['r']), int(c['Q']), og)
            else: check_cost_call(chk, c, res[1], res[2], og)
    elif kind == 'normal':
        for pc in c.get('prelude', []): oracle_normal(chk, pc)
        oracle_normal(chk, c)
    elif kind == 'malformed_r_q_cost':
        from stockpyl import rq
        try: got = ('ok', rq.r_q_cost(c['r'], c['Q'], c['h'], c['p'], c['K'], c['lam'], c['sd'], c['L']))
        except Exception as e: got = ('err', exc_kind(e))
        print('implementation:', got)
        if (c['which'] == 'none') != (got[0] == 'ok') or (got[0] == 'err' and got[1] != 'ValueError'):
            chk.fail('r_q_cost|malformed-%s' % c['which'], repr(got), c)
    elif kind == 'malformed':
        from stockpyl import rq
        try: got = ('ok', rq.r_q_cost_poisson(c['r'], c['Q'], c['h'], c['p'], c['K'], c['lam'], c['L']))
        except Exception as e: got = ('err', exc_kind(e))
        print('implementation:', got)
        if got != ('err', 'ValueError') and not (c['which'] == 'Q0' and got == ('err', 'ZeroDivisionError')):
            chk.fail('r_q_cost_poisson|malformed-%s-accepted' % c['which'], repr(got), c)
    chk.case({k: v for k, v in c.items() if not k.startswith('_')})
