"""C09 -- loss functions equal their definitions.

Every run: (T) py2v regenerates coq/gen/Gen_loss_functions.v from the CURRENT source, make, Props/C09.v (theorems about the
regenerated closed forms at the reals + the hand-written pmf-dict model over Q);  (a) translator validation: the same terms
at FOps (binary64, vm_compute, library calls replaced by values recorded on the same inputs) must be bit-identical to the
running Python functions;  (a') exact correspondence of Alg/LossDiscrete.v with discrete_loss / discrete_second_loss (pmf
dict);  (b) oracles on the implementation for every family: closed form vs generic numerical version vs independent
quadrature / summation (1e-7), difference identity, non-negativity, monotonicity, second-order pairs."""
import importlib, math, warnings
from fractions import Fraction
import numpy as np
from vlib import *
import py2v
from props import c10_tie as tie
from props.c10 import pos, quad, dist_expect, gen_pmf

RULE = ('Per distribution family (standard normal, normal, lognormal, exponential, gamma, continuous uniform, arbitrary continuous '
        'scipy distributions, Poisson, geometric, negative binomial in both parametrisations, arbitrary discrete as scipy object and as '
        'pmf dict): random parameters (uniform / multiples of 1/4 / log-uniform), a sorted grid of 8-12 arguments x across and beyond the '
        'bulk of the distribution (integers for the discrete families), plus a malformed stream (non-integer x, x outside [a,b], '
        'inconsistent negative-binomial arguments). Arbitrary discrete scipy objects beyond the families with a closed form: frozen randint / binom / '
        'hypergeom / betabinom / boltzmann / planck / logser / nhypergeom and Poisson / geometric / negative binomial, each with loc = 0 or a '
        'shift (geometric also loc = -1), and a user-defined rv_discrete subclass given by its pmf; x = 0, 1, bottom of the support, mean, top of '
        'the support and 1-4 above it, and random integers in between. Arbitrary continuous distributions with a heavy right tail on a support '
        'bounded below (pareto, lomax, invgamma, fisk, burr12, genpareto, lognormal with sigma > 1.2; tail index >= 1.5, variance finite '
        'or infinite; random loc and scale): x at 6 quantiles 0.001 - 0.99999 and below the support; there the complementary values are compared '
        'with the defining integrals over [bottom of the support, x], all four values are checked for finiteness, sign and monotonicity. '
        'pmf dicts: 1-8 distinct integer keys in 0..39 with probabilities in 64ths, in a quarter of the cases one or two more keys of probability 0, '
        'inserted in ascending, descending, random or decreasing-probability order (the replay keeps the order). Negative binomial by (mean, sd): half '
        'of the cases draw the two moments directly (mean a multiple of 1/4 or uniform in 0.5-40, variance/mean in 1.05-6, sd as is or rounded up to a '
        'multiple of 1/4), so that the implied r is an arbitrary positive real; the other half derives them from (r, p) with r mostly an integer. '
        'Arguments documented as IGNORED are passed as well: negative binomial with r, p AND mean, sd in one call (positionally or by keyword) -- the mean / sd being the '
        'moments of NB(r, p), those rounded to 2 decimals, the moments of another negative binomial, scaled ones, or sd^2 <= mean -- judged against NB(r, p) '
        '("ignored if r and p are both provided"); discrete_loss / discrete_second_loss with a scipy object AND the pmf dict of another distribution (a quarter of '
        'the scipy-object cases; "ignored if distrib is not None"), judged against the object. '
        'Call sequences (state carried from one distribution object to the next): 40% of the pmf / scipy-object cases are preceded, in the same process and '
        'recorded in the case, by the evaluation of another distribution of the same kind -- a pmf with the same smallest and largest value, the same scipy '
        'family with other parameters, a user-defined subclass with the same first support point (always). '
        'One case = one (family, parameters, x grid) with first- and second-order pairs. '
        'non-trivial = both n and nbar strictly positive at some grid point; distinct = distinct (family, parameters).')
TOL = 1e-7
TOL_GENERIC = 2e-6      # continuous_loss / continuous_second_loss integrate with scipy quad without break points: densities with kinks (triangular) reach ~5e-7
C09_TRANSLATED = [q for q in py2v.EXPECTED if q.startswith('loss_functions.')]


def lf():
    return importlib.import_module('stockpyl.loss_functions')


# ------------------------------------------------------------------------------------------------ generators for the tie
def gen_args(q, rng):
    f = q.split('.', 1)[1]
    inv = rng.random() < 0.1
    if f.startswith('standard_normal'):
        return dict(z=rng.choice([rng.uniform(-5, 5), rng.randint(-16, 16) / 4]))
    if f.startswith('normal'):
        m = pos(rng, 0, 3); return dict(x=m + rng.uniform(-4, 4) * m * .3, mean=m, sd=m * rng.uniform(.02, .6))
    if f == 'lognormal_loss':
        mu, s = rng.uniform(-1, 5), rng.uniform(.1, 1.2)
        return dict(x=(math.exp(mu) * rng.uniform(.05, 4) if rng.random() < .85 else rng.choice([0.0, -1.5])), mu=mu, sigma=s)
    if f.startswith('exponential'):
        mu = pos(rng, -2, 1); return dict(x=(rng.uniform(0, 6) / mu if not inv else -1.0), mu=mu)
    if f.startswith('gamma'):
        a, b = rng.uniform(.5, 12), pos(rng, -1, 2); return dict(x=(a * b * rng.uniform(.02, 3) if not inv else rng.choice([0.0, -2.0])), a=a, b=b)
    if f.startswith('uniform'):
        a = rng.uniform(-50, 100); b = a + pos(rng, -1, 2)
        x = rng.choice([a, b, rng.uniform(a, b), rng.uniform(a, b)]) if not inv else rng.choice([a - 1, b + 1])
        return dict(x=x, a=a, b=b)
    if f.startswith('poisson'):
        m = rng.choice([rng.uniform(.3, 40), float(rng.randint(1, 30))])
        return dict(x=(float(rng.randint(0, int(2 * m + 10))) if not inv else 2.5), mean=m)
    if f.startswith('geometric'):
        p = rng.uniform(.03, .95); return dict(x=(float(rng.randint(0, int(4 / p) + 3)) if not inv else 1.5), p=p)
    if f.startswith('negative_binomial'):
        r, p = float(rng.randint(1, 12)) if rng.random() < .7 else rng.uniform(.5, 9), rng.uniform(.05, .9)
        mean = (1 - p) * r / p; sd = math.sqrt((1 - p) * r) / p
        x = float(rng.randint(0, int(mean + 4 * sd) + 2))
        form = rng.choice(['rp', 'ms', 'all', 'r-only', 'none', 'bad-ms'] if inv else ['rp', 'rp', 'ms', 'ms', 'all'])
        a = dict(x=x, r=None, p=None, mean=None, sd=None)
        if form in ('rp', 'all'): a.update(r=r, p=p)
        if form in ('ms', 'all'): a.update(mean=mean, sd=sd)
        if form == 'r-only': a.update(r=r, mean=mean)
        if form == 'bad-ms': a.update(mean=mean, sd=math.sqrt(mean) * .9)
        if inv and rng.random() < .3: a['x'] = x + .5
        return a
    raise KeyError(q)


# ------------------------------------------------------------------------------------------------ oracle
class O:
    def __init__(self, chk): self.chk = chk

    def call(self, sig, fn, case, *a, **k):
        with warnings.catch_warnings():
            warnings.simplefilter('ignore')
            try:
                r = fn(*a, **k)
                return float(r[0]), float(r[1])
            except Exception as e:
                self.chk.fail('%s|raises-%s' % (sig, exc_kind(e)), '%s%r raised %s: %s' % (sig, a, exc_kind(e), str(e)[:160]), case)
                return None

    def near(self, a, b, scale, tol=TOL):
        return abs(a - b) <= tol * max(1.0, abs(scale))

    def pair(self, sig, what, got, want, case, scale, tol=TOL):
        if got is None or want is None: return
        for i, nm in enumerate(('n', 'nbar')):
            if not (math.isfinite(got[i]) and self.near(got[i], want[i], scale, tol)):
                self.chk.fail('%s|%s' % (sig, what), '%s: closed form %s = %r, %s gives %r' % (sig, nm, got[i], what, want[i]), case)


def family_check(o, sig, case, xs, closed, generic, truth, mean, second=False, var=None, discrete=False, scale=1.0, gen_tol=TOL, id_tol=1e-9, truth_tol=TOL):
    """xs sorted. closed(x) / generic(x) / truth(x) -> (n, nbar) (generic / truth may be None).
    first order:  nbar - n = x - mean, both >= 0, n non-increasing, nbar non-decreasing
    second order: n2 + n2bar = 1/2 ((x-mean)^2 + var [+ (x - mean) for integer-valued X]), both >= 0, same monotonicity"""
    prev = None; nontriv = False
    for x in xs:
        c = dict(case, x=x)
        v = closed(x)
        if v is None: continue
        sc = max(scale, abs(x - mean)) ** (2 if second else 1)
        if truth is not None: o.pair(sig, 'independent-quadrature/summation', v, truth(x), c, sc, truth_tol)
        if generic is not None: o.pair(sig, 'generic-numerical-version', v, generic(x), c, sc, gen_tol)
        if not second:
            want = x - mean
            if not o.near(v[1] - v[0], want, sc, id_tol): o.chk.fail(sig + '|difference-identity', 'nbar - n = %r but x - E[X] = %r' % (v[1] - v[0], want), c)
        else:
            want = 0.5 * ((x - mean) ** 2 + var + ((x - mean) if discrete else 0.0))
            if not o.near(v[0] + v[1], want, sc, id_tol): o.chk.fail(sig + '|complement-identity', 'n2 + n2bar = %r but the moment expression gives %r' % (v[0] + v[1], want), c)
        if min(v) < -1e-9 * max(1.0, sc): o.chk.fail(sig + '|negative', 'returned %r' % (v,), c)
        if prev is not None:
            if v[0] > prev[1][0] + 1e-9 * max(1.0, sc) or v[1] < prev[1][1] - 1e-9 * max(1.0, sc):
                o.chk.fail(sig + '|not-monotone', 'at x=%r: %r, at x=%r: %r' % (prev[0], prev[1], x, v), c)
        prev = (x, v)
        if v[0] > 1e-9 and v[1] > 1e-9: nontriv = True
    return nontriv


def cont_truth(dist, second):
    def t(x):
        if not second:
            return (dist_expect(dist, lambda y: max(y - x, 0.0), x), dist_expect(dist, lambda y: max(x - y, 0.0), x))
        return (0.5 * dist_expect(dist, lambda y: max(y - x, 0.0) ** 2, x), 0.5 * dist_expect(dist, lambda y: max(x - y, 0.0) ** 2, x))
    return t


def disc_truth(dist, second, lo=0):
    hi = int(dist.ppf(1 - 1e-15)) + 80
    ks = np.arange(lo, hi + 1); pm = dist.pmf(ks)
    def t(x):
        up = np.maximum(ks - x, 0); dn = np.maximum(x - ks, 0)
        if not second: return (float(np.sum(pm * up)), float(np.sum(pm * dn)))
        return (0.5 * float(np.sum(pm * up * (up - 1))), 0.5 * float(np.sum(pm * dn * (dn + 1))))
    return t


def o_continuous_family(o, rng, fam):
    from scipy import stats
    L = lf()
    if fam == 'standard_normal':
        dist = stats.norm(); pars = {}; c1 = lambda x: L.standard_normal_loss(x); c2 = lambda x: L.standard_normal_second_loss(x)
        xs = sorted(rng.uniform(-5, 5) for _ in range(10)); mean, var = 0.0, 1.0
    elif fam == 'normal':
        m = pos(rng, 0, 3); s = m * rng.uniform(.02, .6); dist = stats.norm(m, s); pars = dict(mean=m, sd=s)
        c1 = lambda x: L.normal_loss(x, m, s); c2 = lambda x: L.normal_second_loss(x, m, s)
        xs = sorted(m + s * rng.uniform(-5, 5) for _ in range(10)); mean, var = m, s * s
    elif fam == 'lognormal':
        mu, s = rng.uniform(-1, 5), rng.uniform(.1, 1.0); dist = stats.lognorm(s, scale=math.exp(mu)); pars = dict(mu=mu, sigma=s)
        c1 = lambda x: L.lognormal_loss(x, mu, s); c2 = None
        xs = sorted([float(dist.ppf(q)) for q in (1e-4, .01, .1, .3, .5, .7, .9, .99, .9999)] + [0.0, -1.0]); mean, var = float(dist.mean()), float(dist.var())
    elif fam == 'exponential':
        mu = pos(rng, -2, 1); dist = stats.expon(scale=1 / mu); pars = dict(mu=mu)
        c1 = lambda x: L.exponential_loss(x, mu); c2 = lambda x: L.exponential_second_loss(x, mu)
        xs = sorted([0.0] + [rng.uniform(0, 8) / mu for _ in range(9)]); mean, var = 1 / mu, 1 / mu ** 2
    elif fam == 'gamma':
        a, b = rng.uniform(.6, 12), pos(rng, -1, 2); dist = stats.gamma(a, scale=b); pars = dict(a=a, b=b)
        c1 = lambda x: L.gamma_loss(x, a, b); c2 = lambda x: L.gamma_second_loss(x, a, b)
        xs = sorted(float(dist.ppf(q)) for q in (1e-4, .01, .1, .3, .5, .7, .9, .99, .9999)); mean, var = a * b, a * b * b
    else:
        a = rng.uniform(-50, 100); b = a + pos(rng, -1, 2); dist = stats.uniform(a, b - a); pars = dict(a=a, b=b)
        c1 = lambda x: L.uniform_loss(x, a, b); c2 = lambda x: L.uniform_second_loss(x, a, b)
        xs = sorted([a, b] + [rng.uniform(a, b) for _ in range(8)]); mean, var = (a + b) / 2, (b - a) ** 2 / 12
    case = dict(family=fam, **pars)
    sd = math.sqrt(var)
    nt = family_check(o, fam + '_loss', case, xs, lambda x: o.call(fam + '_loss', c1, dict(case, x=x), x),
                      lambda x: o.call('continuous_loss', L.continuous_loss, dict(case, x=x), x, dist), cont_truth(dist, False), mean, scale=sd)
    if c2 is not None:
        xs2 = [x for x in xs if fam != 'lognormal']
        family_check(o, fam + '_second_loss', case, xs2, lambda x: o.call(fam + '_second_loss', c2, dict(case, x=x), x),
                     lambda x: o.call('continuous_second_loss', L.continuous_second_loss, dict(case, x=x), x, dist), cont_truth(dist, True), mean, second=True, var=var, scale=sd)
    return case, nt


def o_generic_continuous(o, rng):
    """continuous_loss / continuous_second_loss themselves on distributions without a closed form here"""
    from scipy import stats
    L = lf()
    k = rng.choice(['weibull', 'beta', 'triang', 'chi2'])
    if k == 'weibull': pars = [rng.uniform(.8, 4), rng.uniform(1, 50)]; dist = stats.weibull_min(pars[0], scale=pars[1])
    elif k == 'beta': pars = [rng.uniform(1.2, 6), rng.uniform(1.2, 6), rng.uniform(1, 40)]; dist = stats.beta(pars[0], pars[1], scale=pars[2])
    elif k == 'triang': pars = [rng.uniform(.1, .9), rng.uniform(0, 20), rng.uniform(2, 40)]; dist = stats.triang(pars[0], pars[1], pars[2])
    else: pars = [rng.uniform(2, 12)]; dist = stats.chi2(pars[0])
    case = dict(family='continuous:' + k, parameters=pars)
    xs = sorted(float(dist.ppf(q)) for q in (.001, .05, .25, .5, .75, .95, .999))
    mean, var = float(dist.mean()), float(dist.var())
    nt = family_check(o, 'continuous_loss', case, xs, lambda x: o.call('continuous_loss', L.continuous_loss, dict(case, x=x), x, dist), None, cont_truth(dist, False), mean, scale=math.sqrt(var), id_tol=TOL_GENERIC, truth_tol=TOL_GENERIC)
    family_check(o, 'continuous_second_loss', case, xs, lambda x: o.call('continuous_second_loss', L.continuous_second_loss, dict(case, x=x), x, dist), None, cont_truth(dist, True), mean, second=True, var=var, scale=math.sqrt(var), id_tol=TOL_GENERIC, truth_tol=TOL_GENERIC)
    return case, nt


NB_BOTH = 'negative_binomial(r,p;mean,sd)'


def o_discrete_family(o, rng, fam, params=None):
    """params (replay of the NB_BOTH family): the recorded r, p, mean, sd"""
    from scipy import stats
    L = lf()
    if fam == 'poisson':
        m = rng.choice([rng.uniform(.3, 40), float(rng.randint(1, 30))]); dist = stats.poisson(m); pars = dict(mean=m)
        c1 = lambda x: L.poisson_loss(x, m); c2 = lambda x: L.poisson_second_loss(x, m); lo = 0
    elif fam == 'geometric':
        p = rng.uniform(.03, .95); dist = stats.geom(p); pars = dict(p=p)
        c1 = lambda x: L.geometric_loss(x, p); c2 = lambda x: L.geometric_second_loss(x, p); lo = 1
    else:
        r = float(rng.randint(1, 12)) if rng.random() < .7 else rng.uniform(.5, 9); p = rng.uniform(.05, .9)
        lo = 0
        if fam == 'negative_binomial(r,p)':
            dist = stats.nbinom(r, p)
            pars = dict(r=r, p=p); c1 = lambda x: L.negative_binomial_loss(x, r, p); c2 = lambda x: L.negative_binomial_second_loss(x, r, p)
        elif fam == NB_BOTH:
            # BOTH parametrisations in one call: mean and sd are documented as "ignored if r and p are both provided", so the distribution is NB(r, p)
            # whatever is passed for them -- the moments of NB(r, p) themselves (exact or rounded to 2 decimals, as a caller who keeps all four in one
            # record would pass them), or the mean / sd of some other forecast (other NB moments, or sd^2 <= mean which is no NB at all)
            em, es = float(stats.nbinom(r, p).mean()), float(stats.nbinom(r, p).std())
            how = rng.choice(['moments of NB(r,p)', 'moments of NB(r,p), rounded', 'other NB moments', 'other NB moments', 'scaled', 'sd^2 <= mean'])
            if how == 'moments of NB(r,p)': mm, ss = em, es
            elif how == 'moments of NB(r,p), rounded': mm, ss = round(em, 2), round(es, 2)
            elif how == 'other NB moments': mm = rng.choice([rng.randint(2, 160) / 4, rng.uniform(.5, 40)]); ss = math.sqrt(mm * rng.uniform(1.05, 6))
            elif how == 'scaled': mm, ss = em * rng.choice([.5, 1.0, 2.0]), es * rng.choice([.5, 1.5])
            else: mm = rng.uniform(1, 40); ss = math.sqrt(mm) * rng.uniform(.3, 1.0)
            if params is not None: r, p, mm, ss, how = params['r'], params['p'], params['mean'], params['sd'], params.get('mean_sd_passed', 'replayed')
            dist = stats.nbinom(r, p)
            pars = dict(r=r, p=p, mean=mm, sd=ss, mean_sd_passed=how); o.chk.count('negative_binomial r, p AND mean, sd: ' + how)
            if rng.random() < .5: c1 = lambda x: L.negative_binomial_loss(x, r, p, mm, ss); c2 = lambda x: L.negative_binomial_second_loss(x, r, p, mm, ss)
            else: c1 = lambda x: L.negative_binomial_loss(x, mean=mm, sd=ss, r=r, p=p); c2 = lambda x: L.negative_binomial_second_loss(x, sd=ss, mean=mm, p=p, r=r)
        else:
            # the two moments are the INPUT here (as when they are estimated from data): half of the cases draw (mean, sd) directly -- round numbers
            # (multiples of 1/4) or uniform, any sd^2 > mean -- so that the implied r = mean^2 / (sd^2 - mean) is an arbitrary positive real (from
            # 0.1 to 800); the other half derives them from an (r, p) pair with r mostly an integer. The oracle's distribution is the
            # negative binomial that HAS these two moments.
            if rng.random() < .5:
                mm = rng.choice([rng.randint(2, 160) / 4, rng.uniform(.5, 40)])
                ss = math.sqrt(mm * rng.uniform(1.05, 6))                         # variance / mean = 1 / p in [1.05, 6]
                if rng.random() < .5: ss = math.ceil(4 * ss) / 4
            else:
                mm, ss = float(stats.nbinom(r, p).mean()), float(stats.nbinom(r, p).std())
            pars = dict(mean=mm, sd=ss)
            dist = stats.nbinom(mm * mm / (ss * ss - mm), mm / (ss * ss))
            c1 = lambda x: L.negative_binomial_loss(x, mean=mm, sd=ss); c2 = lambda x: L.negative_binomial_second_loss(x, mean=mm, sd=ss)
    case = dict(family=fam, **pars)
    mean, var = float(dist.mean()), float(dist.var()); sd = math.sqrt(var)
    hi = int(mean + 6 * sd) + 3
    xs = sorted({0, 1, int(mean), int(mean) + 1, hi} | {rng.randint(0, hi) for _ in range(7)})
    xs = [-2] + xs                                                              # below the support: E (X - x)^+ = E X - x
    t1, t2 = disc_truth(dist, False, lo), disc_truth(dist, True, lo)
    gen1 = lambda x: o.call('discrete_loss(distrib)', L.discrete_loss, dict(case, x=x), x, dist) if x >= 0 else None
    gen2 = lambda x: o.call('discrete_second_loss(distrib)', L.discrete_second_loss, dict(case, x=x), x, dist) if x >= 0 else None
    nt = family_check(o, fam.split('(')[0] + '_loss' + fam[len(fam.split('(')[0]):], case, xs, lambda x: o.call(fam + '_loss', c1, dict(case, x=x), x), gen1, t1, mean, discrete=True, scale=sd)
    family_check(o, fam.split('(')[0] + '_second_loss' + fam[len(fam.split('(')[0]):], case, xs, lambda x: o.call(fam + '_second_loss', c2, dict(case, x=x), x), gen2, t2, mean, second=True, var=var, discrete=True, scale=sd)
    return case, nt


# ---- arbitrary discrete distributions given as scipy objects (no closed form here): other families, shifted supports, finite supports
GENERIC_DISCRETE = ['randint', 'binom', 'hypergeom', 'betabinom', 'boltzmann', 'planck', 'logser', 'nhypergeom', 'poisson', 'geom', 'nbinom', 'custom-pmf']
# (zipf / yulesimon / zipfian-like power tails are left out: the direct summation used as the oracle would itself have to be truncated)


def gen_discrete_params(rng, k):
    if k == 'randint': lo = rng.randint(0, 8); return [lo, lo + rng.randint(1, 40)]
    if k == 'binom': return [rng.randint(1, 60), rng.uniform(.05, .95)]
    if k == 'hypergeom': M = rng.randint(5, 60); return [M, rng.randint(1, M), rng.randint(1, M)]
    if k == 'betabinom': return [rng.randint(1, 40), rng.uniform(.3, 5), rng.uniform(.3, 5)]
    if k == 'boltzmann': return [rng.uniform(.05, 1.5), rng.randint(2, 40)]
    if k == 'planck': return [rng.uniform(.05, 1.5)]
    if k == 'logser': return [rng.uniform(.1, .95)]
    if k == 'nhypergeom': M = rng.randint(5, 40); n = rng.randint(1, M - 1); return [M, n, rng.randint(1, M - n)]
    if k == 'poisson': return [rng.choice([rng.uniform(.3, 30), float(rng.randint(1, 30))])]
    if k == 'geom': return [rng.uniform(.05, .9)]
    if k == 'nbinom': return [rng.uniform(.5, 9), rng.uniform(.05, .9)]
    return [rng.uniform(.1, .8), rng.randint(0, 6)]                              # user-defined subclass: geometric pmf on {start, start+1, ...}, as in the docstring of discrete_loss


def gen_generic_discrete(rng):
    k = rng.choice(GENERIC_DISCRETE)
    loc = rng.choice([0, 0, rng.randint(1, 15), rng.randint(1, 15)])          # a frozen scipy distribution may be shifted; the documented domain is a non-negative support
    a = gen_discrete_params(rng, k)
    if k == 'geom': loc = rng.choice([-1, loc, loc])                             # geom(p, loc=-1): number of failures, support from 0
    elif k == 'custom-pmf': loc = 0
    # call sequences: in 40% of the cases (always tried for the user-defined subclass, whose objects all carry scipy's default name) ANOTHER distribution
    # of the same kind, with the same loc / the same bottom of the support but other parameters, is evaluated first in the same process
    before = None
    if k == 'custom-pmf' or rng.random() < .4:
        before = gen_discrete_params(rng, k)
        if k == 'custom-pmf': before[1] = a[1]
        if before == a: before = None
    return k, a, loc, before


def mk_discrete(k, a, loc):
    from scipy import stats
    if k == 'custom-pmf':
        p, start = a
        class my_geom(stats.rv_discrete):
            def _pmf(self, y): return np.where(y >= start, ((1 - p) ** (y - start)) * p, 0)
        return my_geom(a=start)
    return getattr(stats, k)(*a, loc=loc)


def check_generic_discrete(o, case, rng=None):
    """case: family 'discrete-scipy:<kind>', parameters, loc [, xs]. Oracle = direct summation of the pmf over the true support."""
    k = case['family'].split(':', 1)[1]; L = lf()
    if case.get('preceded_by'):                             # another distribution of the same kind is evaluated first (its values are examined in its own cases)
        d0 = mk_discrete(k, case['preceded_by'], case['loc']); x0 = max(0, int(d0.support()[0])) + 2
        o.call('discrete_loss(distrib)', L.discrete_loss, dict(case, x=x0), x0, d0); o.call('discrete_second_loss(distrib)', L.discrete_second_loss, dict(case, x=x0), x0, d0)
    dist = mk_discrete(k, case['parameters'], case['loc'])
    lo, hi = dist.support(); lo = int(lo)
    if math.isfinite(hi): hs = int(hi)
    else:                                                   # all infinite-support families here have (at least) geometric tails: sum until the pmf is negligible
        hs = lo + 64
        while not (float(dist.pmf(hs)) < 1e-22 and float(dist.pmf(hs // 2)) < 1e-11): hs = lo + 2 * (hs - lo)
    ks = np.arange(lo, hs + 1); pm = dist.pmf(ks)
    top = hs if math.isfinite(hi) else int(ks[min(len(ks) - 1, int(np.searchsorted(np.cumsum(pm), 1 - 1e-4)))])
    mean = float(np.sum(pm * ks)); var = float(np.sum(pm * (ks - mean) ** 2)); sd = math.sqrt(var) if var > 0 else 1.0
    if 'xs' not in case:
        case = dict(case, xs=sorted(x for x in {0, 1, lo, lo + 1, int(mean), int(mean) + 1, top, top + 1, top + 2, top + 4} | {rng.randint(0, top + 3) for _ in range(5)} if x >= 0))
    def t(second):
        def f(x):
            up = np.maximum(ks - x, 0); dn = np.maximum(x - ks, 0)
            if not second: return (float(np.sum(pm * up)), float(np.sum(pm * dn)))
            return (0.5 * float(np.sum(pm * up * (up - 1))), 0.5 * float(np.sum(pm * dn * (dn + 1))))
        return f
    tol = dict(id_tol=1e-7, truth_tol=TOL) if k == 'custom-pmf' else {}        # scipy computes the mean of a user-defined pmf by a truncated sum (~1e-8)
    # both ways of giving the distribution in one call: pmf is documented as "ignored if distrib is not None", so the values are those of the object
    extra = ({int(kk): float(F(v)) for kk, v in case['ignored_pmf'].items()},) if case.get('ignored_pmf') else ()
    sfx = '(distrib+ignored-pmf)' if extra else '(distrib)'
    nt = family_check(o, 'discrete_loss' + sfx, case, case['xs'], lambda x: o.call('discrete_loss' + sfx, L.discrete_loss, dict(case, x=x), x, dist, *extra), None, t(False), mean, discrete=True, scale=sd, **tol)
    family_check(o, 'discrete_second_loss' + sfx, case, case['xs'], lambda x: o.call('discrete_second_loss' + sfx, L.discrete_second_loss, dict(case, x=x), x, dist, *extra), None, t(True), mean,
                 second=True, var=var, discrete=True, scale=sd, **tol)
    return case, nt


def o_generic_discrete(o, rng):
    k, a, loc, before = gen_generic_discrete(rng)
    case = dict(family='discrete-scipy:' + k, parameters=a, loc=loc, **(dict(preceded_by=before) if before else {}))
    if rng.random() < .25:                                  # a pmf dict of some OTHER distribution passed next to the object (documented as ignored)
        case['ignored_pmf'] = {str(kk): v for kk, v in sorted(gen_pmf(rng).items())}; o.chk.count('discrete_loss(distrib) with an ignored pmf dict as well')
    return check_generic_discrete(o, case, rng)


# ---- arbitrary continuous distributions with a heavy right tail (finite mean, variance finite or infinite), support bounded below
HEAVY = ['pareto', 'lomax', 'invgamma', 'fisk', 'burr12', 'genpareto', 'lognorm']
# (loglaplace is left out: its density has a cusp at the scale point and the library integrates without break points -- 2e-6 off there, the accuracy
#  limit that TOL_GENERIC already allows for triangular densities; that is unrelated to the tail)


def gen_heavy_tail(rng):
    """tail index (the largest finite moment) >= 1.5: mean finite, variance finite or infinite.
    EXCLUDED, reported to the lead: tail index < 1.5. There the quadrature of continuous_loss over [x, ppf(1 - 1e-10)] (a range of 10^7 and more scale
    units) loses most of n, e.g. continuous_loss(x, pareto(1.2)) = 1.12 at x = 1.78 (true value 4.36) and 3.20 at x = 6.77 (n increasing in x)."""
    k = rng.choice(HEAVY)
    if k in ('pareto', 'lomax', 'invgamma'): a = [rng.choice([rng.uniform(1.5, 2.0), rng.uniform(2.0, 4.0)])]      # tail index a: variance infinite below 2
    elif k == 'fisk': a = [rng.uniform(1.5, 4)]
    elif k == 'burr12': a = [rng.uniform(1, 3), rng.uniform(1.5, 2)]                                               # tail index c d
    elif k == 'genpareto': a = [rng.uniform(.1, .66)]                                                              # tail index 1/c
    else: a = [rng.uniform(1.2, 2.0)]
    return k, a, rng.choice([0.0, 0.0, rng.uniform(-20, 50)]), rng.choice([1.0, rng.uniform(.2, 30)])


def tail_index(k, a):
    return {'pareto': a[0], 'lomax': a[0], 'invgamma': a[0], 'fisk': a[0], 'loglaplace': a[0], 'burr12': a[0] * a[-1], 'genpareto': 1 / a[0]}.get(k, math.inf)


def lower_moment(dist, x, k, lo, brk):
    """int_lo^x (x - y)^k f(y) dy -- a proper integral over a bounded interval, split at quantiles"""
    if x <= lo: return 0.0
    pts = [lo] + [b for b in brk if lo < b < x] + [x]
    return sum(quad(lambda y: (x - y) ** k * dist.pdf(y), a, b) for a, b in zip(pts, pts[1:]))


def check_heavy_tail(o, case):
    """case: family 'continuous-heavy-tail:<kind>', parameters, loc, scale [, xs].
    continuous_loss / continuous_second_loss integrate up to the 1 - 1e-10 quantile only, so for these distributions the values FACING the tail
    (n, n2) miss the mass beyond it (pareto(2.5): n2 too small by 0.025, about 2%; pareto(2.1): by 3.5 of 9; infinite-variance laws: a finite number
    instead of +inf): these two comparisons fail on the unchanged library for sufficiently heavy tails and are a RECORDED KNOWN FINDING
    (KNOWN_FINDINGS.json, signatures '<function>|heavy-tail|mass-beyond-the-1e-10-quantile-lost'). Everything else is checked as well: the complementary values against their defining integrals over [bottom of the support, x], and finiteness, sign and
    monotonicity of all four values."""
    from scipy import stats
    k = case['family'].split(':', 1)[1]; L = lf()
    dist = getattr(stats, k)(*case['parameters'], loc=case['loc'], scale=case['scale'])
    lo = float(dist.support()[0]); med = float(dist.ppf(.5)); iqr = float(dist.ppf(.75) - dist.ppf(.25))
    if 'xs' not in case:
        case = dict(case, xs=sorted([lo - .5 * iqr] + [float(dist.ppf(q)) for q in (.001, .1, .5, .9, .999, .99999)]))
    brk = sorted(float(dist.ppf(q)) for q in (1e-9, 1e-6, 1e-3, .05, .25, .5, .75, .95, .999, .99999))
    nontriv = False
    for second, sig, fn in ((False, 'continuous_loss', L.continuous_loss), (True, 'continuous_second_loss', L.continuous_second_loss)):
        prev = None
        for x in case['xs']:
            c = dict(case, x=x)
            v = o.call(sig, fn, c, x, dist)
            if v is None: continue
            sc = max(1.0, max(iqr, abs(x - med)) ** (2 if second else 1))
            if not (math.isfinite(v[0]) and math.isfinite(v[1])):
                o.chk.fail(sig + '|heavy-tail-not-finite', '%s(%r, %s) = %r' % (sig, x, k, v), c); continue
            want = (0.5 if second else 1.0) * lower_moment(dist, x, 2 if second else 1, lo, brk)
            if abs(v[1] - want) > TOL_GENERIC * sc:
                o.chk.fail(sig + '|heavy-tail-complementary-vs-independent-quadrature', '%s(%r, %s): complementary value %r, defining integral over [%r, x] gives %r' % (sig, x, k, v[1], lo, want), c)
            # the value FACING the tail, from the complementary value and the moments (n = nbar - (x - E X); n2 = ((x - E X)^2 + Var X)/2 - n2bar, +inf if Var X is)
            mean = float(dist.mean()); var = float(dist.var())
            true_tail = (want - (x - mean)) if not second else ((0.5 * ((x - mean) ** 2 + var) - want) if math.isfinite(var) else math.inf)
            if not (abs(v[0] - true_tail) <= max(TOL_GENERIC * sc, 1e-6 * abs(true_tail))):
                o.chk.fail(sig + '|heavy-tail|mass-beyond-the-1e-10-quantile-lost', '%s(%r, %s%r loc=%r scale=%r): value facing the tail %r, but E-based value %r (integration stops at ppf(1 - 1e-10))'
                           % (sig, x, k, tuple(case['parameters']), case['loc'], case['scale'], v[0], true_tail), c)
            if min(v) < -1e-9 * sc: o.chk.fail(sig + '|negative', 'returned %r' % (v,), c)
            # (where the variance is infinite, n2 = +inf and the number returned -- the integral up to the 1 - 1e-10 quantile -- is huge and only
            #  accurate to the relative precision of the quadrature: its monotonicity is not examined)
            if prev is not None and ((v[0] > prev[1][0] + 1e-9 * sc and not (second and tail_index(k, case['parameters']) <= 2)) or v[1] < prev[1][1] - 1e-9 * sc):
                o.chk.fail(sig + '|not-monotone', 'at x=%r: %r, at x=%r: %r' % (prev[0], prev[1], x, v), c)
            prev = (x, v)
            if v[0] > 1e-9 and v[1] > 1e-9: nontriv = True
    return case, nontriv


def o_heavy_tail(o, rng):
    k, a, loc, scale = gen_heavy_tail(rng)
    return check_heavy_tail(o, dict(family='continuous-heavy-tail:' + k, parameters=a, loc=loc, scale=scale))


def o_geometric_below_support(o, rng):
    """dedicated probe: geometric_loss for a negative integer argument (Poisson and negative binomial handle it)"""
    L = lf(); p = rng.uniform(.1, .9); x = -rng.randint(1, 6)
    case = dict(family='geometric', p=p, x=x)
    v = o.call('geometric_loss', L.geometric_loss, case, x, p)
    if v is not None and (abs(v[0] - (1 / p - x)) > TOL * (1 / p - x) or abs(v[1]) > TOL):
        o.chk.fail('geometric_loss|x-below-support', 'geometric_loss(%r, %r) = %r but E (X - x)^+ = 1/p - x = %r and E (x - X)^+ = 0' % (x, p, v, 1 / p - x), case)
    return case, False


KEY_ORDERS = ['ascending', 'descending', 'shuffled', 'by-decreasing-probability']


def gen_pmf_dict(rng):
    """a pmf dict as a caller builds it: the support of gen_pmf (1-8 distinct integers in 0..39, probabilities multiples of 1/64), sometimes one or two
    extra keys of probability 0 (a table that lists values which did not occur), inserted in ascending order (dict(zip(range ...))), descending order,
    random order (Counter over a demand history) or by decreasing probability (most_common()). -> list of (key, Fraction) in insertion order"""
    pmf = gen_pmf(rng)
    if rng.random() < .25:
        for k in rng.sample(range(0, 44), rng.randint(1, 2)): pmf.setdefault(k, Fraction(0))
    order = rng.choice(KEY_ORDERS); items = sorted(pmf.items())
    if order == 'descending': items.reverse()
    elif order == 'shuffled': rng.shuffle(items)
    elif order == 'by-decreasing-probability': items.sort(key=lambda kv: (-kv[1], rng.random()))
    return order, items


def gen_pmf_between(rng, lo, hi):
    """like gen_pmf, but with smallest key lo and largest key hi (lo < hi)"""
    n = rng.randint(2, min(8, hi - lo + 1))
    vals = sorted([lo, hi] + rng.sample(range(lo + 1, hi), n - 2))
    cuts = sorted(rng.sample(range(1, 64), n - 1))
    return {v: Fraction(b - a, 64) for v, a, b in zip(vals, [0] + cuts, cuts + [64])}


def pmf_objects(pmf_case):
    from scipy import stats
    items = [(int(k), F(v)) for k, v in pmf_case.items()]
    pmf = dict(items); fp = {k: float(v) for k, v in items}                    # fp keeps the insertion order of the case
    ks = sorted(k for k in pmf if pmf[k] > 0)
    return pmf, fp, ks, stats.rv_discrete(values=(ks, [fp[k] for k in ks]))


def check_discrete_arbitrary(o, case, rng, model_cases=None):
    """discrete_loss / discrete_second_loss with a pmf dict and with a scipy rv_discrete object built from the same pmf.
    case: family 'discrete', key_order, pmf = dict in the caller's INSERTION order {str(key): probability (dyadic)} [, xs]"""
    L = lf()
    if case.get('preceded_by'):                             # call sequence: a DIFFERENT distribution with the same smallest and largest value is evaluated first (all four
        _p0, fp0, ks0, d0 = pmf_objects(case['preceded_by'])                   # forms; its values are examined in its own case) -- every rv_discrete(values=...) carries the same default name
        x0 = ks0[0] + 1
        for sig0, f0, a0 in (('discrete_loss(distrib)', L.discrete_loss, (x0, d0)), ('discrete_second_loss(distrib)', L.discrete_second_loss, (x0, d0)),
                             ('discrete_loss(pmf)', L.discrete_loss, (x0, None, fp0)), ('discrete_second_loss(pmf)', L.discrete_second_loss, (x0, None, fp0))):
            o.call(sig0, f0, dict(case, x=x0), *a0)
    pmf, fp, ks, dist = pmf_objects(case['pmf'])
    mean = sum(k * v for k, v in pmf.items()); var = sum(k * k * v for k, v in pmf.items()) - mean ** 2
    if 'xs' not in case:
        case = dict(case, xs=sorted({ks[0] - 2, ks[0], ks[-1], ks[-1] + 3} | {rng.randint(ks[0] - 1, ks[-1] + 1) for _ in range(6)}))
    xs = case['xs']
    def t1(x): return (float(sum(v * max(k - x, 0) for k, v in pmf.items())), float(sum(v * max(x - k, 0) for k, v in pmf.items())))
    def t2(x): return (float(sum(v * max(k - x, 0) * (max(k - x, 0) - 1) for k, v in pmf.items()) / 2), float(sum(v * max(x - k, 0) * (max(x - k, 0) + 1) for k, v in pmf.items()) / 2))
    gen1 = lambda x: o.call('discrete_loss(distrib)', L.discrete_loss, dict(case, x=x), x, dist) if x >= 0 else None
    gen2 = lambda x: o.call('discrete_second_loss(distrib)', L.discrete_second_loss, dict(case, x=x), x, dist) if x >= 0 else None
    res1 = {}; res2 = {}
    def c1(x):
        res1[x] = o.call('discrete_loss(pmf)', L.discrete_loss, dict(case, x=x), x, None, dict(fp)); return res1[x]
    def c2(x):
        res2[x] = o.call('discrete_second_loss(pmf)', L.discrete_second_loss, dict(case, x=x), x, None, dict(fp)); return res2[x]
    sd = math.sqrt(float(var)) if var > 0 else 1.0
    nt = family_check(o, 'discrete_loss(pmf)', case, xs, c1, gen1, t1, float(mean), discrete=True, scale=sd, gen_tol=1e-9)
    family_check(o, 'discrete_second_loss(pmf)', case, xs, c2, gen2, t2, float(mean), second=True, var=float(var), discrete=True, scale=sd, gen_tol=1e-9)
    if model_cases is not None:
        model_cases.append((case, pmf, [(x, res1.get(x), res2.get(x)) for x in xs[:5]]))
    return case, nt


def o_discrete_arbitrary(o, rng, model_cases):
    order, items = gen_pmf_dict(rng)
    case = dict(family='discrete', key_order=order, pmf={str(k): v for k, v in items})
    lo, hi = min(k for k, v in items if v > 0), max(k for k, v in items if v > 0)
    if hi - lo >= 2 and rng.random() < .4:                  # call sequence: preceded by another pmf on the same range [lo, hi]
        other = gen_pmf_between(rng, lo, hi)
        if other != {k: v for k, v in items if v > 0}: case['preceded_by'] = {str(k): v for k, v in sorted(other.items())}
    return check_discrete_arbitrary(o, case, rng, model_cases)


def malformed(o, rng):
    """documented ValueErrors"""
    L = lf()
    tests = [('poisson_loss|non-integer-x', lambda: L.poisson_loss(2.5, 3.0)), ('poisson_second_loss|non-integer-x', lambda: L.poisson_second_loss(2.5, 3.0)),
             ('geometric_loss|non-integer-x', lambda: L.geometric_loss(1.5, .3)), ('negative_binomial_loss|non-integer-x', lambda: L.negative_binomial_loss(1.5, 3, .4)),
             ('negative_binomial_loss|no-parameters', lambda: L.negative_binomial_loss(2)), ('negative_binomial_loss|mean>=variance', lambda: L.negative_binomial_loss(2, mean=4.0, sd=1.5)),
             ('uniform_loss|x-outside-[a,b]', lambda: L.uniform_loss(5.0, 1.0, 3.0)), ('uniform_second_loss|x-outside-[a,b]', lambda: L.uniform_second_loss(0.0, 1.0, 3.0)),
             ('exponential_loss|x<0', lambda: L.exponential_loss(-1.0, 2.0)), ('gamma_loss|x<=0', lambda: L.gamma_loss(0.0, 2.0, 3.0)),
             ('discrete_loss|non-integer-x', lambda: L.discrete_loss(1.5, pmf={1: .5, 2: .5})), ('discrete_loss|nothing-given', lambda: L.discrete_loss(1)),
             ('discrete_second_loss|non-integer-x', lambda: L.discrete_second_loss(1.5, pmf={1: .5, 2: .5}))]
    for sig, f in tests:
        try:
            r = f(); o.chk.fail(sig + '-accepted', 'documented ValueError not raised, returned %r' % (r,), dict(test=sig))
        except ValueError:
            pass
        except Exception as e:
            o.chk.fail(sig + '-raises-' + exc_kind(e), 'documented ValueError, got %s: %s' % (exc_kind(e), e), dict(test=sig))
        o.chk.case(dict(test=sig), False); o.chk.count('malformed')


FAMILIES = [('standard_normal', 0.5), ('normal', 1.0), ('lognormal', 1.0), ('exponential', 1.0), ('gamma', 1.0), ('uniform', 1.0)]
DISCRETE = [('poisson', 1.0), ('geometric', 1.0), ('negative_binomial(r,p)', 1.0), ('negative_binomial(mean,sd)', 1.0), (NB_BOTH, 1.0)]


def run_oracles(chk, n, do_model=True):
    o = O(chk)
    model_cases = [] if do_model else None
    for fam, w in FAMILIES:
        for _ in range(max(2, int(n * w))):
            case, nt = o_continuous_family(o, chk.rng, fam); chk.count('oracle_' + fam); chk.case(case, nt)
    for _ in range(max(2, n // 2)):
        case, nt = o_generic_continuous(o, chk.rng); chk.count('oracle_continuous_generic'); chk.case(case, nt)
    for fam, w in DISCRETE:
        for _ in range(max(2, int(n * w))):
            case, nt = o_discrete_family(o, chk.rng, fam); chk.count('oracle_' + fam); chk.case(case, nt)
    for _ in range(max(3, 2 * n)):
        case, nt = o_discrete_arbitrary(o, chk.rng, model_cases); chk.count('oracle_discrete_pmf+distrib'); chk.case(case, nt)
    for _ in range(max(6, 3 * n)):
        case, nt = o_generic_discrete(o, chk.rng); chk.count('oracle_discrete_scipy_object_' + case['family'].split(':')[1] + ('_shifted' if case['loc'] else '')); chk.case(case, nt)
    for _ in range(max(4, 3 * n // 4)):
        case, nt = o_heavy_tail(o, chk.rng); chk.count('oracle_continuous_heavy_tail'); chk.case(case, nt)
    for _ in range(3):
        case, nt = o_geometric_below_support(o, chk.rng); chk.count('oracle_geometric_below_support'); chk.case(case, nt)
    malformed(o, chk.rng)
    if model_cases: model_correspondence(chk, model_cases)


def model_correspondence(chk, cases):
    """Alg/LossDiscrete.v vs discrete_loss / discrete_second_loss (pmf dict): EXACT equality (inputs are dyadic)"""
    exprs = []; flat = []
    for case, pmf, rows in cases:
        l = clist(['(%s, %s)' % (cz(k), cq(v)) for k, v in sorted(pmf.items())])
        for x, r1, r2 in rows:
            if r1 is None or r2 is None: continue
            exprs.append('[qobs (dl_n %s %s); qobs (dl_nbar %s %s); qobs (d2_n %s %s); qobs (d2_nbar %s %s)]' % ((cz(x), l) * 4))
            flat.append((case, x, r1, r2))
    if not exprs: return
    vals = coq_eval_sharded('c09dl', 'Base.Qx Alg.NVDiscrete Alg.LossDiscrete', '', exprs)
    for (case, x, r1, r2), v in zip(flat, vals):
        chk.traces += 1
        got = [qv(t) for t in v]; want = [F(r1[0]), F(r1[1]), F(r2[0]), F(r2[1])]
        if got != want:
            chk.mismatch('Alg/LossDiscrete model at x=%r gives %r, implementation %r' % (x, jsonable(got), jsonable(want)), dict(case, x=x))


def translate_and_build(chk):
    errs = py2v.translate_all()
    for q in C09_TRANSLATED:
        if q not in py2v.FUNCS:
            chk.broken.append(('translator:' + q, dict(errs).get(q, 'function not found in the source')))
    chk.extra['translated_functions'] = sorted(q for q in py2v.FUNCS if q.startswith('loss_functions.'))
    chk.extra['untranslated_functions'] = {q: e for q, e in errs if q.startswith('loss_functions.') and q not in C09_TRANSLATED}
    ok, log = coq_make(['gen/Gen_loss_functions.vo'])
    if not ok: chk.broken.append(('coq/gen does not compile', log[-800:]))
    return ok


def run_tie(chk, n):
    # a function that no longer translates is already recorded (chk.broken) by translate_and_build; the others are still tied, and the oracles still run
    cases = [(q, gen_args(q, chk.rng)) for q in C09_TRANSLATED for _ in range(n) if q in py2v.FUNCS]
    for q, a in cases: chk.case(dict(function=q, args=a), False)
    return tie.run_tie(chk, cases, tag='c09tie')


def run(chk):
    chk.rule = RULE
    chk.checker_cmd = 'python /verif/py/py2v.py && ' + chk.checker_cmd
    chk.trusted += [
        'translator py/py2v.py (validated on every run by bit-for-bit comparison of the generated terms at FOps with the running Python functions, library calls -- scipy norm/gamma/nbinom/poisson, exp, log, libm pow -- replaced by values recorded on the same inputs)',
        'Base/Ops.v: ROps interprets + - * / sqrt exp log ** as the real-number operations; rounding error is not modelled',
        'hand-written model Alg/LossDiscrete.v of the pmf-dict branches of discrete_loss / discrete_second_loss (exact correspondence on generated dyadic pmfs); the generic distribution-object branches are modelled as sums of a cdf over range(x)',
        'Section hypotheses (not axioms) of C09_standard_normal_loss_monotone: cdf\' = pdf, pdf\' = -z pdf, 0 <= cdf <= 1',
        'Python oracles: scipy.integrate.quad on pdf-weighted integrands, direct summation of pmfs']
    chk.assume += ['closed form = defining integral/series is proved for the uniform, normal, exponential, Poisson and geometric families and the pmf-dict forms (not for lognormal, gamma, negative binomial); for the other families it is checked numerically (1e-7)',
                   'discrete families are checked for integer arguments x >= 0 and x = -2; discrete_loss(distrib=...) documents F(x) = 0 for x < 0',
                   'heavy right tails (pareto-like, lognormal with sigma > 1.2): continuous_loss / continuous_second_loss stop at the 1 - 1e-10 quantile, so n and n2 miss the tail mass beyond it '
                   '(a finite number where the variance is infinite); only the complementary values, finiteness, sign and monotonicity are checked there']
    quick = chk.tier == 'quick'
    built = translate_and_build(chk)
    chk.proof()
    if built: run_tie(chk, 120 if quick else 1000)
    run_oracles(chk, 8 if quick else 80, do_model=built)
    known = {f['signature'] for f in chk.known.get('findings', []) if f.get('property') == chk.pid} | {'geometric_loss|x-below-support'}
    if (chk.broken or chk.mismatches) and not [f for f in chk.fails if f[0] not in known]:
        run_oracles(chk, 60 if quick else 200, do_model=False)


def replay(chk, rp):
    translate_and_build(chk)
    if rp.get('kind') == 'obligation-no-longer-checks':
        for dd in rp.get('correspondence_disagreements', []):
            c = dd.get('case') or {}
            if 'args' in c and c.get('function') in py2v.FUNCS: tie.run_tie(chk, [(c['function'], c['args'])], tag='c09tie')
        run_oracles(chk, 6, do_model=False); return
    case = rp.get('case') or {}
    print('replay case:', json.dumps(case)[:600])
    if 'args' in case and case.get('function') in py2v.FUNCS:
        tie.run_tie(chk, [(case['function'], case['args'])], tag='c09tie'); chk.case(case); return
    # failing inputs of the oracles: re-run the family's oracle (parameters are re-drawn from the replay's seed) -- the
    # recorded case is printed above for direct inspection
    o = O(chk); fam = case.get('family', '')
    if fam.startswith('discrete-scipy:') or fam.startswith('continuous-heavy-tail:'):       # these cases carry everything needed: re-run exactly the recorded one
        c = {k: v for k, v in case.items() if k != 'x'}
        c, _nt = check_generic_discrete(o, c, chk.rng) if fam.startswith('discrete-scipy:') else check_heavy_tail(o, c)
        chk.case(c); return
    if fam == 'discrete' and isinstance(case.get('pmf'), dict):
        c, _nt = check_discrete_arbitrary(o, {k: v for k, v in case.items() if k != 'x'}, chk.rng)      # the recorded dict, in its recorded insertion order
        chk.case(c); return
    if fam == NB_BOTH and all(k in case for k in ('r', 'p', 'mean', 'sd')):                   # carries everything needed as well
        c, _nt = o_discrete_family(o, chk.rng, fam, params=case); chk.case(c); return
    for _ in range(40):
        if fam in [f for f, _ in FAMILIES]: c, _nt = o_continuous_family(o, chk.rng, fam)
        elif fam in [f for f, _ in DISCRETE]: c, _nt = o_discrete_family(o, chk.rng, fam)
        elif fam == 'discrete': c, _nt = o_discrete_arbitrary(o, chk.rng, None)
        elif fam == 'geometric' or 'geometric' in rp.get('signature', ''): c, _nt = o_geometric_below_support(o, chk.rng)
        else: c, _nt = o_generic_continuous(o, chk.rng)
        chk.case(c)
    malformed(o, chk.rng)
