"""C15 (serial systems) — tie of the pathwise Clark-Scarf theorems (Sim/CS*.v, Props/C15.v: C15_serial_clark_scarf,
C15_serial_head_echelon, C15_serial_clark_scarf_local, C15_serial_shipments, C15_serial_reference) to the IMPLEMENTATION.

clark_scarf_stream(chk, n): n serial systems of 1..6 stages built with stockpyl.supply_chain_network.serial_system (labels N..1,
1..N, 0..N-1 or random; local base-stock policies with non-negative integer levels; shipment lead times 0..3; order lead times 0;
deterministic integer demand list at the sink via DemandSource type 'D'), simulated with stockpyl.sim.simulation.  From
network.nodes[..].state_vars of every period the oracle reads the inventory level, the inbound shipment pipelines and the
outbound shipments, rebuilds the echelon inventory level of every stage from these raw pieces
    IL^e_j = (IL_j)^+ + sum over the stages i downstream of j of ((IL_i)^+ + in transit to i) - (IL_sink)^-
and checks, period by period and exactly (Fractions; all quantities are integers, so the float arithmetic of the implementation is exact):
    head stage N:  IL^e_N(t) = S_N - D(t-L_N, t]
    stage j < N:   IL^e_j(t) = min(S_j, IL^e_{j+1}(t-L_j)) - D(t-L_j, t]   for t >= L_j,      = S_j - D[0, t]   for t < L_j
    local form:    IL_j(t)   = S'_j - (IL_{j+1}(t-L_j))^- - D(t-L_j, t]    for t >= L_j
    shipments:     what j+1 ships to j in period t = (IL_{j+1}(t-1))^- + d_t - (IL_{j+1}(t))^-
    reference:     IL_j(t) of every stage = the executable recursion cs_serial (python port of Sim/CS.v; on a sample of the cases the
                   Coq definition itself is evaluated with vm_compute and compared)
(S_j = echelon level = sum of the local levels of j and of everything downstream, D(a,b] = demand of the periods a+1..b, periods < 0 count 0).
Failures: chk.fail('simulation|serial|clark-scarf-recursion', ...).  Stand-alone: `python c15_cs.py [n] [seed]`."""
import os, sys, random, warnings, subprocess, re, time
from fractions import Fraction

HERE = os.path.dirname(os.path.abspath(__file__))
for _p in ('/verif/py', os.path.join(HERE, '..'), HERE):
    if os.path.isdir(_p) and _p not in sys.path:
        sys.path.insert(0, _p)
try:
    from vlib import F, cq, cqlist, cnat, clist, qv
    import vlib
except Exception:                                               # stand-alone without vlib on the path
    vlib = None
    def F(x): return x if isinstance(x, Fraction) else Fraction(x)

SIG = 'simulation|serial|clark-scarf-recursion'
RULE_CS = ('clark-scarf stream (EXACT, deterministic): serial systems of 1..6 stages built by serial_system (labels N..1 / 1..N / 0..N-1 / random distinct), local base-stock '
           'levels 0..(L+1)*7 (integers), shipment lead times 0..3, integer demand lists (length 8..40, values from {0,1,2,3,5,8,13} or bursts), order lead times 0: the '
           "implementation's per-period state variables (inventory level, inbound shipment pipelines, outbound shipments) must satisfy the echelon and the local Clark-Scarf "
           'recursion of C15_serial_clark_scarf / _local / _head_echelon / _shipments for every stage and period, and the local trajectories must equal the reference '
           'recursion cs_serial (python port; the Coq definition itself on a sample). non-trivial = >= 2 stages, some internal stage short toward its successor in some period '
           '(upstream echelon level binding) and not short in another (own echelon level binding), some positive lead time.')


# ---------------------------------------------------------------------------------------------- generator
def cs_case(rng, nmax=6):
    N = rng.choice([1, 2, 2, 3, 3, 3, 4, 4, 5, nmax])
    style = rng.choice(['down', 'up', 'zero', 'random'])
    if style == 'down': chain = list(range(N, 0, -1))
    elif style == 'up': chain = list(range(1, N + 1))
    elif style == 'zero': chain = list(range(N))
    else: chain = rng.sample(range(1, 40), N)
    L = [rng.choice([0, 1, 1, 2, 2, 3]) for _ in range(N)]
    T = rng.randint(8, 40)
    if rng.random() < 0.3:                                       # bursts: long quiet spells then large orders
        dem = [rng.choice([0, 0, 0, 1, 21, 34]) for _ in range(T)]
    else:
        dem = [rng.choice([0, 1, 2, 3, 5, 8, 13]) for _ in range(T)]
    tight = rng.random()
    S = [rng.randint(0, max(1, int((L[k] + 1) * (3 + 8 * tight)))) for k in range(N)]
    if rng.random() < 0.15: S[rng.randrange(N)] = 0
    return dict(kind='clark-scarf', chain=chain, L=L, S_loc=S, T=T, demand=dem, h=[rng.randint(1, 8) for _ in range(N)], p=rng.randint(1, 40))


def build(case):
    from stockpyl.supply_chain_network import serial_system
    chain = [int(x) for x in case['chain']]; N = len(chain)
    return serial_system(N, node_order_in_system=chain, node_order_in_lists=chain,
                         local_holding_cost=[float(x) for x in case['h']], stockout_cost=[0] * (N - 1) + [float(case['p'])],
                         shipment_lead_time=[int(x) for x in case['L']], policy_type='BS', base_stock_level=[int(x) for x in case['S_loc']],
                         demand_type='D', demand_list=[int(x) for x in case['demand']])


def simulate(case):
    """per period and stage (upstream first): dict(IL, IT (in transit to the stage), OS (shipped to the successor), EIL_lib)"""
    import stockpyl.sim as sim
    sim.issued_backorder_warning = False
    net = build(case); T = int(case['T'])
    with warnings.catch_warnings():
        warnings.simplefilter('ignore')
        sim.simulation(net, T, rand_seed=1, progress_bar=False, consistency_checks='N')
    chain = [int(x) for x in case['chain']]
    rows = []
    for t in range(T):
        row = []
        for k, lab in enumerate(chain):
            n = net.nodes_by_index[lab]; sv = n.state_vars[t]
            prod = n.product_indices[0]
            if k == 0:
                pred = None; rm = n._external_supplier_dummy_product.index
            else:
                pred = chain[k - 1]; rm = net.nodes_by_index[pred].product_indices[0]
            succ = chain[k + 1] if k + 1 < len(chain) else None
            row.append(dict(IL=F(sv.inventory_level[prod]), IT=sum(F(x) for x in sv.inbound_shipment_pipeline[pred][rm]),
                            OS=F(sv.outbound_shipment[succ][prod]), IS=F(sv.inbound_shipment[pred][rm])))
        rows.append(row)
    return rows


# ---------------------------------------------------------------------------------------------- reference (port of Sim/CS.v)
def negp(x): return max(Fraction(0), -x)


def cs_serial(stages, d, T):
    """stages: [(local level, lead time)] upstream first; d: demand list; returns per stage the start-of-period levels x[0..T]
    (x[t+1] = level at the end of period t).  xrec lv (delay L feed) d with feed = d at the head and ship(x_up) below."""
    out = []; feed = [Fraction(v) for v in d[:T]]
    for lv, L in stages:
        x = [Fraction(lv)]
        for u in range(T):
            r = feed[u - L] if u >= L else Fraction(0)
            x.append(x[u] + r - Fraction(d[u]))
        out.append(x)
        feed = [negp(x[t]) + Fraction(d[t]) - negp(x[t + 1]) for t in range(T)]
    return out


def dwin(d, L, t):
    return sum(Fraction(d[u]) for u in range(max(0, t + 1 - L), t + 1))


# ---------------------------------------------------------------------------------------------- oracle
def clark_scarf_oracle(case, rows):
    """returns (bad, info): bad = [(what)], info = dict(binding_up, binding_own) for the non-triviality rule"""
    chain = case['chain']; N = len(chain); L = [int(x) for x in case['L']]; Sl = [Fraction(x) for x in case['S_loc']]
    d = case['demand']; T = int(case['T'])
    Se = [sum(Sl[k:]) for k in range(N)]                          # echelon levels
    bad = []; info = dict(up=False, own=False, short=False)
    def eil(t, k):                                                 # from the raw pieces
        r = rows[t]
        v = max(Fraction(0), r[k]['IL'])
        for i in range(k + 1, N): v += max(Fraction(0), r[i]['IL']) + r[i]['IT']
        return v - negp(r[N - 1]['IL'])
    ref = cs_serial(list(zip(Sl, L)), d, T)
    for t in range(T):
        for k in range(N):
            lab = chain[k]; D = dwin(d, L[k], t); il = rows[t][k]['IL']; e = eil(t, k)
            if k == 0:
                want = Se[0] - D
                if e != want: bad.append('period %d head stage %s: echelon IL %s but S - D(t-L,t] = %s' % (t, lab, e, want))
                if il != Sl[0] - D: bad.append('period %d head stage %s: IL %s but S\' - D(t-L,t] = %s' % (t, lab, il, Sl[0] - D))
            else:
                if t >= L[k]:
                    up = eil(t - L[k], k - 1); want = min(Se[k], up) - D
                    if up < Se[k]: info['up'] = True
                    if up > Se[k]: info['own'] = True
                    wl = Sl[k] - negp(rows[t - L[k]][k - 1]['IL']) - D
                else:
                    want = Se[k] - D; wl = Sl[k] - D
                if e != want: bad.append('period %d stage %s: echelon IL %s but min(S, upstream echelon IL %d periods ago) - D = %s' % (t, lab, e, L[k], want))
                if il != wl: bad.append('period %d stage %s: IL %s but S\' - upstream backorders %d periods ago - D = %s' % (t, lab, il, L[k], wl))
                prev = rows[t - 1][k - 1]['IL'] if t > 0 else Sl[k - 1]
                ws = negp(prev) + Fraction(d[t]) - negp(rows[t][k - 1]['IL'])
                if rows[t][k - 1]['OS'] != ws: bad.append('period %d stage %s ships %s to %s but old backorders + demand - new backorders = %s' % (t, chain[k - 1], rows[t][k - 1]['OS'], lab, ws))
                if rows[t][k - 1]['IL'] < 0: info['short'] = True
            if il != ref[k][t + 1]: bad.append('period %d stage %s: IL %s but reference recursion cs_serial gives %s' % (t, lab, il, ref[k][t + 1]))
    return bad, info


# ---------------------------------------------------------------------------------------------- Coq evaluation of the reference
def coq_reference(cases):
    """IL trajectories [case][stage][t] computed by the Coq definition cs_serial (vm_compute); None when no Coq run is possible"""
    exprs = []
    for c in cases:
        st = '[' + '; '.join('(%s, %d%%nat)' % ('(%d # 1)' % int(s), int(l)) for s, l in zip(c['S_loc'], c['L'])) + ']'
        ds = '[' + '; '.join('(%d # 1)' % int(x) for x in c['demand']) + ']'
        exprs.append('map (fun x => map (fun t => qobs (x (S t))) (seq 0 %d)) (cs_serial (dfun %s) %s)' % (int(c['T']), ds, st))
    if not exprs: return []
    integrated = os.path.exists('/verif/coq/Sim/CS.vo')
    if integrated and vlib is not None:
        vals = vlib.coq_eval('c15cs', 'Base.Qx Sim.CS', '', exprs)
    else:
        if not os.path.exists(os.path.join(HERE, 'CS.vo')) or vlib is None: return None
        d = '/verif/build/eval'; os.makedirs(d, exist_ok=True)
        base = 'c15cs_%d_%d' % (os.getpid(), int(time.time() * 1000) % 100000000); path = os.path.join(d, base + '.v')
        with open(path, 'w') as f:
            f.write('From SV Require Import Base.Qx.\nFrom WIP Require Import CS.\nSet Printing Width 100000000.\nSet Printing Depth 100000000.\nOpen Scope Q_scope.\n')
            for e in exprs: f.write('Eval vm_compute in (%s).\n' % e)
        pr = subprocess.run(['timeout', '600', 'coqc', '-Q', '/verif/coq', 'SV', '-Q', HERE, 'WIP', path], cwd=d, capture_output=True, text=True)
        for ext in ('.v', '.vo', '.glob', '.vok', '.vos'):
            for pth in (os.path.join(d, base + ext), os.path.join(d, '.' + base + '.aux')):
                try: os.remove(pth)
                except OSError: pass
        if pr.returncode != 0: raise RuntimeError('coq evaluation of cs_serial failed: ' + (pr.stdout + pr.stderr)[-1500:])
        vals = []
        for chunk in re.split(r'(?m)^\s*= ', pr.stdout)[1:]:
            vals.append(vlib._parse(re.split(r'(?m)^\s*: ', chunk)[0]))
    return [[[qv(p) for p in stage] for stage in v] for v in vals]


# ---------------------------------------------------------------------------------------------- stream
def clark_scarf_stream(chk, n, coq_sample=12):
    cases = []
    for i in range(n):
        case = cs_case(chk.rng)
        try:
            rows = simulate(case)
        except Exception as e:
            chk.fail('simulation|serial|exception', 'serial system could not be simulated: %s: %s' % (type(e).__name__, e), case); continue
        bad, info = clark_scarf_oracle(case, rows)
        N = len(case['chain'])
        nontriv = N >= 2 and info['up'] and info['own'] and any(int(x) > 0 for x in case['L'])
        chk.case(case, nontriv, key=('cs', tuple(case['chain']), tuple(case['L']), tuple(case['S_loc']), tuple(case['demand'])))
        chk.count('clark-scarf|N=%s|%s' % (N if N < 4 else '>=4', 'upstream-short' if info['short'] else 'never-short'))
        if bad:
            chk.fail(SIG, '%d violations of the Clark-Scarf pathwise recursion; first: %s' % (len(bad), bad[0]), case)
        cases.append((case, rows))
    # the Coq definition of the reference on a sample
    sample = cases[:coq_sample]
    try:
        ref = coq_reference([c for c, _ in sample])
    except Exception as e:
        ref = None; chk.extra['clark_scarf_coq_reference'] = 'not evaluated: %s' % e
    if ref is not None:
        for (case, rows), tr in zip(sample, ref):
            chk.traces += 1
            for k in range(len(case['chain'])):
                impl = [rows[t][k]['IL'] for t in range(int(case['T']))]
                if impl != tr[k]:
                    t = next(i for i in range(len(impl)) if impl[i] != tr[k][i])
                    chk.mismatch('stage %s period %d: implementation IL %s, Coq cs_serial %s' % (case['chain'][k], t, impl[t], tr[k][t]), case)
                    break
        chk.extra['clark_scarf_coq_reference'] = '%d cases evaluated with vm_compute' % len(sample)
    return len(cases)


def replay_clark_scarf(chk, case):
    rows = simulate(case); bad, _ = clark_scarf_oracle(case, rows)
    if bad: chk.fail(SIG, '%d violations; first: %s' % (len(bad), bad[0]), case)
    return bad


# ---------------------------------------------------------------------------------------------- stand-alone
class _Chk:
    def __init__(self, seed):
        self.rng = random.Random(seed); self.fails = []; self.mismatches = []; self.cases = 0; self.nontrivial = set(); self.hist = {}; self.traces = 0; self.extra = {}
    def case(self, case, nontrivial, key=None):
        self.cases += 1
        if nontrivial: self.nontrivial.add(key)
    def count(self, label): self.hist[label] = self.hist.get(label, 0) + 1
    def fail(self, sig, what, case): self.fails.append((sig, what, case))
    def mismatch(self, what, case): self.mismatches.append((what, case))


if __name__ == '__main__':
    n = int(sys.argv[1]) if len(sys.argv) > 1 else 300
    seed = int(sys.argv[2]) if len(sys.argv) > 2 else 20261001
    chk = _Chk(seed); t0 = time.time()
    clark_scarf_stream(chk, n)
    print('cases %d, distinct non-trivial %d, coq traces %d, fails %d, mismatches %d, %.1fs' % (chk.cases, len(chk.nontrivial), chk.traces, len(chk.fails), len(chk.mismatches), time.time() - t0))
    for k in sorted(chk.hist): print('  %-45s %d' % (k, chk.hist[k]))
    print('  ', chk.extra)
    for sig, what, case in chk.fails[:5]: print('FAIL', sig, what, case)
    for what, case in chk.mismatches[:5]: print('MISMATCH', what, case)
    sys.exit(1 if chk.fails or chk.mismatches else 0)
