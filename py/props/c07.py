"""C07 — SSM serial optimiser: correspondence of Alg/SSM.v with stockpyl.ssm_serial.optimize_base_stock_levels
(same grids and lead-time-demand tables, recomputed here exactly as the code does) + oracles on the implementation:
evaluation mode, N = 1 vs newsvendor, exact top-down expected cost by enumeration of lead-time demands, brute-force
search over level vectors, Shang-Song bracket, relabelling / parameter-shape / network-form / network-construction-route (storage order of the
node list) invariance through every entry point; session stream: chains of closely
related instances solved one after the other in one process (each chain in a process of its own), full oracle on every in-session result and
in-session result = result of solving the instance alone in a fresh process."""
import math, itertools, json, os, sys, subprocess
from fractions import Fraction
import numpy as np
from vlib import *

RULE = ('N in 1..3 (quick) / 1..4 (thorough) stages; echelon holding costs k/4, lead times 1..2, stockout cost k/2 (18 % of the multi-stage instances from a '
        'costly-upstream regime: downstream echelon holding cost 0.1..0.5, upstream 1.5..5, downstream lead time 2..4, upstream 1, stockout cost 1..12, where '
        'the optimal echelon levels are frequently not increasing in the stage index); demand Poisson(mean 2..8, '
        'random tail-truncation probabilities), discrete uniform, custom discrete on a subset of 0..6 (weights/sum or dyadic probabilities; the (value, probability) pairs listed in increasing (40 %), decreasing (20 %) or '
        'shuffled (40 %) order of the values, and every custom-discrete instance re-solved with the same pairs listed in another order); random node '
        'ids and list orders, list/dict parameter shape, parameter vs network form; a network object is put together by one of six construction routes of the '
        'public API, drawn per case (serial_system; network_from_edges with the edges listed in chain order / downstream first / shuffled and the stockout '
        'cost given for every node or the sink only; empty network + add_node in any node order + add_edge in any edge order; grown from any stage outwards '
        'by add_successor / add_predecessor; serial_system under temporary ids + reindex_nodes; to_dict/from_dict round trip of any of these), so that the '
        'node list of the object is stored upstream first, downstream first or in neither order (sink last or not); every case carries a second route and a '
        'second labelling, and the system built that way goes through every entry point (optimize_base_stock_levels, expected_cost of S*, '
        'newsvendor_heuristic weight 1 and 0) and must give the results of the primary form; half of the discrete cases: expected_holding_cost of a probe '
        'vector (primary form, or the second-route network where the function cannot take the numbering) against the exact holding cost; 12 % of the '
        'discrete cases: the grid in its documented forms (x = the default integer grid as int array / float arange / linspace; x_num, d_num passed on integer '
        'demand; x = a user grid of integers lo..hi with lo in -6..0 and hi in 1..9 or beyond the default top, as int array and as linspace; x = one point <= 0); '
        'normal demand also passed as demand_mean / demand_standard_deviation; a uniform-continuous-demand stream for newsvendor_heuristic only (lo 0..6, '
        'width 1..8; bounds against the exact Irwin-Hall cdf); plus a normal-demand stream (oracle only; x_num x d_num = 120 x 30, one-stage instances 400 x 100) and a malformed stream (negative stockout cost, zero / negative lead time, a None holding cost, or lead_time / echelon_holding_cost / stockout_cost / demand_source not passed at all: ValueError from optimize_base_stock_levels and from newsvendor_heuristic); '
        'plus a session stream: chains of 2..3 closely related instances solved one after the other in the same process (a sensitivity study: same stages, '
        'costs and lead times, demand parameters perturbed - Poisson mean scaled or shifted by 0.001..0.004, two custom-discrete weights swapped (anywhere or '
        'only among the last 2..4 listed points), uniform range widened, normal mean / sd shifted by 0.001..0.004; fresh DemandSource object or the SAME object with its '
        'attributes re-set), whose base instance is drawn from a fine-parameter regime (slow-moving Poisson demand, mean 0.002..0.06 per period with lead '
        'times 3..30; Poisson means with 3 decimals; custom discrete demand with 9..12 support points in 0..13; normal mean and sd with 3 decimals) or from '
        'the regular regime; every instance of a chain gets the full oracle and model comparison, and its in-session result is compared with the result of '
        'solving it alone in a fresh process. '
        'non-trivial = N >= 2, every S*_j strictly inside the grid and the S*_j not all equal; distinct = distinct (N, h, L, p, demand).')

ZERO_LEAD_TIME_VALID = False      # the library rejects lead_time = 0 with ValueError (the /repo change that accepted it was reverted: normal demand is not handled then)
PROBE_LEVEL_ZERO = True          # expected_cost / expected_holding_cost used to refuse a level 0 ('echelon_S cannot be None'; repaired by fix d12a1ab): the probes of these two functions include level 0

SIG_EVAL_ORDER = 'optimize_base_stock_levels|S-given|node-order-not-N..1'


def _tails_default():
    from scipy import stats
    return dict(ltd_lower_tail_prob=1 - stats.norm.cdf(4), ltd_upper_tail_prob=1 - stats.norm.cdf(4),
                sum_ltd_lower_tail_prob=1 - stats.norm.cdf(4), sum_ltd_upper_tail_prob=1 - stats.norm.cdf(4))      # defaults of optimize_base_stock_levels


# ------------------------------------------------------------------------------------------------ generator

def gen_case(rng, nmax, kinds=('P', 'UD', 'CD')):
    N = rng.choice([1, 2, 2, 3, 3, 3] + ([4, 4] if nmax >= 4 else []))
    N = min(N, nmax)
    h = [rng.randint(1, 12) / 4 for _ in range(N)]                  # internal order: index 0 = stage 1 (downstream)
    L = [rng.randint(1, 2) for _ in range(N)]
    p = rng.randint(2, 80) / 2 if rng.random() < 0.85 else round(rng.uniform(5, 60), 2)
    costly_upstream = N >= 2 and rng.random() < 0.18
    if costly_upstream:
        # almost no value added downstream, expensive upstream echelons, long downstream / short upstream lead time, moderate stockout cost: the
        # optimal echelon levels are then frequently NOT increasing in the stage index (valid: the effective level is the min)
        h = [rng.choice([0.1, 0.25, 0.25, 0.5])] + [rng.randint(6, 20) / 4 for _ in range(N - 1)]
        L = [rng.randint(2, 4)] + [1] * (N - 1)
        p = rng.randint(2, 24) / 2
    kind = rng.choice(kinds)
    tails = None
    if kind == 'P':
        dem = dict(kind='P', mean=rng.randint(2, 8))
        if rng.random() < 0.7:
            t = rng.choice([1e-4, 1e-6, 1e-9])
            tails = dict(ltd_lower_tail_prob=t, ltd_upper_tail_prob=t, sum_ltd_lower_tail_prob=t, sum_ltd_upper_tail_prob=t * rng.choice([1, 1e-3]))
    elif kind == 'UD':
        lo = rng.randint(0, 3)
        dem = dict(kind='UD', lo=lo, hi=lo + rng.randint(1, 5))
    elif kind == 'CD':
        sup = sorted(rng.sample(range(0, 7), rng.randint(2, 4)))
        if rng.random() < 0.4:     # dyadic probabilities
            w = [1] * len(sup)
            while sum(w) < 8: w[rng.randrange(len(sup))] += 1
        else:
            w = [rng.randint(1, 4) for _ in sup]
        sup, w = relist(rng, sup, w)
        dem = dict(kind='CD', support=sup, weights=w)
    else:
        m = rng.randint(3, 8)
        dem = dict(kind='N', mean=m, sd=rng.choice([0.5, 1, 1.5]))
    # a lead time of 0 is rejected by ssm_serial (malformed stream: 'zero-lead-time'); set ZERO_LEAD_TIME_VALID = True to make it part of the regular
    # generator instead (one stage of 8 % of the multi-stage UD / CD / P instances; not stage 1 under Poisson demand, where newsvendor_heuristic calls
    # newsvendor_poisson with mean 0)
    zero_lt = False
    if ZERO_LEAD_TIME_VALID and N >= 2 and rng.random() < 0.08:
        j0 = rng.randrange(N)
        if kind in ('UD', 'CD') or (kind == 'P' and j0 != 0): L[j0] = 0; zero_lt = True
    # node numbering, list order, shape, form
    if rng.random() < 0.3:
        order_sys = list(range(N, 0, -1)); default_order = rng.random() < 0.7
    else:
        order_sys = rng.sample(range(0, 12) if rng.random() < 0.5 else range(1, N + 1), N); default_order = False
    order_lists = list(order_sys) if (default_order or rng.random() < 0.4) else rng.sample(order_sys, N)
    c = dict(N=N, h=h, L=L, p=p, dem=dem, tails=tails, order_sys=order_sys, order_lists=order_lists, default_order=default_order,
             shape=rng.choice(['list', 'list', 'dict']), form=rng.choice(['params', 'params', 'network']), malformed=None,
             cost_regime='costly-upstream' if costly_upstream else 'regular')
    if zero_lt: c['zero_lead_time'] = True
    # how a network object for the instance is put together: 'route' when the instance itself is passed as a network, 'alt_route' = another way
    # of building the same system, used by the invariance oracle (every entry point on the alt-route network vs. the primary form)
    c['route'] = gen_route(rng, N)
    c['alt_route'] = gen_route(rng, N, avoid=c['route'] if c['form'] == 'network' else None)
    c['alt_ids'] = rng.sample(range(0, 15), N)      # by position in the system, upstream first (as order_sys)
    c['probe_ehc'] = rng.random() < 0.5              # expected_holding_cost of a probe vector against the exact holding cost
    if kind in ('P', 'UD', 'CD') and rng.random() < 0.12:
        # documented forms of the truncation / discretisation grid on an integer-demand instance (see grid_forms)
        c['grid_forms'] = dict(lo=-rng.randint(0, 6), top=rng.choice(['short', 'short', 'wide']), hi=rng.randint(1, 9), single=rng.choice([0, 0, -1, -3]),
                               x_num=rng.randint(1, 60), d_num=rng.randint(1, 25), same_as=rng.choice(['float-arange', 'linspace']))
    if kind == 'N' and N == 1:
        c['grid'] = [400, 100]      # x_num, d_num: one stage is compared with newsvendor_normal at 2 %; the discretisation error of the 120 x 30 grid reaches 5.5 % there
                                    # (mean 8, sd 0.5, L 2, h 3, p 1: C* 0.844 vs 0.899; 0.902 on 400 x 100), on 400 x 100 it stays below 0.5 %
    return c


ROUTES = ('serial_system', 'network_from_edges', 'add_node+add_edge', 'add_successor/add_predecessor', 'reindex_nodes', 'to_dict/from_dict')
ROUTE_DRAW = [k for k, w in zip(ROUTES, (1, 3, 3, 3, 1, 2)) for _ in range(w)]      # serial_system and reindex_nodes always store the nodes upstream first


def _some_order(rng, items):
    """items is given in chain order (upstream first): keep it (15 %), reverse it (20 %), shuffle all but the last, most downstream, one (20 %) or
    shuffle all (45 %)."""
    items = list(items); u = rng.random()
    if u < 0.15: return items
    if u < 0.35: return items[::-1]
    if u < 0.55:
        head = items[:-1]; rng.shuffle(head)
        return head + items[-1:]
    rng.shuffle(items)
    return items


def gen_route(rng, N, avoid=None):
    """one way of putting together the SupplyChainNetwork object of an N-stage serial system with the public construction API. Stages are numbered
    1 (downstream) .. N; edge j is (stage j+1 -> stage j). The description is independent of the node ids, so the same route can be replayed
    under another labelling.
      serial_system                  the library's own builder (stores the nodes upstream first)
      network_from_edges             the edges listed in 'edge_order' (chain order / downstream first / shuffled: the nodes are stored in order of first
                                     appearance in the edge list); stockout cost given for every node or for the sink only
      add_node+add_edge              empty network, nodes added in 'node_order', then edges added in 'edge_order'
      add_successor/add_predecessor  network grown from the stage node_order[0] outwards, one neighbour at a time
      reindex_nodes                  serial_system under temporary ids ('tmp_ids', by stage), then reindex_nodes to the wanted ids
      to_dict/from_dict              round trip of the network of an inner route through its dict form"""
    for _ in range(20):
        kind = rng.choice(ROUTE_DRAW)
        rt = dict(kind=kind)
        if kind in ('network_from_edges', 'add_node+add_edge'):
            rt['edge_order'] = _some_order(rng, range(N - 1, 0, -1))
        if kind == 'network_from_edges':
            rt['stockout'] = rng.choice(['every-node', 'sink-only'])
        if kind == 'add_node+add_edge':
            rt['node_order'] = _some_order(rng, range(N, 0, -1))
        if kind == 'add_successor/add_predecessor':
            s = rng.randint(1, N); lo = hi = s; order = [s]
            while len(order) < N:
                if hi == N or (lo > 1 and rng.random() < 0.5): lo -= 1; order.append(lo)
                else: hi += 1; order.append(hi)
            rt['node_order'] = order
        if kind == 'reindex_nodes':
            rt['tmp_ids'] = rng.sample(range(20, 40), N) if rng.random() < 0.6 else rng.sample(range(1, N + 1), N)
        if kind == 'to_dict/from_dict':
            rt['inner'] = gen_route(rng, N, avoid=dict(kind='to_dict/from_dict'))
        if avoid is None or (rt != avoid and not (avoid.get('kind') == kind == 'to_dict/from_dict')): return rt
    return rt


def build_network(route, N, nos, hb, Lb, p, ds, ol=None, shape='dict'):
    """the network object of the serial system with node ids nos = {stage j: id}, echelon holding costs hb and lead times Lb (by node id), stockout cost
    p and demand source ds at stage 1, put together as described by route (see gen_route). ol / shape: order and shape of the per-node lists where the
    route takes per-node lists."""
    from stockpyl.supply_chain_network import SupplyChainNetwork, serial_system, network_from_edges
    from stockpyl.supply_chain_node import SupplyChainNode
    from stockpyl.demand_source import DemandSource
    kind = route['kind']
    ol = list(ol if ol is not None else [nos[j] for j in range(N, 0, -1)])
    per_node = (lambda d: dict(d)) if shape == 'dict' else (lambda d: [d[n] for n in ol])
    def node(j):
        return SupplyChainNode(nos[j], echelon_holding_cost=hb[nos[j]], shipment_lead_time=Lb[nos[j]], stockout_cost=p if j == 1 else 0,
                               demand_source=ds if j == 1 else DemandSource())
    if kind == 'serial_system':
        return serial_system(num_nodes=N, node_order_in_system=[nos[j] for j in range(N, 0, -1)], node_order_in_lists=ol,
                             echelon_holding_cost=per_node(hb), shipment_lead_time=per_node(Lb), stockout_cost=p, demand_source=ds)
    if kind == 'network_from_edges':
        so = p if route['stockout'] == 'every-node' else per_node({nos[j]: (p if j == 1 else 0) for j in nos})
        return network_from_edges(edges=[(nos[j + 1], nos[j]) for j in route['edge_order']], node_order_in_lists=ol, echelon_holding_cost=per_node(hb),
                                  shipment_lead_time=per_node(Lb), stockout_cost=so, demand_source=ds)
    if kind == 'add_node+add_edge':
        net = SupplyChainNetwork()
        for j in route['node_order']: net.add_node(node(j))
        for j in route['edge_order']: net.add_edge(nos[j + 1], nos[j])
        return net
    if kind == 'add_successor/add_predecessor':
        net = SupplyChainNetwork(); nd = {}; lo = hi = None
        for j in route['node_order']:
            nd[j] = node(j)
            if lo is None: net.add_node(nd[j]); lo = hi = j
            elif j > hi: net.add_predecessor(nd[hi], nd[j]); hi = j
            else: net.add_successor(nd[lo], nd[j]); lo = j
        return net
    if kind == 'reindex_nodes':
        tmp = {j: route['tmp_ids'][j - 1] for j in nos}
        net = serial_system(num_nodes=N, node_order_in_system=[tmp[j] for j in range(N, 0, -1)], echelon_holding_cost={tmp[j]: hb[nos[j]] for j in nos},
                            shipment_lead_time={tmp[j]: Lb[nos[j]] for j in nos}, stockout_cost=p, demand_source=ds)
        net.reindex_nodes({tmp[j]: nos[j] for j in nos})
        return net
    if kind == 'to_dict/from_dict':
        return SupplyChainNetwork.from_dict(build_network(route['inner'], N, nos, hb, Lb, p, ds, ol, shape).to_dict())
    raise ValueError(kind)


def route_label(route):
    return route['kind'] if route['kind'] != 'to_dict/from_dict' else 'to_dict/from_dict(%s)' % route['inner']['kind']


def storage_order(net, nos):
    """how the node list of the network object is stored relative to the chain."""
    N = len(nos); ids = list(net.node_indices)
    if N == 1: return 'single node'
    if ids == [nos[j] for j in range(N, 0, -1)]: return 'upstream first'
    if ids == [nos[j] for j in range(1, N + 1)]: return 'downstream first'
    return 'neither (%s)' % ('sink last' if ids[-1] == nos[1] else 'sink not last')


def relist(rng, sup, w):
    """a custom-discrete demand is a list of values and a list of probabilities in the same order - any order: list the (value, weight) pairs
    in increasing order of the values (40 %), in decreasing order (20 %) or shuffled (40 %)."""
    pairs = sorted(zip(sup, w)); u = rng.random()
    if u < 0.2: pairs.reverse()
    elif u < 0.6: rng.shuffle(pairs)
    return [a for a, _ in pairs], [b for _, b in pairs]


def cd_listing(dem):
    sup = list(dem['support'])
    return 'increasing' if sup == sorted(sup) else ('decreasing' if sup == sorted(sup, reverse=True) else 'shuffled')


def gen_malformed(rng):
    c = gen_case(rng, 3, kinds=('UD', 'CD'))
    c['malformed'] = rng.choice([k for k in ('negative-stockout', 'zero-lead-time', 'negative-lead-time', 'missing-holding-cost',
                                             'no-lead-time', 'no-holding-cost', 'no-stockout-cost', 'no-demand')      # no-...: the argument is not passed at all
                                 if not (ZERO_LEAD_TIME_VALID and k == 'zero-lead-time')])
    c['form'] = 'params'; c['shape'] = 'list'
    return c


def gen_fine(rng, nmax):
    """fine-parameter regime: demand parameters that are not round numbers (more than two decimals), slow movers with long lead times,
    custom-discrete demands with long supports."""
    reg = rng.choice(['P-slow', 'P-slow', 'P-fine', 'P-fine', 'CD-long', 'CD-long', 'CD-long', 'N-fine'])
    c = gen_case(rng, nmax if reg != 'N-fine' else min(nmax, 2), kinds=('UD',))      # stages, costs, numbering, shape, form as in the regular stream
    N = c['N']; c['tails'] = None
    if reg != 'CD-long': c['L'] = [max(1, l) for l in c['L']]; c.pop('zero_lead_time', None)      # zero lead times: discrete demand of the regular generator only
    if reg == 'P-slow':
        c['dem'] = dict(kind='P', mean=rng.randint(2, 60) / 1000)
        c['L'] = [rng.randint(3, 30) for _ in range(N)]
        if rng.random() < 0.4:
            t = rng.choice([1e-6, 1e-9])
            c['tails'] = dict(ltd_lower_tail_prob=t, ltd_upper_tail_prob=t, sum_ltd_lower_tail_prob=t, sum_ltd_upper_tail_prob=t)
    elif reg == 'P-fine':
        c['dem'] = dict(kind='P', mean=rng.randint(300, 6000) / 1000)
    elif reg == 'CD-long':
        sup = sorted(rng.sample(range(0, 14), rng.randint(9, 12)))
        sup, w = relist(rng, sup, [rng.randint(1, 9) for _ in sup])
        c['dem'] = dict(kind='CD', support=sup, weights=w)
    else:
        c['dem'] = dict(kind='N', mean=rng.randint(3000, 8000) / 1000, sd=rng.randint(500, 1500) / 1000)
        c['grid'] = [400, 100]      # x_num, d_num: with non-round mean / sd the discretisation error of the 120 x 30 grid of the normal stream reaches 5 %
    c['regime'] = reg
    return c


def gen_sibling(rng, c0):
    """the next instance of a sensitivity study: everything as in c0 except slightly different demand parameters."""
    c = json.loads(json.dumps(jsonable(c0))); c.pop('prior', None)
    d = c['dem']
    if d['kind'] == 'P':
        m = d['mean']
        if m < 0.1 or rng.random() < 0.4: m2 = round(m * rng.choice([0.4, 0.5, 0.65, 1.5, 2, 2.5]), 4)
        else: m2 = round(m + rng.choice([-1, 1]) * rng.randint(1, 4) / 1000, 4)
        if m2 <= 0 or m2 == m: m2 = round(m * 1.5, 4)
        d['mean'] = m2; how = 'mean'
    elif d['kind'] == 'UD':
        d['hi'] += rng.randint(1, 2); how = 'range'
    elif d['kind'] == 'CD':
        w = d['weights']; n = len(w)
        idx = list(range(n)); how = 'swap-anywhere'
        if rng.random() < 0.5: idx = idx[-min(n, rng.randint(2, 4)):]; how = 'swap-among-last-listed'      # = the upper tail when the values are listed in increasing order
        pairs = [(a, b) for a in idx for b in idx if a < b and w[a] != w[b]]
        if pairs:
            a, b = rng.choice(pairs); w[a], w[b] = w[b], w[a]
        else:
            w[-1] += 1; how = 'last-weight'
    else:
        k = rng.choice(['mean', 'sd']); d[k] = round(d[k] + rng.choice([-1, 1]) * rng.randint(1, 4) / 1000, 4); how = k
    c['perturbed'] = how
    return c


def gen_chain(rng, nmax):
    """2..3 closely related instances to be solved one after the other in one process; returns the list of cases, case k carrying its
    predecessors in c['prior'] (so that a replay can re-create the session)."""
    c0 = gen_fine(rng, nmax) if rng.random() < 0.75 else gen_case(rng, nmax)
    reuse = rng.random() < 0.3
    if reuse: c0['form'] = 'params'
    c0['reuse_ds'] = reuse
    chain = [c0]
    for _ in range(rng.choice([1, 1, 2])):
        c = gen_sibling(rng, chain[-1])
        c['prior'] = [{k: v for k, v in q.items() if k != 'prior'} for q in chain]
        chain.append(c)
    return chain


def make_ds(dem):
    from stockpyl.demand_source import DemandSource
    if dem['kind'] == 'P': return DemandSource(type='P', mean=dem['mean'])
    if dem['kind'] == 'UD': return DemandSource(type='UD', lo=dem['lo'], hi=dem['hi'])
    if dem['kind'] == 'CD':
        s = sum(dem['weights'])
        return DemandSource(type='CD', demand_list=list(dem['support']), probabilities=[w / s for w in dem['weights']])
    return DemandSource(type='N', mean=dem['mean'], standard_deviation=dem['sd'])


# ------------------------------------------------------------------------------------------------ implementation adapter

def node_of_stage(c):
    N = c['N']
    return {j: c['order_sys'][N - j] for j in range(1, N + 1)}


def mutate_ds(ds, dem):
    """re-set the attributes of an existing DemandSource object (same type)."""
    if dem['kind'] == 'P': ds.mean = dem['mean']
    elif dem['kind'] == 'UD': ds.lo = dem['lo']; ds.hi = dem['hi']
    elif dem['kind'] == 'CD':
        s = sum(dem['weights']); ds.demand_list = list(dem['support']); ds.probabilities = [w / s for w in dem['weights']]
    else: ds.mean = dem['mean']; ds.standard_deviation = dem['sd']


def impl_kwargs(c, order_sys=None, order_lists=None, shape=None, form=None, default_order=None, ds_obj=None, route=None, extra=None, dem_form=None):
    """route: how the network object is put together when form == 'network' (default: the case's own route; serial_system for cases without one).
    extra: further keyword arguments (x, x_num, d_num). dem_form = 'mean-sd': normal demand passed as demand_mean / demand_standard_deviation
    (parameter form only)."""
    N = c['N']
    os_ = list(order_sys if order_sys is not None else c['order_sys'])
    ol = list(order_lists if order_lists is not None else c['order_lists'])
    shape = shape or c['shape']; form = form or c['form']
    default_order = c['default_order'] if default_order is None else default_order
    nos = {j: os_[N - j] for j in range(1, N + 1)}
    hb = {nos[j]: c['h'][j - 1] for j in nos}; Lb = {nos[j]: c['L'][j - 1] for j in nos}
    p = c['p']
    if c.get('malformed') == 'negative-stockout': p = -abs(p)
    if c.get('malformed') == 'zero-lead-time': Lb[nos[1]] = 0
    if c.get('malformed') == 'negative-lead-time': Lb[nos[N]] = -1
    if c.get('malformed') == 'missing-holding-cost': hb[nos[1]] = None
    hv = dict(hb) if shape == 'dict' else [hb[n] for n in ol]
    Lv = dict(Lb) if shape == 'dict' else [Lb[n] for n in ol]
    ds = ds_obj if ds_obj is not None else make_ds(c['dem'])
    kw = {}
    if form == 'network':
        kw['network'] = build_network(route or c.get('route') or dict(kind='serial_system'), N, nos, hb, Lb, p, ds, ol, shape)
    else:
        kw.update(num_nodes=N, echelon_holding_cost=hv, lead_time=Lv, stockout_cost=p, demand_source=ds)
        if not default_order:
            kw.update(node_order_in_system=os_, node_order_in_lists=ol)
    if c['tails']: kw.update(c['tails'])
    if c['dem']['kind'] == 'N': kw.update(x_num=(c.get('grid') or [120, 30])[0], d_num=(c.get('grid') or [120, 30])[1])
    if dem_form == 'mean-sd' and 'demand_source' in kw:
        del kw['demand_source']; kw.update(demand_mean=c['dem']['mean'], demand_standard_deviation=c['dem']['sd'])
    m = c.get('malformed')
    if m in ('no-lead-time', 'no-holding-cost', 'no-stockout-cost', 'no-demand'):
        kw.pop({'no-lead-time': 'lead_time', 'no-holding-cost': 'echelon_holding_cost', 'no-stockout-cost': 'stockout_cost', 'no-demand': 'demand_source'}[m])
    if extra: kw.update(extra)
    return kw, nos


def run_impl(c, S_by_stage=None, **over):
    """returns ('ok', {stage j: level}, cost, raw dict) or ('err', kind, msg). S_by_stage: {j: level} (evaluation mode)."""
    from stockpyl.ssm_serial import optimize_base_stock_levels
    try:
        kw, nos = impl_kwargs(c, **over)
        if S_by_stage is not None:
            kw['S'] = {nos[j]: S_by_stage[j] for j in nos}
        S, C = optimize_base_stock_levels(**kw)
        if set(S.keys()) != set(nos.values()):
            return ('err', 'KeysDiffer', 'returned keys %r, nodes %r' % (sorted(S.keys()), sorted(nos.values())))
        lv = {j: (int(S[nos[j]]) if float(S[nos[j]]).is_integer() and c['dem']['kind'] != 'N' else float(S[nos[j]])) for j in nos}
        return ('ok', lv, float(C), {str(k): float(v) for k, v in S.items()})
    except Exception as e:
        return ('err', exc_kind(e), str(e)[:200])


def run_heuristic(c, weight=0.5, **over):
    """newsvendor_heuristic on the case: ('ok', {stage j: value}) or ('err', kind, msg)."""
    from stockpyl.ssm_serial import newsvendor_heuristic
    names = ('num_nodes', 'node_order_in_system', 'node_order_in_lists', 'echelon_holding_cost', 'lead_time', 'stockout_cost', 'demand_source', 'network')
    try:
        kw, nos = impl_kwargs(c, **over)
        Sh = newsvendor_heuristic(**{a: v for a, v in kw.items() if a in names}, weight=weight)
        return ('ok', {j: float(Sh[nos[j]]) for j in nos})
    except Exception as e:
        return ('err', exc_kind(e), str(e)[:200])


def malformed_fails(c, r):
    out = []
    if r[0] != 'err' or r[1] != 'ValueError':
        out.append(('optimize_base_stock_levels|malformed-%s-accepted' % c['malformed'], 'malformed input (%s) not rejected with ValueError: %r' % (c['malformed'], r[:3])))
    hr = run_heuristic(c)      # same validation is documented for newsvendor_heuristic
    if hr[0] != 'err' or hr[1] != 'ValueError':
        out.append(('newsvendor_heuristic|malformed-%s-accepted' % c['malformed'], 'malformed input (%s) not rejected with ValueError: %r' % (c['malformed'], hr[:3])))
    return out


def run_chain(c):
    """solve the instances of c['prior'] and then c, one after the other in this process (each with a fresh DemandSource object, or - reuse_ds - with
    one object whose attributes are re-set between the calls); returns run_impl's result for c."""
    ds = None; r = None
    for q in list(c.get('prior') or []) + [c]:
        if c.get('reuse_ds'):
            if ds is None: ds = make_ds(q['dem'])
            else: mutate_ds(ds, q['dem'])
            r = run_impl(q, ds_obj=ds, form='params')
        else:
            r = run_impl(q)
    return r


def _fix(r):
    r = list(r)
    if r[0] == 'ok': r[1] = {int(k): v for k, v in r[1].items()}
    return tuple(r)


def _isolated_one(job):
    """runs in a process forked from a parent that has imported the library but never solved anything.
    ('alone', c): solve c, nothing else. ('session', c, seed): what a replay of c does - solve c['prior'] and then c in this process, then the oracle on c."""
    import random
    if job[0] == 'alone':
        return jsonable(run_impl(job[1]))
    _, c, seed = job
    r = run_chain(c) if c.get('prior') else run_impl(c)
    bad = oracle(None, c, r, random.Random(seed)) if r[0] == 'ok' and not c.get('malformed') else []
    return jsonable([r, bad])


def _isolated_main():
    import multiprocessing as mp
    import scipy.stats, stockpyl.ssm_serial, stockpyl.supply_chain_network, stockpyl.newsvendor      # imports only - no solve before the fork
    jobs = json.load(sys.stdin)
    with mp.get_context('fork').Pool(min(8, max(1, len(jobs))), maxtasksperchild=1) as pool:
        out = pool.map(_isolated_one, jobs, chunksize=1)
    print('@@ISOLATED@@' + json.dumps(out))


def start_isolated(jobs):
    """every job in a process of its own (see _isolated_one); returns a handle for collect_isolated (the work runs concurrently with the caller)."""
    if not jobs: return None
    pr = subprocess.Popen([sys.executable, '-c', 'import props.c07 as m; m._isolated_main()'], stdin=subprocess.PIPE, stdout=subprocess.PIPE,
                          stderr=subprocess.PIPE, text=True, cwd=os.path.dirname(os.path.dirname(os.path.abspath(__file__))))
    import threading
    box = {}
    def pump(): box['out'], box['err'] = pr.communicate(json.dumps(jsonable(jobs)))
    th = threading.Thread(target=pump); th.start()
    return (th, box)


def collect_isolated(handle):
    if handle is None: return []
    th, box = handle
    th.join(3000)
    for line in (box.get('out') or '').split('\n'):
        if line.startswith('@@ISOLATED@@'):
            return json.loads(line[len('@@ISOLATED@@'):])
    raise RuntimeError('isolated runs: child failed: %s' % ((box.get('err') or '')[-400:],))


def solve_alone(cases):
    """result of run_impl for each case when it is the only instance ever solved in its process."""
    return [_fix(r) for r in collect_isolated(start_isolated([['alone', c] for c in cases]))]


def history_diff(c, r, alone):
    """r = result for c at the end of its session (after c['prior']), alone = result for c solved alone in a fresh process."""
    same = r[0] == alone[0] and (r[1:3] == alone[1:3] if r[0] == 'err' else (r[1] == alone[1] and rel_close(r[2], alone[2], 1e-12)))
    if same: return None
    return ('optimize_base_stock_levels|result-depends-on-earlier-calls',
            'solved after %s (%s) the instance with demand %r returns %r, solved alone in a fresh process it returns %r'
            % (', '.join(repr(q['dem']) for q in c['prior']), 'same DemandSource object, attributes re-set' if c.get('reuse_ds') else 'fresh DemandSource objects',
               c['dem'], r[1:3], alone[1:3]))


# ------------------------------------------------------------------------------------------------ grids / tables exactly as the code builds them

def tables(c, S_max=None):
    """x grid, x_ext_num, mean and per-stage (d, fd) of optimize_base_stock_levels for a discrete demand (ssm_serial.py 266-402)."""
    t = dict(_tails_default()); t.update(c['tails'] or {})
    ds = make_ds(c['dem']); N = c['N']; L = [0] + list(c['L'])
    mu = ds.demand_distribution.mean()
    sd = ds.lead_time_demand_distribution(sum(L))
    lo = sd.ppf(t['sum_ltd_lower_tail_prob']) if sd.a == float('-inf') else sd.interval(1)[0]
    hi = sd.ppf(1 - t['sum_ltd_upper_tail_prob']) if sd.b == float('inf') else sd.interval(1)[1]
    x_lo = lo - hi; x_hi = hi
    if S_max is not None: x_hi = max(x_hi, S_max)
    x_lo = round(x_lo); x_num = round(x_hi - x_lo)
    x_ext_num = math.ceil(hi / 1)
    st = []
    for j in range(1, N + 1):
        ld = ds.lead_time_demand_distribution(L[j])
        d_lo = max(ld.ppf(t['ltd_lower_tail_prob']), float()) if ld.a == float('-inf') else max(ld.interval(1)[0], float())
        d_hi = max(ld.ppf(float(1) - t['ltd_upper_tail_prob']), d_lo) if ld.b == float('inf') else max(ld.interval(1)[1], d_lo)
        d_lo = round(d_lo); num = round(d_hi - d_lo)
        d = np.array([i + d_lo for i in range(num + 1)
                      if (ld.cdf((i + 0.5) + d_lo) if i != num else float(1)) > (ld.cdf((i - 0.5) + d_lo) if i else float())])
        fd = [(ld.cdf(d[i] + 0.5) if i + 1 != d.size else float(1)) - (ld.cdf(d[i] - 0.5) if i else float()) for i in range(d.size)]
        st.append(([int(v) for v in d], [float(v) for v in fd]))
    return dict(mu=float(mu), x_lo=int(x_lo), x_num=int(x_num), x_ext=int(x_ext_num), stages=st)


def model_expr(c, tb, S_by_stage=None, detail=False):
    N = c['N']; nos = node_of_stage(c); ol = c['order_lists']
    hb = {nos[j]: c['h'][j - 1] for j in nos}; Lb = {nos[j]: c['L'][j - 1] for j in nos}
    tbls = clist(['(%s, %s)' % (clist([cz(v) for v in d]), cqlist(f)) for d, f in tb['stages']])
    head = '%s %s %s %s %s' % (cz(tb['x_lo']), cnat(tb['x_num']), cnat(tb['x_ext']), cq(c['p']), cq(tb['mu']))
    if detail:
        stages = 'mk_stages %s %s %s (repeat None %d)' % (cqlist(c['h']), cqlist(c['L']), tbls, N)
        return 'map (fun o => (out_S o, map qobs (out_tbl o))) (ssm %s (%s))' % (head, stages)
    sg = 'None'
    if S_by_stage is not None:
        keys = list(nos.values())
        sg = '(Some (%s, %s))' % (clist([cnat(k) for k in keys]), clist([cz(S_by_stage[j]) for j in nos]))
    return ('match ssm_params %s %s %s %s %s %s %s with Some r => Some (fst r, qobs (snd r)) | None => None end'
            % (head, clist([cnat(n) for n in c['order_sys']]), clist([cnat(n) for n in ol]),
               cqlist([hb[n] for n in ol]), cqlist([Lb[n] for n in ol]), tbls, sg))


# ------------------------------------------------------------------------------------------------ independent mathematics for the oracle

def base_pmf(dem, exact=True):
    if dem['kind'] == 'UD':
        n = dem['hi'] - dem['lo'] + 1
        return {k: Fraction(1, n) for k in range(dem['lo'], dem['hi'] + 1)}
    if dem['kind'] == 'CD':
        s = sum(dem['weights'])
        return {k: Fraction(w, s) for k, w in zip(dem['support'], dem['weights'])}
    if dem['kind'] == 'P':
        m = dem['mean']; out = {}; q = math.exp(-m); k = 0
        while k < m or q > 1e-18:
            out[k] = q; k += 1; q = q * m / k
        return out
    raise ValueError(dem['kind'])


def conv(a, b):
    r = {}
    for x, px in a.items():
        for y, py in b.items():
            r[x + y] = r.get(x + y, 0) + px * py
    return r


def ltd_pmfs(c, as_float=False):
    base = base_pmf(c['dem'])
    if as_float: base = {k: float(v) for k, v in base.items()}
    out = {}
    for j in range(1, c['N'] + 1):
        g = {0: (1.0 if as_float else (Fraction(1) if c['dem']['kind'] != 'P' else 1.0))}
        for _ in range(c['L'][j - 1]): g = conv(g, base)
        if c['dem']['kind'] == 'P':
            g = {k: v for k, v in g.items() if v > 1e-17}
        out[j] = sorted(g.items())
    return out


def topdown(c, pm, S, memo=None):
    """exact expected cost of echelon base-stock levels S = [S_1, ..., S_N]: IP_j = min(S_j, IL_{j+1}), IL_j = IP_j - D_j,
    cost = sum_j h_j IL_j + (p + sum h) IL_1^- ; memoised on (stage, IP, levels of the stages below), the memo may be shared
    between calls with the same c and pm."""
    N = c['N']; h = c['h']; H = sum(h); p = c['p']
    flt = isinstance(pm[1][0][1], float)
    if not flt:
        h = [Fraction(x) for x in h]; H = sum(h); p = Fraction(p)
    if memo is None: memo = {}
    S = [None] + list(S)
    def go(j, ip):
        key = (j, ip, tuple(S[1:j]))
        if key in memo: return memo[key]
        tot = 0
        for d, f in pm[j]:
            il = ip - d
            nxt = go(j - 1, min(S[j - 1], il)) if j > 1 else (p + H) * max(-il, 0)
            tot += f * (h[j - 1] * il + nxt)
        memo[key] = tot
        return tot
    return go(N, S[N])


def fractile(g, r):
    cacc = 0
    for y, f in g:
        cacc += f
        if cacc >= r: return y
    return g[-1][0]


def cum_pmfs(c):
    base = {k: float(v) for k, v in base_pmf(c['dem']).items()}
    out = {}; g = {0: 1.0}
    for j in range(1, c['N'] + 1):
        for _ in range(c['L'][j - 1]): g = conv(g, base)
        if c['dem']['kind'] == 'P': g = {k: v for k, v in g.items() if v > 1e-18}
        out[j] = sorted(g.items())
    return out


def rel_close(a, b, rel):
    return abs(float(a) - float(b)) <= rel * max(1.0, abs(float(a)), abs(float(b)))


# ------------------------------------------------------------------------------------------------ oracle

def oracle(chk, c, r, rng, budget=1.0):
    """property monitors on the implementation's own output. r = run_impl(c) (optimisation). Returns list of (sig, what)."""
    bad = []
    _, lv, Cstar, raw = r
    N = c['N']; kind = c['dem']['kind']
    default_numbering = c['order_sys'] == list(range(N, 0, -1))
    # (a) evaluation mode with the returned levels returns the reported optimum
    e = run_impl(c, S_by_stage=lv)
    if e[0] == 'err' or not rel_close(e[2], Cstar, 1e-12) or e[1] != lv:
        sig = SIG_EVAL_ORDER if not default_numbering else 'optimize_base_stock_levels|S-given|cost-differs-from-optimum'
        bad.append((sig, 'optimise -> S*=%r C*=%r, but evaluating S* gives %r' % (raw, Cstar, e[1:3] if e[0] == 'ok' else e)))
    if kind == 'N':
        return bad + oracle_normal(c, r)
    tolc = 1e-9 if kind != 'P' else max(1e-3, 20 * max((c['tails'] or {'x': 0}).values()))      # documented tail-truncation error
    pmx = ltd_pmfs(c)                                   # exact rationals for UD / CD, floats for Poisson
    pmf_ = ltd_pmfs(c, as_float=True)
    # (c1) reported optimum = exact expected cost of the returned levels
    tc = topdown(c, pmx, [lv[j] for j in range(1, N + 1)])
    if not rel_close(tc, Cstar, tolc):
        bad.append(('optimize_base_stock_levels|reported-cost-not-cost-of-levels', 'C*=%r but the exact expected cost of S*=%r is %r' % (Cstar, lv, float(tc))))
    # (c2) cost reported for other level vectors (evaluation mode / expected_cost) = their exact expected cost
    x_lo = tables(c)['x_lo']
    for k in range(3):
        Sr = {j: max(0 if PROBE_LEVEL_ZERO else 1, lv[j] + rng.randint(-4, 4)) for j in lv}
        if PROBE_LEVEL_ZERO and k == 1 and rng.random() < 0.3: Sr[rng.randint(1, N)] = 0
        if k == 2:      # very low levels: the cost then depends on the linear continuation below the grid
            Sr = {j: x_lo + rng.randint(0, 6) for j in lv}
        tcr = topdown(c, pmf_, [Sr[j] for j in range(1, N + 1)])
        if k != 1 or not (c['form'] == 'network' or c['default_order']):
            e = run_impl(c, S_by_stage=Sr); val = e[2] if e[0] == 'ok' else None; call = 'optimize_base_stock_levels(S=...)'
        else:
            from stockpyl.ssm_serial import expected_cost
            kw, nos = impl_kwargs(c)
            try: val = float(expected_cost({nos[j]: Sr[j] for j in nos}, **{k_: v for k_, v in kw.items() if k_ not in ('node_order_in_system', 'node_order_in_lists')}))
            except Exception as ex: val = None; e = ('err', exc_kind(ex), str(ex)[:200])
            call = 'expected_cost'
        if val is None or not rel_close(val, tcr, max(tolc, 1e-9)):
            sig = '%s|cost-of-given-levels-not-exact' % call.split('(')[0]
            bad.append((sig, '%s for levels %r returns %r, exact expected cost is %r' % (call, Sr, val if val is not None else e, tcr)))
    # (c2') expected_holding_cost of a probe vector = its exact expected holding cost (= expected cost at stockout cost 0); through the primary form
    # where the function can take it (it has no node-order arguments), otherwise through the alt-route network under the alt labelling
    if c.get('probe_ehc', True):
        from stockpyl.ssm_serial import expected_holding_cost
        Sr = {j: max(0 if PROBE_LEVEL_ZERO else 1, lv[j] + rng.randint(-4, 4)) for j in lv}
        if PROBE_LEVEL_ZERO and rng.random() < 0.3: Sr[rng.randint(1, N)] = 0
        c0 = dict(c, p=0); th = topdown(c0, pmf_, [Sr[j] for j in range(1, N + 1)])
        if c['form'] == 'network' or c['default_order']: kw, nos = impl_kwargs(c); how = 'primary form (%s)' % c['form']
        else:
            ids = list(c.get('alt_ids') or c['order_sys']); art = c.get('alt_route') or dict(kind='serial_system')
            kw, nos = impl_kwargs(c, form='network', route=art, order_sys=ids, order_lists=ids[::-1], default_order=False); how = describe_route(c, art, order_sys=ids, order_lists=ids[::-1])
        try: val = float(expected_holding_cost({nos[j]: Sr[j] for j in nos}, **{k_: v for k_, v in kw.items() if k_ not in ('node_order_in_system', 'node_order_in_lists')})); err = None
        except Exception as ex: val = None; err = (exc_kind(ex), str(ex)[:200])
        if val is None or not rel_close(val, th, max(tolc, 1e-9)):
            bad.append(('expected_holding_cost|cost-of-given-levels-not-exact', 'expected_holding_cost for levels by stage %r returns %r, exact expected holding cost is %r; %s'
                        % (Sr, val if val is not None else err, th, how)))
    # (c2'') documented forms of the truncation / discretisation grid
    if c.get('grid_forms'): bad += grid_forms(c, r, tolc, pmf_)
    # (c3) optimality: neighbourhood of S* (all vectors within +-2) and a coarse global grid
    tol_opt = tolc * max(1.0, abs(Cstar))
    base = [lv[j] for j in range(1, N + 1)]
    worst = None
    rad = 2 if N <= 3 else 1
    cand = itertools.product(*[range(b - rad, b + rad + 1) for b in base])
    top = max(base) + 4; step = max(1, top // (6 if N <= 3 else 4))
    coarse = itertools.product(*[range(0, top + 1, step) for _ in range(N)])
    shared = {}
    for vec in itertools.chain(cand, coarse):
        v = topdown(c, pmf_, list(vec), shared)
        if v < Cstar - tol_opt and (worst is None or v < worst[0]): worst = (v, vec)
    if worst:
        bad.append(('optimize_base_stock_levels|not-optimal', 'levels %r cost %r < reported optimum %r at S*=%r' % (list(worst[1]), worst[0], Cstar, base)))
    # (b) one stage = newsvendor
    if N == 1:
        from stockpyl.newsvendor import newsvendor_discrete, newsvendor_poisson
        h1 = c['h'][0]
        try:
            if kind == 'P':
                Snv, Cnv = newsvendor_poisson(h1, c['p'], c['dem']['mean'] * c['L'][0])
            else:
                Snv, Cnv = newsvendor_discrete(h1, c['p'], demand_pmf={k: v for k, v in pmf_[1]})
            if not rel_close(Cnv, Cstar, tolc):
                bad.append(('optimize_base_stock_levels|one-stage-cost-not-newsvendor', 'N=1: C*=%r, newsvendor cost %r' % (Cstar, float(Cnv))))
            if int(Snv) != lv[1] and not rel_close(topdown(c, pmf_, [int(Snv)]), topdown(c, pmf_, [lv[1]]), max(1e-7, tolc)):
                bad.append(('optimize_base_stock_levels|one-stage-level-not-newsvendor', 'N=1: S*=%r, newsvendor level %r' % (lv[1], Snv)))
        except Exception as ex:
            bad.append(('newsvendor|raises-%s' % exc_kind(ex), str(ex)[:200]))
    # (d) Shang-Song newsvendor bounds bracket S*_j (independent fractiles), and newsvendor_heuristic exposes them
    cp = cum_pmfs(c); H = sum(c['h']); p = c['p']; eps = 1e-9
    yl = {}; yu = {}
    for j in range(1, N + 1):
        up = sum(c['h'][j:]); ge = sum(c['h'][j - 1:])
        rl = (p + up) / (p + H); ru = (p + up) / (p + ge)
        yl[j] = (fractile(cp[j], rl - eps), fractile(cp[j], rl + eps)); yu[j] = (fractile(cp[j], ru - eps), fractile(cp[j], ru + eps))
        tolb = 0 if kind != 'P' else 1
        if not (yl[j][0] - tolb <= lv[j] <= yu[j][1] + tolb):
            # tolerate a flat optimum: compare the stage cost through the exact evaluator
            alt = dict(lv); alt[j] = min(max(lv[j], yl[j][0]), yu[j][1])
            if not rel_close(topdown(c, pmf_, [alt[i] for i in range(1, N + 1)]), Cstar, 1e-7):
                bad.append(('optimize_base_stock_levels|outside-shang-song-bounds', 'stage %d: S*=%r outside [%r, %r]' % (j, lv[j], yl[j][0], yu[j][1])))
    from stockpyl.ssm_serial import newsvendor_heuristic
    kw, nos = impl_kwargs(c)
    kwh = {k_: v for k_, v in kw.items() if k_ in ('num_nodes', 'node_order_in_system', 'node_order_in_lists', 'echelon_holding_cost', 'lead_time',
                                                  'stockout_cost', 'demand_source', 'network')}
    fam = 'P-demand' if kind == 'P' else 'UD-CD-demand'
    try:
        Sl = newsvendor_heuristic(**kwh, weight=1); Su = newsvendor_heuristic(**kwh, weight=0)
        for j in range(1, N + 1):
            a, b = float(Sl[nos[j]]), float(Su[nos[j]])
            if not (yl[j][0] <= a <= yl[j][1] and yu[j][0] <= b <= yu[j][1]):
                bad.append(('newsvendor_heuristic|%s|bounds-not-fractiles' % fam,
                            'stage %d: newsvendor_heuristic bounds (weight=1, weight=0) = (%r, %r), newsvendor fractiles %r, %r; S*=%r' % (j, a, b, yl[j], yu[j], lv[j])))
                break
    except Exception as ex:
        bad.append(('newsvendor_heuristic|%s|raises-%s' % (fam, exc_kind(ex)), str(ex)[:200]))
    # (e) relabelling / list order / shape / form invariance
    bad += invariance(c, r, rng)
    return bad


def grid_forms(c, r, tolc, pmf_):
    """integer-demand instance, grid passed in its documented forms (x: explicit ndarray; x_num, d_num: 'ignored if a discrete distribution is provided').
    r = result on the default grid [x_lo, x_hi] (integers, recomputed by tables(c)). Spec g = c['grid_forms'].
      same grid:   x = the default grid as an int array and as a float arange / linspace  -> levels and cost of r
      x_num/d_num: arbitrary values passed                                                 -> levels and cost of r
      user grid:   x = integers g.lo..hi_u (g.lo <= 0; hi_u = g.hi ('short': may cut the optimum off) or beyond the default top ('wide')), as an int array and
                   as a float linspace -> the two agree; the reported cost is the exact expected cost of the returned levels; every S_j is on the grid and
                   minimises, over the grid, the exact cost of the j-stage subsystem given the levels below (that is what the algorithm computes when the
                   grid is the decision set; below a grid that starts at or below 0 the cost is exactly linear, so the continuation used there is exact);
                   when the grid contains the default-grid optimum the result is that optimum
      one point:   x = [v], v <= 0 -> every level is v and the cost is the exact cost of (v, ..., v)."""
    bad = []; g = c['grid_forms']; N = c['N']; _, lv, Cstar, raw = r
    tb = tables(c); X0 = tb['x_lo']; X1 = X0 + tb['x_num']
    tol = max(tolc, 1e-9)
    def run(x=None, **kw):
        ex = dict(kw)
        if x is not None: ex['x'] = x
        return run_impl(c, extra=ex)
    def same(a, what):
        if a[0] == 'err' or a[1] != lv or not rel_close(a[2], Cstar, 1e-12):
            bad.append(('optimize_base_stock_levels|grid-form|same-grid-other-description-changes-result', '%s: %r vs default call %r' % (what, a[1:3], (lv, Cstar))))
    same(run(np.arange(X0, X1 + 1)), 'x = np.arange(%d, %d) (the default grid, int)' % (X0, X1 + 1))
    if g['same_as'] == 'linspace': same(run(np.linspace(X0, X1, X1 - X0 + 1)), 'x = np.linspace(%d, %d, %d) (the default grid)' % (X0, X1, X1 - X0 + 1))
    else: same(run(np.arange(X0, X1 + 1, dtype=float)), 'x = np.arange(%d, %d, dtype=float) (the default grid)' % (X0, X1 + 1))
    same(run(x_num=g['x_num'], d_num=g['d_num']), 'x_num=%d, d_num=%d on integer demand (documented: ignored)' % (g['x_num'], g['d_num']))
    lo = g['lo']; hi = g['hi'] if g['top'] == 'short' else X1 + g['hi']
    a = run(np.arange(lo, hi + 1)); b = run(np.linspace(lo, hi, hi - lo + 1)); what = 'x = integers %d..%d' % (lo, hi)
    if a[0] == 'err' or b[0] == 'err' or a[1] != b[1] or not rel_close(a[2], b[2], 1e-12):
        bad.append(('optimize_base_stock_levels|grid-form|same-grid-other-description-changes-result', '%s as int arange: %r, as float linspace: %r' % (what, a[1:3], b[1:3])))
    if a[0] == 'ok':
        ulv = a[1]; vec = [ulv[j] for j in range(1, N + 1)]
        if any(not (float(v).is_integer() and lo <= v <= hi) for v in vec):
            bad.append(('optimize_base_stock_levels|grid-form|level-not-on-user-grid', '%s: returned levels %r' % (what, ulv)))
        else:
            tc = topdown(c, pmf_, vec)
            if not rel_close(tc, a[2], tol):
                bad.append(('optimize_base_stock_levels|grid-form|reported-cost-not-cost-of-levels', '%s: C=%r but the exact expected cost of %r is %r' % (what, a[2], ulv, tc)))
            for j in range(1, N + 1):
                cj = dict(c, N=j, h=c['h'][:j], L=c['L'][:j], p=c['p'] + sum(c['h'][j:])); pj = {i: pmf_[i] for i in range(1, j + 1)}; memo = {}
                cost = {y: topdown(cj, pj, vec[:j - 1] + [y], memo) for y in range(lo, hi + 1)}
                best = min(cost, key=lambda y: cost[y])
                if cost[vec[j - 1]] > cost[best] + tol * max(1.0, abs(cost[best])):
                    bad.append(('optimize_base_stock_levels|grid-form|level-not-optimal-on-user-grid', '%s: stage %d level %r has cost %r (levels below %r), level %r on the grid has %r'
                                % (what, j, vec[j - 1], cost[vec[j - 1]], vec[:j - 1], best, cost[best])))
                    break
            # (costs compared at the tolerance of the demand family: for truncated infinite-support demand the implementation's truncation moves with the grid,
            # e.g. Poisson(2): 54.21530624 on -1..33 vs 54.21530402 on the default grid -26..25 for the same levels - the documented truncation error, not a violation)
            if lo <= min(lv.values()) and max(lv.values()) <= hi and not (ulv == lv and rel_close(a[2], Cstar, tol)):
                if not rel_close(a[2], Cstar, tol) or not rel_close(topdown(c, pmf_, vec), topdown(c, pmf_, [lv[j] for j in range(1, N + 1)]), tol):
                    bad.append(('optimize_base_stock_levels|grid-form|user-grid-containing-optimum-changes-result', '%s: %r vs default grid %d..%d: %r' % (what, a[1:3], X0, X1, (lv, Cstar))))
    v = g['single']; a = run(np.array([v]))
    if a[0] == 'err' or any(a[1][j] != v for j in a[1]) or not rel_close(a[2], topdown(c, pmf_, [v] * N), tol):
        bad.append(('optimize_base_stock_levels|grid-form|one-point-grid', 'x = [%d]: returns %r, exact expected cost of levels (%d, ..., %d) is %r' % (v, a[1:3], v, v, topdown(c, pmf_, [v] * N))))
    return bad


def irwin_hall_cdf(n, t):
    """P(U_1 + ... + U_n <= t), U_i independent uniform on [0, 1] (exact rational arithmetic on a float argument)."""
    t = Fraction(t)
    if t <= 0: return 0.0
    if t >= n: return 1.0
    return float(sum((-1) ** k * math.comb(n, k) * (t - k) ** n for k in range(0, math.floor(t) + 1)) / math.factorial(n))


def gen_uc(rng, nmax):
    c = gen_case(rng, nmax, kinds=('UD',))      # stages, costs, numbering, shape, form, routes as in the regular stream
    lo = rng.randint(0, 6); c['dem'] = dict(kind='UC', lo=lo, hi=lo + rng.randint(1, 8)); c['tails'] = None; c['stream'] = 'uc-heuristic'; c.pop('grid_forms', None)
    c['L'] = [max(1, l) for l in c['L']]; c.pop('zero_lead_time', None)
    return c


def uc_heuristic(c):
    """uniform-continuous demand, newsvendor_heuristic only (weight 1 and 0, primary form and alt-route network under the alt labelling): the bound of stage j is
    the point where the cdf of the demand over the lead times of stages 1..j (a shifted, scaled Irwin-Hall distribution, computed here exactly) reaches the
    newsvendor ratio (p + sum_{i>j} h_i) / (p + sum_i h_i) (weight 1) resp. (p + sum_{i>j} h_i) / (p + sum_{i>=j} h_i) (weight 0)."""
    from stockpyl.ssm_serial import newsvendor_heuristic
    from stockpyl.demand_source import DemandSource
    bad = []; N = c['N']; d = c['dem']; H = sum(c['h']); p = c['p']
    ds = DemandSource(type='UC', lo=d['lo'], hi=d['hi'])
    ids = list(c.get('alt_ids') or c['order_sys']); art = c.get('alt_route') or dict(kind='serial_system')
    names = ('num_nodes', 'node_order_in_system', 'node_order_in_lists', 'echelon_holding_cost', 'lead_time', 'stockout_cost', 'demand_source', 'network')
    for how, over in (('primary form (%s)' % c['form'], {}), ('alt-route network', dict(form='network', route=art, order_sys=ids, order_lists=ids[::-1], default_order=False))):
        try:
            kw, nos = impl_kwargs(c, ds_obj=ds, **over)
            kw = {a: v for a, v in kw.items() if a in names}
            for wt in ((1, 0) if not over else (sum(ids) % 2,)):      # one UC call takes 0.1 .. 0.5 s: the alt-route network gets one of the two weights
                Sh = newsvendor_heuristic(**kw, weight=wt)
                for j in range(1, N + 1):
                    up = sum(c['h'][j:]); ratio = (p + up) / (p + (H if wt == 1 else sum(c['h'][j - 1:])))
                    n = sum(c['L'][:j]); Fv = irwin_hall_cdf(n, (Fraction(float(Sh[nos[j]])) - n * d['lo']) / (d['hi'] - d['lo']))
                    if abs(Fv - ratio) > 1e-6:
                        bad.append(('newsvendor_heuristic|UC-demand|bounds-not-fractiles', '%s, weight=%d, stage %d: bound %r, where the cdf of the %d-period demand is %r; newsvendor ratio %r'
                                    % (how, wt, j, float(Sh[nos[j]]), n, Fv, ratio)))
                        break
        except Exception as ex:
            bad.append(('newsvendor_heuristic|UC-demand|raises-%s' % exc_kind(ex), '%s: %s' % (how, str(ex)[:200])))
    return bad


def invariance(c, r, rng):
    bad = []; N = c['N']; _, lv, Cstar, raw = r
    ids = rng.sample(range(0, 15), N)
    alt = run_impl(c, order_sys=ids, order_lists=rng.sample(ids, N), shape=('dict' if c['shape'] == 'list' else 'list'), form='params', default_order=False)
    if alt[0] == 'err' or alt[1] != lv or not rel_close(alt[2], Cstar, 1e-12):
        bad.append(('optimize_base_stock_levels|relabel-changes-result', 'node ids %r: %r vs original %r' % (ids, alt[1:3], (lv, Cstar))))
    other = 'network' if c['form'] == 'params' else 'params'
    art = c.get('alt_route') or dict(kind='serial_system')
    alt = run_impl(c, form=other, default_order=False, route=art)
    if alt[0] == 'err' or alt[1] != lv or not rel_close(alt[2], Cstar, 1e-12):
        bad.append(('optimize_base_stock_levels|network-vs-params-differ', '%s form%s: %r vs %s form %r'
                    % (other, ' (%s)' % describe_route(c, art) if other == 'network' else '', alt[1:3], c['form'], (lv, Cstar))))
    bad += route_invariance(c, r, art)
    if c['dem']['kind'] == 'N':      # normal demand passed as demand_mean / demand_standard_deviation instead of a DemandSource object
        alt = run_impl(c, form='params', default_order=False, dem_form='mean-sd')
        if alt[0] == 'err' or alt[1] != lv or not rel_close(alt[2], Cstar, 1e-12):
            bad.append(('optimize_base_stock_levels|N-demand|mean-sd-arguments-vs-demand-source-differ', 'demand_mean=%r, demand_standard_deviation=%r: %r vs DemandSource: %r'
                        % (c['dem']['mean'], c['dem']['sd'], alt[1:3], (lv, Cstar))))
    if c['dem']['kind'] == 'CD':      # the same custom-discrete demand with its (value, probability) pairs listed in another order
        d = c['dem']; pairs = list(zip(d['support'], d['weights'])); srt = sorted(pairs)
        if pairs != srt: new = srt
        else:
            new = srt[::-1]
            if rng.random() < 0.6:
                for _ in range(5):
                    cand = rng.sample(srt, len(srt))
                    if cand != srt: new = cand; break
        d2 = dict(kind='CD', support=[a for a, _ in new], weights=[b for _, b in new])
        alt = run_impl(c, ds_obj=make_ds(d2))
        if alt[0] == 'err' or alt[1] != lv or not rel_close(alt[2], Cstar, 1e-12):
            bad.append(('optimize_base_stock_levels|CD-demand|listing-order-changes-result',
                        'demand_list %r (probabilities in the same order): %r vs demand_list %r: %r' % (d2['support'], alt[1:3], list(d['support']), (lv, Cstar))))
    return bad


def describe_route(c, rt, **over):
    try:
        kw, nos = impl_kwargs(c, form='network', route=rt, **over)
        return 'network object built by %r, node list stored as %r = %s; stage -> node id %r' % (rt, list(kw['network'].node_indices), storage_order(kw['network'], nos), nos)
    except Exception as ex:
        return 'network object built by %r: construction raises %s: %s' % (rt, exc_kind(ex), str(ex)[:120])


def route_invariance(c, r, art):
    """the instance as a network object put together in another way (art = the case's alt_route: other construction call sequence, hence possibly
    another storage order of the node list) and, for expected_cost / newsvendor_heuristic, under another labelling (the case's alt_ids), through every
    entry point of ssm_serial: optimize_base_stock_levels must return the same levels and cost as for the primary form, expected_cost of the returned
    levels must be the reported optimum (same tail probabilities as the optimisation), newsvendor_heuristic must return the same bounds stage by stage
    as for the primary form."""
    from stockpyl.ssm_serial import expected_cost, newsvendor_heuristic
    bad = []; N = c['N']; _, lv, Cstar, raw = r
    if c['form'] == 'network':      # primary form is a network already (c['route']); art differs from it
        alt = run_impl(c, form='network', route=art)
        if alt[0] == 'err' or alt[1] != lv or not rel_close(alt[2], Cstar, 1e-12):
            bad.append(('optimize_base_stock_levels|network-form|construction-route-changes-result',
                        '%s: %r vs %s: %r' % (describe_route(c, art), alt[1:3], describe_route(c, c.get('route') or dict(kind='serial_system')), (lv, Cstar))))
    ids = list(c.get('alt_ids') or c['order_sys'])
    over = dict(order_sys=ids, order_lists=(ids[1:] + ids[:1]), shape=('dict' if c['shape'] == 'list' else 'list'), default_order=False)
    try:
        kw, nos = impl_kwargs(c, form='network', route=art, **over)
    except Exception as ex:
        return bad + [('network construction|raises-%s' % exc_kind(ex), describe_route(c, art, **over))]
    where = describe_route(c, art, **over)
    if PROBE_LEVEL_ZERO or all(lv[j] for j in lv):      # expected_cost refuses a level 0 (as the (c2) probes, which stay >= 1)
        ek = dict(_tails_default())      # expected_cost has another default for sum_ltd_upper_tail_prob than optimize_base_stock_levels: pass the ones of the optimisation
        ek.update({k_: v for k_, v in kw.items() if k_ not in ('node_order_in_system', 'node_order_in_lists')})
        try: val = float(expected_cost({nos[j]: lv[j] for j in nos}, **ek)); err = None
        except Exception as ex: val = None; err = (exc_kind(ex), str(ex)[:200])
        if val is None or not rel_close(val, Cstar, 1e-12):
            bad.append(('expected_cost|network-form|cost-of-optimal-levels-not-optimum', 'expected_cost of S* by stage %r returns %r, reported optimum (primary form: %s) is %r; %s'
                        % (lv, val if val is not None else err, c['form'], Cstar, where)))
    kw0, nos0 = impl_kwargs(c)
    names = ('num_nodes', 'node_order_in_system', 'node_order_in_lists', 'echelon_holding_cost', 'lead_time', 'stockout_cost', 'demand_source', 'network')
    for wt in (1, 0):
        res = []
        for k_, n_ in ((kw0, nos0), (kw, nos)):
            try:
                Sh = newsvendor_heuristic(**{a: v for a, v in k_.items() if a in names}, weight=wt)
                res.append({j: float(Sh[n_[j]]) for j in n_})
            except Exception as ex:
                res.append((exc_kind(ex), str(ex)[:200]))
        if res[0] != res[1] and not (isinstance(res[0], tuple) and isinstance(res[1], tuple) and res[0][0] == res[1][0]):
            bad.append(('newsvendor_heuristic|network-form|construction-route-changes-result', 'weight=%d: by stage %r vs primary form (%s) %r; %s' % (wt, res[1], c['form'], res[0], where)))
            break
    return bad


def oracle_normal(c, r):
    """normal demand: oracle-level checks only (no exact evaluator): N = 1 vs newsvendor_normal, heuristic bounds bracket, invariance."""
    import random as _r
    bad = []; _, lv, Cstar, raw = r; N = c['N']
    dx = None
    if N == 1:
        from stockpyl.newsvendor import newsvendor_normal
        m = c['dem']['mean'] * c['L'][0]; s = c['dem']['sd'] * math.sqrt(c['L'][0])
        Snv, Cnv = newsvendor_normal(c['h'][0], c['p'], m, s)
        # documented truncation: the code moves the lead-time demand below 0 to 0 (d_lo = max(., 0)), newsvendor_normal does not; the cost function is
        # max(h, p)-Lipschitz in the demand, so the two optimal costs differ by at most max(h, p) E[D^-] = max(h, p) s (phi(z) - z (1 - Phi(z))), z = m / s
        # (2 % of C* for mean 3, sd 1.5, L 1, h 3, p 1 - on every grid; below 1e-5 s for z >= 4)
        z = m / s; trunc = max(c['h'][0], c['p']) * s * (math.exp(-z * z / 2) / math.sqrt(2 * math.pi) - z * 0.5 * math.erfc(z / math.sqrt(2)))
        if abs(float(Cnv) - Cstar) > 2e-2 * max(1.0, abs(float(Cnv)), abs(Cstar)) + trunc:
            bad.append(('optimize_base_stock_levels|one-stage-cost-not-newsvendor', 'normal N=1: C*=%r newsvendor %r' % (Cstar, float(Cnv))))
        if abs(float(Snv) - lv[1]) > 0.25 * s + 0.2:
            bad.append(('optimize_base_stock_levels|one-stage-level-not-newsvendor', 'normal N=1: S*=%r newsvendor %r' % (lv[1], float(Snv))))
    from stockpyl.ssm_serial import newsvendor_heuristic
    kw, nos = impl_kwargs(c)
    kwh = {k_: v for k_, v in kw.items() if k_ in ('num_nodes', 'node_order_in_system', 'node_order_in_lists', 'echelon_holding_cost', 'lead_time',
                                                  'stockout_cost', 'demand_source', 'network')}
    try:
        Sl = newsvendor_heuristic(**kwh, weight=1); Su = newsvendor_heuristic(**kwh, weight=0)
        for j in range(1, N + 1):
            sdj = c['dem']['sd'] * math.sqrt(sum(c['L'][:j])); slack = 0.25 * sdj + 0.2      # grid spacing / truncation slack
            if not (float(Sl[nos[j]]) - slack <= lv[j] <= float(Su[nos[j]]) + slack):
                bad.append(('optimize_base_stock_levels|outside-shang-song-bounds', 'normal, stage %d: S*=%r outside [%r, %r]' % (j, lv[j], float(Sl[nos[j]]), float(Su[nos[j]]))))
    except Exception as ex:
        bad.append(('newsvendor_heuristic|N-demand|raises-%s' % exc_kind(ex), str(ex)[:200]))
    bad += invariance(c, r, _r.Random(c['N'] * 7919 + int(c['p'] * 100)))
    return bad


# ------------------------------------------------------------------------------------------------ driver

def case_key(c):
    dem = c['dem']
    if dem['kind'] == 'CD': dem = ['CD', sorted(zip(dem['support'], dem['weights']))]      # the demand, not its listing
    return json.dumps(jsonable([c['N'], c['h'], c['L'], c['p'], dem, c['tails']]), sort_keys=True)


def explore(chk, n, nmax, do_model=True, n_normal=0, n_malformed=0, n_chains=0):
    rng = chk.rng
    cases = [gen_case(rng, nmax) for _ in range(n)] + [gen_case(rng, min(nmax, 3), kinds=('N',)) for _ in range(n_normal)] \
        + [gen_malformed(rng) for _ in range(n_malformed)]
    first_chain = len(cases)
    for _ in range(n_chains): cases += gen_chain(rng, min(nmax, 3))
    # session stream: every instance of a chain is handled by a process of its own that does exactly what a replay of the case does (solve its
    # predecessors, then the instance, then the oracle) - so a finding there is reproducible by construction, and this process (regular stream) never
    # solves a chain instance. The in-session result must equal the result of solving the instance alone in a fresh process.
    for c in cases[first_chain:]: c['oracle_seed'] = rng.randrange(2 ** 31)
    sess = [i for i in range(first_chain, len(cases)) if cases[i].get('prior')]
    handle = start_isolated([['session', c, c['oracle_seed']] for c in cases[first_chain:]] + [['alone', cases[i]] for i in sess])
    impl = [run_impl(c) for c in cases[:first_chain]]
    iso = collect_isolated(handle)
    sess_out = [(_fix(r), [tuple(b) for b in bad]) for r, bad in iso[:len(cases) - first_chain]]
    impl += [r for r, _ in sess_out]
    pre_oracle = {first_chain + k: bad for k, (_, bad) in enumerate(sess_out)}
    alone = dict(zip(sess, [_fix(r) for r in iso[len(cases) - first_chain:]]))
    # model: optimisation run for every discrete case, plus an evaluation-mode run (levels perturbed, or very low) for every third
    exprs = []; slots = []
    if do_model:
        for i, (c, r) in enumerate(zip(cases, impl)):
            if c['malformed'] or c['dem']['kind'] == 'N' or r[0] != 'ok': continue
            tb = tables(c)
            exprs.append(model_expr(c, tb)); slots.append((i, 'opt', tb, None))
            if i % 3 == 0 and i < first_chain:
                Sr = {j: max(0, r[1][j] + rng.randint(-3, 3)) for j in r[1]}
                if i % 6 == 3: Sr = {j: tb['x_lo'] + rng.randint(0, 6) for j in r[1]}      # low levels: continuation below the grid matters
                tb2 = tables(c, S_max=max(Sr.values()))
                exprs.append(model_expr(c, tb2, S_by_stage=Sr)); slots.append((i, 'eval', tb2, Sr))
        vals = coq_eval_sharded('c07', 'Alg.SSM', '', exprs, shard=6, jobs=8)
    else:
        vals = []
    model = {}
    for (i, mode, tb, Sr), v in zip(slots, vals):
        model.setdefault(i, []).append((mode, tb, Sr, v))
    retry = []
    for i, (c, r) in enumerate(zip(cases, impl)):
        N = c['N']; kind = c['dem']['kind']
        chk.count('N=%d' % N); chk.count('demand=%s' % kind); chk.count('form=%s' % c['form']); chk.count('shape=%s' % c['shape'])
        chk.count('numbering=%s' % ('default' if c['default_order'] else ('N..1-explicit' if c['order_sys'] == list(range(N, 0, -1)) else 'relabelled')))
        chk.count('malformed=%s' % c['malformed'])
        if kind == 'CD': chk.count('CD demand_list order=%s' % cd_listing(c['dem']))
        if not c['malformed'] and 0 in c['L']: chk.count('one stage with lead time 0')
        if c.get('grid_forms') and not c['malformed']: chk.count('grid forms: user grid top=%s' % c['grid_forms']['top'])
        if kind in ('P', 'UD', 'CD') and not c['malformed']: chk.count('expected_holding_cost probe=%s' % ('yes' if c.get('probe_ehc', True) else 'no'))
        if not c['malformed']:
            for tag, rt, over in (('network form', c.get('route') if c['form'] == 'network' else None, {}),
                                  ('alt network', c.get('alt_route'), dict(order_sys=c.get('alt_ids'), order_lists=c.get('alt_ids')))):
                if not rt: continue
                chk.count('%s: route=%s' % (tag, route_label(rt)))
                try:
                    kw_, nos_ = impl_kwargs(c, form='network', route=rt, **over)
                    chk.count('%s: node list stored %s' % (tag, storage_order(kw_['network'], nos_)))
                except Exception as ex:
                    chk.count('%s: construction raises %s' % (tag, exc_kind(ex)))
        if 'reuse_ds' in c:
            chk.count('session: position %d, %s' % (len(c.get('prior') or []) + 1, 'same DemandSource object' if c['reuse_ds'] else 'fresh DemandSource objects'))
            chk.count('session: base regime %s' % (c.get('prior') or [c])[0].get('regime', 'regular'))
            if c.get('prior'): chk.count('session: perturbed %s' % c['perturbed'])
        if i in alone:
            hd = history_diff(c, r, alone[i])
            if hd: chk.fail(hd[0], hd[1], c)
        if c['malformed']:
            for sig, what in malformed_fails(c, r): chk.fail(sig, what, c)
            chk.case(c, False); continue
        if r[0] == 'err':
            chk.fail('optimize_base_stock_levels|%s-demand|raises-%s' % (kind, r[1]), 'valid input raises %s: %s' % (r[1], r[2]), c)
            chk.case(c, False); continue
        for sig, what in (pre_oracle[i] if i in pre_oracle else oracle(chk, c, r, rng)):
            chk.fail(sig, what, c)
        lv = r[1]
        chk.count('cost regime=%s' % c.get('cost_regime', 'regular'))
        if N >= 2: chk.count('S*_j increasing in j=%s' % ('yes' if all(lv[j] >= lv[j - 1] for j in range(2, N + 1)) else 'no'))
        nontriv = False
        if kind != 'N':
            tb0 = model[i][0][1] if i in model else tables(c)
            inside = all(tb0['x_lo'] < lv[j] < tb0['x_lo'] + tb0['x_num'] for j in lv)
            nontriv = N >= 2 and inside and len(set(lv.values())) > 1
        for mode, tb, Sr, v in model.get(i, []):
            chk.traces += 1
            nos = node_of_stage(c)
            ri = r if mode == 'opt' else run_impl(c, S_by_stage=Sr)
            if v is None or ri[0] != 'ok':
                chk.mismatch('%s: model %r vs implementation %r' % (mode, v, ri[:3]), c); continue
            pairs, cost = v[1]
            mlv = {j: dict((int(a), int(b)) for a, b in pairs)[nos[j]] for j in nos}
            mc = qv(cost)
            if mlv != ri[1]:
                if mode == 'opt': retry.append((i, tb, mlv))
                else: chk.mismatch('eval mode: model returns levels %r, implementation %r' % (mlv, ri[1]), c)
            elif not close(mc, ri[2], rel=1e-9):
                chk.mismatch('%s: model cost %r vs implementation %r (levels %r)' % (mode, float(mc), ri[2], mlv), c)
            elif F(ri[2]) == mc:
                chk.count('cost-bit-exact')
        chk.case(c, nontriv, case_key(c))
    # margin rule for level disagreements: look at the model's C_j table at the first stage where the levels differ
    if retry:
        det = coq_eval_sharded('c07d', 'Alg.SSM', '', [model_expr(cases[i], tb, detail=True) for i, tb, _ in retry], shard=4, jobs=8)
        for (i, tb, mlv), dv in zip(retry, det):
            c = cases[i]; lv = impl[i][1]
            j = min(j for j in lv if lv[j] != mlv[j])
            tbl = [qv(x) for x in dv[j - 1][1]]
            a = tbl[max(0, min(tb['x_num'], lv[j] - tb['x_lo']))]; b = tbl[max(0, min(tb['x_num'], mlv[j] - tb['x_lo']))]
            if rel_close(a, b, 1e-7):
                chk.extra['near_tie_skipped'] = chk.extra.get('near_tie_skipped', 0) + 1
            else:
                chk.mismatch('levels differ beyond the margin: model %r, implementation %r; C_%d at the two levels: %r vs %r' % (mlv, lv, j, float(b), float(a)), c)


def explore_uc(chk, n, nmax):
    """uniform-continuous demand: newsvendor_heuristic only (see uc_heuristic)."""
    for _ in range(n):
        c = gen_uc(chk.rng, nmax)
        chk.count('N=%d' % c['N']); chk.count('demand=UC (newsvendor_heuristic only)'); chk.count('form=%s' % c['form'])
        for sig, what in uc_heuristic(c): chk.fail(sig, what, c)
        chk.case(c, False)


def run(chk):
    chk.rule = RULE
    chk.trusted += ['model Alg/SSM.v is hand-written; tied to /repo by comparison of the returned level dict (margin rule) and C* (1e-9 relative) on generated '
                    'instances, in optimisation and evaluation mode; x grid, x_ext_num, mean and the per-stage lead-time-demand tables (d, fd) are recomputed '
                    'by the harness with the same SciPy calls as ssm_serial.py lines 266-402 and passed to the model as exact rationals of the floats',
                    'oracle mathematics (exact top-down expected cost by enumeration of lead-time demands with exact rational pmfs, newsvendor fractiles) is Python in py/props/c07.py',
                    'proved for exactly represented finite-support demand on integer grids (C07_ssm_cost_is_long_run_cost, C07_shang_song_bounds, C07_vector_optimal); the same facts are checked on the implementation by exact enumeration; normal demand: oracle only']
    chk.assume += ['floating-point rounding is not modelled: theorems are over exact rationals; costs are compared at 1e-9 relative (1e-3 against exact Poisson mathematics: '
                   'documented tail truncation), levels with a 1e-7 margin rule',
                   'integer-spaced grids only (Poisson, discrete-uniform, integer custom-discrete demand); normal demand is checked at oracle level only',
                   'long-run cost = expected one-period cost of the stationary echelon inventory levels IL_j = min(S_j, IL_{j+1}) - D_j with independent lead-time demands (the ergodic step is the standard serial-system result and is not proved; that the reported cost equals this expectation is C07_ssm_cost_is_long_run_cost)']
    chk.extra.setdefault('near_tie_skipped', 0)
    chk.proof()
    if chk.tier == 'quick':
        explore(chk, 150, 3, n_normal=8, n_malformed=14, n_chains=22); explore_uc(chk, 4, 2)
    else:
        explore(chk, 1100, 4, n_normal=40, n_malformed=80, n_chains=150); explore_uc(chk, 40, 3)
    if (chk.broken or chk.mismatches) and not chk.fails:
        explore(chk, 300 if chk.tier == 'quick' else 1500, 3 if chk.tier == 'quick' else 4, do_model=False, n_normal=10, n_chains=40 if chk.tier == 'quick' else 200)


def replay(chk, rp):
    import random
    c = rp['case']
    if c.get('stream') == 'uc-heuristic':
        for sig, what in uc_heuristic(c): chk.fail(sig, what, c)
        chk.case(c); return
    r = run_chain(c) if c.get('prior') else run_impl(c)      # a session case: re-create the session (predecessors first) in this process
    print('implementation:', jsonable(r))
    if c.get('prior'):
        hd = history_diff(c, r, solve_alone([c])[0])
        if hd: chk.fail(hd[0], hd[1], c)
    if c.get('malformed'):
        for sig, what in malformed_fails(c, r): chk.fail(sig, what, c)
    elif r[0] == 'err':
        chk.fail('optimize_base_stock_levels|%s-demand|raises-%s' % (c['dem']['kind'], r[1]), r[2], c)
    else:
        for seed in ([c['oracle_seed']] if 'oracle_seed' in c else []) + list(range(3)):
            for sig, what in oracle(chk, c, r, random.Random(seed)):
                chk.fail(sig, what, c)
    chk.case(c)
