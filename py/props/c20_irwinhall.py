"""C20 -- Irwin-Hall: numerical check, ON THE IMPLEMENTATION, of the convolution recursion proved for the closed form in
coq/Alg/IrwinHall_proofs.v (ihF_convolution_is_RInt / ihFg_convolution_is_RInt):

    irwin_hall_cdf(x, n+1)  ==  int_0^1 irwin_hall_cdf(x - u, n) du                       (n >= 0, every real x)
    D(n+1, lo, hi).cdf(x)   ==  1/(hi-lo) * int_lo^hi D(n, lo, hi).cdf(x - v) dv          (D = sum_of_continuous_uniforms_distribution)
    D(n, lo, hi).cdf(x)     ==  irwin_hall_cdf((x - n*lo)/(hi - lo), n)                   (affine rescaling)

together with (1) irwin_hall_cdf(x, 1) == min(max(x,0),1) and the values 0 / 1 outside the support.  (1) + the recursion
characterise the cdf of the sum of n independent uniforms (Coq: ihF_characterised, ihVol_is_ihF), so an implementation that
passes is, up to the quadrature tolerance, the true distribution of the sum at the points visited.

The integrand is piecewise polynomial of degree <= n in u with kinks only where x - u is an integer, i.e. (inside (0,1)) at
u = frac(x): the interval is split there and every piece is integrated by a composite 12-point Gauss-Legendre rule (exact for
polynomials of degree <= 23, n <= 8 here), so the only error is floating-point rounding; tolerance 1e-9 absolute (values in [0,1]).
Scalar calls and numpy-array calls (1-D and 2-D; the quadrature nodes are passed as one array) are both exercised.

Entry point: irwin_hall_stream(chk, n)  -- n = number of additional random (x, n, lo, hi) cases drawn from chk.rng on top of the
deterministic grid.  Stand-alone: PYTHONPATH=/repo/src:/verif/py /venv/bin/python c20_irwinhall.py [quick|thorough]
"""
import math
import numpy as np

TOL = 1e-9
_GL_X, _GL_W = np.polynomial.legendre.leggauss(12)
NMAX = 8


def _H():
    import stockpyl.helpers as H
    return H


def gl_nodes(a, b, cuts, sub=3):
    """nodes and weights of the composite Gauss-Legendre rule on [a, b] split at the points of `cuts` and then in `sub` parts"""
    pts = sorted({a, b} | {c for c in cuts if a < c < b})
    xs, ws = [], []
    for p, q in zip(pts[:-1], pts[1:]):
        for i in range(sub):
            l = p + (q - p) * i / sub; r = p + (q - p) * (i + 1) / sub
            xs.append(0.5 * (r - l) * _GL_X + 0.5 * (r + l)); ws.append(0.5 * (r - l) * _GL_W)
    return np.concatenate(xs), np.concatenate(ws)


def simpson(f, a, b, cuts, m=64):
    """composite Simpson on the same pieces (second, independent rule; exact only for degree <= 3, used with a looser tolerance)"""
    pts = sorted({a, b} | {c for c in cuts if a < c < b})
    tot = 0.0
    for p, q in zip(pts[:-1], pts[1:]):
        h = (q - p) / (2 * m)
        s = f(p) + f(q)
        for i in range(1, 2 * m):
            s += (4 if i % 2 else 2) * f(p + i * h)
        tot += s * h / 3
    return tot


def unit_cuts(x):
    """kinks of u -> F_n(x - u) inside (0, 1): x - u integer"""
    fr = x - math.floor(x)
    return [fr] if 0 < fr < 1 else []


def conv_rhs_scalar(H, x, n):
    """int_0^1 irwin_hall_cdf(x - u, n) du with SCALAR calls of the implementation"""
    us, ws = gl_nodes(0.0, 1.0, unit_cuts(x))
    return float(sum(w * float(H.irwin_hall_cdf(float(x - u), n)) for u, w in zip(us, ws)))


def conv_rhs_array(H, x, n):
    """the same with ONE numpy-array call"""
    us, ws = gl_nodes(0.0, 1.0, unit_cuts(x))
    vals = H.irwin_hall_cdf(x - us, n)
    vals = np.asarray(vals, dtype=float)
    if vals.shape != us.shape:
        raise ValueError('array call returned shape %r for an argument of shape %r' % (vals.shape, us.shape))
    return float(np.dot(ws, vals))


def grid(n):
    """x grid for the pair (n, n+1): integers, half-integers, irregular non-integers, points near the kinks, points outside (0, n+1)"""
    g = set()
    for j in range(-2, n + 4):
        g.update([float(j), j + 0.5, j + 0.25, j + 0.8125, j + 1e-6, j + 1 - 1e-6, j + 0.1, j + 1 / 3.0, j + math.sqrt(0.5)])
    g.update([-7.3, -1e-12, 1e-12, n + 1 - 1e-12, n + 1 + 1e-12, n + 10.7, 3 * n + 25.0])
    return sorted(g)


def check_point(chk, H, x, n, via):
    """recursion at (x, n -> n+1); via in {'scalar', 'array'}"""
    case = dict(stream='irwin-hall-convolution', x=x, n=n, via=via)
    nontriv = 0 < x < n + 1
    chk.case(case, nontrivial=nontriv, key='ih|%r|%d|%s' % (x, n, via))
    chk.count('irwin_hall_conv:n=%d' % n); chk.count('irwin_hall_conv:via=%s' % via)
    chk.count('irwin_hall_conv:region=%s' % ('below' if x <= 0 else 'above' if x >= n + 1 else 'integer' if x == int(x) else 'interior'))
    try:
        lhs = float(H.irwin_hall_cdf(x, n + 1))
        rhs = conv_rhs_scalar(H, x, n) if via == 'scalar' else conv_rhs_array(H, x, n)
    except Exception as e:
        chk.fail('irwin_hall_cdf|convolution-recursion|raises-%s' % type(e).__name__,
                 'irwin_hall_cdf raises at x=%r, n=%d (%s call): %s' % (x, n, via, str(e)[:200]), case)
        return False
    if not (abs(lhs - rhs) <= TOL):
        chk.fail('irwin_hall_cdf|convolution-recursion',
                 'irwin_hall_cdf(%r, %d) = %r but int_0^1 irwin_hall_cdf(%r - u, %d) du = %r (%s calls; |diff| = %.3e > %g): '
                 'not the cdf of the sum of %d independent U(0,1)' % (x, n + 1, lhs, x, n, rhs, via, abs(lhs - rhs), TOL, n + 1), case)
        return False
    return True


def check_base(chk, H):
    """(1): n = 1 is the cdf of U(0,1); 0 below / 1 above the support for every n; array call == scalar calls, shape kept"""
    ok = True
    for x in grid(1):
        case = dict(stream='irwin-hall-base', x=x, n=1)
        chk.case(case, nontrivial=0 < x < 1, key='ihb|%r' % x)
        y = float(H.irwin_hall_cdf(x, 1)); want = min(max(x, 0.0), 1.0)
        if not abs(y - want) <= 1e-12:
            chk.fail('irwin_hall_cdf|n=1-not-uniform-cdf', 'irwin_hall_cdf(%r, 1) = %r, the cdf of U(0,1) is %r' % (x, y, want), case); ok = False
    for n in range(1, NMAX + 2):
        for x in [-3.5, -1e-9, 0.0]:
            y = float(H.irwin_hall_cdf(x, n))
            if y != 0.0:
                chk.fail('irwin_hall_cdf|x-below-0-not-0', 'irwin_hall_cdf(%r, %d) = %r, the cdf is 0 for x <= 0' % (x, n, y), dict(stream='irwin-hall-base', x=x, n=n)); ok = False
        for x in [float(n), n + 1e-9, n + 0.5, 10.0 * n + 3]:
            y = float(H.irwin_hall_cdf(x, n))
            if abs(y - 1.0) > 1e-12:
                chk.fail('irwin_hall_cdf|x-above-n-not-1', 'irwin_hall_cdf(%r, %d) = %r, the cdf is 1 for x >= n' % (x, n, y), dict(stream='irwin-hall-base', x=x, n=n)); ok = False
        xs = np.array(grid(n)[: 4 * (len(grid(n)) // 4)])
        for shape in [xs.shape, (4, -1), (2, 2, -1)]:
            arr = xs.reshape(shape)
            case = dict(stream='irwin-hall-array', n=n, shape=list(arr.shape))
            chk.case(case, nontrivial=True, key='iha|%d|%r' % (n, arr.shape)); chk.count('irwin_hall_conv:array-shape-dim=%d' % arr.ndim)
            try:
                got = np.asarray(H.irwin_hall_cdf(arr, n), dtype=float)
            except Exception as e:
                chk.fail('irwin_hall_cdf|array-argument|raises-%s' % type(e).__name__, 'irwin_hall_cdf(array of shape %r, %d): %s' % (arr.shape, n, str(e)[:200]), case); ok = False; continue
            want = np.array([float(H.irwin_hall_cdf(float(v), n)) for v in arr.ravel()]).reshape(arr.shape)
            if got.shape != arr.shape or not np.array_equal(got, want):
                chk.fail('irwin_hall_cdf|array-argument', 'irwin_hall_cdf(array of shape %r, %d) differs from the element-wise scalar calls (shape %r)' % (arr.shape, n, got.shape), case); ok = False
    return ok


def dist_cdf(H, n, lo, hi):
    d = H.sum_of_continuous_uniforms_distribution(n, lo, hi)
    return d.cdf


def check_dist(chk, H, n, lo, hi, xs):
    """sum_of_continuous_uniforms_distribution(n, lo, hi).cdf: affine rescaling of irwin_hall_cdf, and its own convolution recursion
    D(n+1).cdf(x) = int_lo^hi D(n).cdf(x - v) dv / (hi - lo); scalar and array x"""
    ok = True
    w = hi - lo
    try:
        cn = dist_cdf(H, n, lo, hi); cn1 = dist_cdf(H, n + 1, lo, hi)
    except Exception as e:
        chk.fail('sum_of_continuous_uniforms_distribution|raises-%s' % type(e).__name__, 'n=%d lo=%r hi=%r: %s' % (n, lo, hi, str(e)[:200]),
                 dict(stream='scu', n=n, lo=lo, hi=hi)); return False
    xs = list(xs)
    try:
        arr_vals = np.asarray(cn1(np.array(xs)), dtype=float)
    except Exception as e:
        chk.fail('sum_of_continuous_uniforms_distribution.cdf|array-argument|raises-%s' % type(e).__name__,
                 'cdf(array) n=%d lo=%r hi=%r: %s' % (n + 1, lo, hi, str(e)[:200]), dict(stream='scu', n=n + 1, lo=lo, hi=hi)); return False
    for i, x in enumerate(xs):
        case = dict(stream='scu-convolution', x=x, n=n, lo=lo, hi=hi)
        nontriv = (n + 1) * lo < x < (n + 1) * hi
        chk.case(case, nontrivial=nontriv, key='scu|%r|%d|%r|%r' % (x, n, lo, hi)); chk.count('scu_conv:n=%d' % n)
        try:
            y = float(cn1(x))
            resc = float(H.irwin_hall_cdf((x - (n + 1) * lo) / w, n + 1))
            # kinks of v -> D(n).cdf(x - v): (x - v - n*lo)/w integer  <=>  v = x - n*lo - j*w
            cuts = [x - n * lo - j * w for j in range(-1, n + 2)]
            vs, ws = gl_nodes(lo, hi, cuts)
            rhs_s = float(sum(wt * float(cn(float(x - v))) for v, wt in zip(vs, ws))) / w
            rhs_a = float(np.dot(ws, np.asarray(cn(x - vs), dtype=float))) / w
        except Exception as e:
            chk.fail('sum_of_continuous_uniforms_distribution.cdf|raises-%s' % type(e).__name__, 'x=%r n=%d lo=%r hi=%r: %s' % (x, n, lo, hi, str(e)[:200]), case)
            ok = False; continue
        if abs(y - resc) > TOL:
            chk.fail('sum_of_continuous_uniforms_distribution.cdf|affine-rescaling',
                     'D(%d,%r,%r).cdf(%r) = %r but irwin_hall_cdf((x - n*lo)/(hi-lo), n) = %r' % (n + 1, lo, hi, x, y, resc), case); ok = False
        if abs(arr_vals[i] - y) > 1e-12:
            chk.fail('sum_of_continuous_uniforms_distribution.cdf|array-argument',
                     'D(%d,%r,%r).cdf(array)[%d] = %r but the scalar call at %r gives %r' % (n + 1, lo, hi, i, float(arr_vals[i]), x, y), case); ok = False
        for rhs, via in ((rhs_s, 'scalar'), (rhs_a, 'array')):
            if not abs(y - rhs) <= TOL:
                chk.fail('sum_of_continuous_uniforms_distribution.cdf|convolution-recursion',
                         'D(%d,%r,%r).cdf(%r) = %r but int_lo^hi D(%d,..).cdf(x - v) dv/(hi-lo) = %r (%s calls, |diff| = %.3e): not the cdf of the '
                         'sum of %d independent U(%r,%r)' % (n + 1, lo, hi, x, y, n, rhs, via, abs(y - rhs), n + 1, lo, hi), case); ok = False
    return ok


def irwin_hall_stream(chk, n):
    """deterministic grid (n_uniforms = 0..8, x grid incl. non-integers and points outside the support; scalar + array) and `n` extra
    random cases from chk.rng.  Returns the number of recursion points checked."""
    H = _H()
    rng = chk.rng
    pts = 0
    check_base(chk, H)
    thorough = getattr(chk, 'tier', 'quick') == 'thorough'
    for k in range(0, NMAX + 1):          # k = 0: F_0 = step function at 0 (sum of no variables), its convolution with U(0,1) is F_1
        g = grid(k)
        if not thorough:
            g = g[::2] + [k + 0.5, k / 2.0 + 0.3]
        for x in g:
            check_point(chk, H, x, k, 'array'); pts += 1
            if thorough or (int(x * 16) % 3 == 0):
                check_point(chk, H, x, k, 'scalar'); pts += 1
        # Simpson cross-check of the quadrature itself at two interior points (looser tolerance: Simpson is exact only up to degree 3)
        for x in ([k / 2.0 + 0.3, k + 0.5] if k >= 1 else []):   # k = 0: the integrand is a step function, Simpson's end-point samples sit on the jump
            s = simpson(lambda u: float(H.irwin_hall_cdf(x - u, k)), 0.0, 1.0, unit_cuts(x))
            y = float(H.irwin_hall_cdf(x, k + 1))
            if abs(s - y) > 1e-6:
                chk.fail('irwin_hall_cdf|convolution-recursion', 'irwin_hall_cdf(%r, %d) = %r but Simpson quadrature of irwin_hall_cdf(x-u, %d) over [0,1] gives %r'
                         % (x, k + 1, y, k, s), dict(stream='irwin-hall-convolution', x=x, n=k, via='simpson'))
    # sum_of_continuous_uniforms_distribution
    for (lo, hi) in [(0, 1), (1, 3), (-2.5, 0.5), (10, 10.125), (-1, 1)]:
        for k in ([1, 2, 5] if not thorough else range(1, NMAX + 1)):
            w = hi - lo
            xs = [(k + 1) * lo + t * w for t in [-0.7, 0.0, 0.31, 0.5, 1.0, 1.25, (k + 1) / 2.0, k + 0.6, k + 1.0, k + 1.9]]
            check_dist(chk, H, k, lo, hi, xs); pts += len(xs)
    # random cases
    for _ in range(int(n)):
        k = rng.randint(0, NMAX)
        r = rng.random()
        x = (rng.uniform(-1.5, k + 2.5) if r < 0.7 else float(rng.randint(-1, k + 2)) + rng.choice([0.0, 1e-9, -1e-9, 0.5]))
        check_point(chk, H, x, k, rng.choice(['scalar', 'array'])); pts += 1
        if rng.random() < 0.25 and k >= 1:
            lo = rng.choice([0, 1, -3, 0.25, 7.5]); hi = lo + rng.choice([1, 2, 0.5, 3.75])
            xs = [rng.uniform((k + 1) * lo - 0.5 * (hi - lo), (k + 1) * hi + 0.5 * (hi - lo)) for _ in range(3)]
            check_dist(chk, H, k, lo, hi, xs); pts += 3
    chk.extra['irwin_hall_convolution_points'] = chk.extra.get('irwin_hall_convolution_points', 0) + pts
    return pts


def replay_case(chk, c):
    """--replay of a case of this stream: the recursion point itself, or (base / distribution cases) the deterministic grid they come from"""
    H = _H()
    if c.get('stream') == 'irwin-hall-convolution' and c.get('via') in ('scalar', 'array', 'simpson'):
        check_point(chk, H, float(c['x']), int(c['n']), 'array' if c['via'] == 'array' else 'scalar')
    else:
        irwin_hall_stream(chk, 0)


if __name__ == '__main__':
    import sys, time
    sys.path.insert(0, '/verif/py')
    from vlib import Check
    tier = sys.argv[1] if len(sys.argv) > 1 else 'quick'
    chk = Check('C20', tier)
    t0 = time.time()
    npts = irwin_hall_stream(chk, 300 if tier == 'quick' else 3000)
    print('irwin_hall_stream: %d recursion points, %d cases (%d distinct non-trivial), %d failing inputs, %.1f s'
          % (npts, chk.evaluations, len(chk.nontrivial), len(chk.fails), time.time() - t0))
    seen = set()
    for sig, what, case in chk.fails:
        if sig not in seen:
            seen.add(sig); print('FAIL', sig, '--', what)
    print('signatures:', {s: sum(1 for f in chk.fails if f[0] == s) for s in seen})
    sys.exit(1 if chk.fails else 0)
