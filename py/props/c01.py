"""C01 — Simulation conserves material at every node, on every edge, in every period: correspondence of Sim/Model.v with stockpyl.sim on the observables of C01 + monitors (py/simmon.py) on the implementation's state variables."""
from vlib import *
import simmon

PID = 'C01'


def run(chk):
    simmon.run_property(chk, PID)


def replay(chk, rp):
    simmon.replay_property(chk, PID, rp)
