"""C04 — Every order placed follows the node's inventory policy: correspondence of Sim/Model.v with stockpyl.sim on OQFG/OQ/IO,
the order monitor of py/simmon.py (inventory position recomputed independently from the previous period's state), the pure policy
functions against the documented rules, and serial echelon-base-stock vs converted local base-stock systems."""
import copy, warnings, json
from fractions import Fraction
from vlib import *
import simlib, simmon

PID = 'C04'


# ---- pure policy functions --------------------------------------------------------------------------------------------

def gen_policy_case(rng):
    q = lambda lo, hi: Fraction(rng.randint(lo, hi), 4)
    pt = rng.choice(['BS', 'sS', 'rQ', 'FQ', 'EBS'])
    if pt in ('BS', 'EBS'): pol = [pt, q(-8, 120)]
    elif pt == 'sS':
        s_ = q(-8, 60); pol = ['sS', s_, s_ + q(0, 60)]
    elif pt == 'rQ': pol = ['rQ', q(-8, 60), q(0, 60)]
    else: pol = ['FQ', q(0, 60)]
    how = rng.choice(['random', 'at', 'just-above', 'just-below'])
    ref = pol[1]
    ip = {'random': q(-100, 200), 'at': ref, 'just-above': ref + Fraction(1, 4), 'just-below': ref - Fraction(1, 4)}[how]
    cap = q(0, 80) if rng.random() < 0.4 else None
    return dict(mode='policy', pol=pol, ip=ip, cap=cap, how=how)


def policy_from_json(c):
    c = dict(c); c['pol'] = [c['pol'][0]] + [Fraction(x) for x in c['pol'][1:]]; c['ip'] = Fraction(c['ip'])
    c['cap'] = None if c['cap'] is None else Fraction(c['cap'])
    return c


def policy_impl(c):
    from stockpyl.policy import Policy
    p = c['pol']; f = float
    if p[0] == 'BS': P = Policy(type='BS', base_stock_level=f(p[1])); raw = P._get_order_quantity_base_stock(f(c['ip']))
    elif p[0] == 'EBS': P = Policy(type='EBS', base_stock_level=f(p[1])); raw = P._get_order_quantity_echelon_base_stock(f(c['ip']))
    elif p[0] == 'sS': P = Policy(type='sS', reorder_point=f(p[1]), order_up_to_level=f(p[2])); raw = P._get_order_quantity_s_S(f(c['ip']))
    elif p[0] == 'rQ': P = Policy(type='rQ', reorder_point=f(p[1]), order_quantity=f(p[2])); raw = P._get_order_quantity_r_Q(f(c['ip']))
    else: P = Policy(type='FQ', order_quantity=f(p[1])); raw = P._get_order_quantity_fixed_quantity()
    pub = P.get_order_quantity(inventory_position=f(c['ip']), order_capacity=(None if c['cap'] is None else f(c['cap'])))
    return F(raw), F(pub)


def check_policy(chk, c, model=None):
    want = simmon.rule(c['pol'], c['ip'])
    wantc = want if c['cap'] is None else min(want, c['cap'])
    try:
        raw, pub = policy_impl(c)
    except Exception as e:
        chk.fail('Policy.get_order_quantity|%s|raises-%s' % (c['pol'][0], exc_kind(e)), 'raises %s: %s' % (type(e).__name__, str(e)[:200]), c); return
    feat = 'IP==reorder-point' if (c['pol'][0] in ('sS', 'rQ') and c['ip'] == c['pol'][1]) else 'IP%sparameter' % ('<' if c['ip'] < c['pol'][1] else '>=')
    if raw != want:
        chk.fail('Policy._get_order_quantity|%s|%s' % (c['pol'][0], feat), 'policy %s at inventory position %s: documented rule gives %s, function returns %s' % (jsonable(c['pol']), c['ip'], want, raw), c)
    if pub != wantc:
        chk.fail('Policy.get_order_quantity|%s|%s|capacity=%s' % (c['pol'][0], feat, 'none' if c['cap'] is None else 'set'),
                 'policy %s at inventory position %s with capacity %s: min(capacity, rule) = %s, get_order_quantity returns %s' % (jsonable(c['pol']), c['ip'], c['cap'], wantc, pub), c)
    if model is not None:        # (rule pol ip, capped cfg (rule pol ip)) evaluated in Coq (Sim/Model.v)
        chk.traces += 1
        if model[0] != raw:
            chk.mismatch('Gallina `rule` vs Policy._get_order_quantity_*: policy %s, IP %s: model %s, implementation %s' % (jsonable(c['pol']), c['ip'], model[0], raw), c)
        if model[1] != pub:
            chk.mismatch('Gallina `capped (rule ..)` vs Policy.get_order_quantity: policy %s, IP %s, capacity %s: model %s, implementation %s' % (jsonable(c['pol']), c['ip'], c['cap'], model[1], pub), c)


CFG = ('{| preds := []; succs := []; ext_sup := false; has_dem := false; slt := 0; olt := 0; pol := BS 0; cap := %s; init_il := None; hc := 0; pc := 0; '
       'ith := None; rev := 0; dtype := None; init_orders := 0; init_ships := 0 |}')


def policy_stream(chk, n, do_model=True):
    cases = [gen_policy_case(chk.rng) for _ in range(n)]
    models = [None] * n
    if do_model and simmon.ensure_model(chk):
        exprs = ['[qobs (rule %s %s); qobs (capped %s (rule %s %s))]' % (simlib.coq_policy(c['pol']), cq(c['ip']), CFG % copt(c['cap']), simlib.coq_policy(c['pol']), cq(c['ip'])) for c in cases]
        try:
            models = [(qv(v[0]), qv(v[1])) for v in coq_eval_sharded('c04pol', 'Sim.Model', '', exprs)]
        except Exception as e:
            chk.broken.append(('model-evaluation-policy', str(e)[-400:]))
    for c, m in zip(cases, models):
        check_policy(chk, c, m)
        chk.count('policy-fn:type=%s' % c['pol'][0]); chk.count('policy-fn:IP=%s' % c['how']); chk.count('policy-fn:capacity=%s' % (c['cap'] is not None))
        chk.case(c, c['how'] != 'random' or c['cap'] is not None)


# ---- serial systems: echelon base-stock vs converted local base-stock -------------------------------------------------

def gen_serial_case(rng, nmax, tmax):
    n = rng.randint(1, nmax)
    ids = rng.sample(range(0, 60), n) if rng.random() < 0.6 else list(range(1, n + 1))
    T = rng.randint(6, tmax)
    nodes = {}
    for j, i in enumerate(ids):
        S = rng.randint(0, 15)
        nodes[i] = dict(slt=rng.randint(0, 3), olt=0, pol=['BS', S], cap=None, init_il=S, h=Fraction(rng.randint(0, 8), 4), p=Fraction(rng.randint(0, 40), 4) if j == n - 1 else Fraction(0),
                        ith=None, rev=Fraction(0), demand=([rng.choice([0, 1, 2, 3, 5, 8, 13]) for _ in range(T)] if j == n - 1 else None), dis=None, init_orders=0, init_ships=0)
    edges = [[ids[j], ids[j + 1]] for j in range(n - 1)]
    if rng.random() < 0.6: rng.shuffle(edges)        # network.nodes is then not listed upstream-to-downstream
    return dict(mode='serial-ebs', kind='serial', ids=ids, edges=edges, T=T, nodes=nodes, malformed=None)


def check_serial(chk, c, want_models=False):
    from stockpyl.supply_chain_network import local_to_echelon_base_stock_levels
    ids = c['ids']
    S_loc = {i: c['nodes'][i]['pol'][1] for i in ids}
    S_ech_own = {i: sum(S_loc[k] for k in ids[j:]) for j, i in enumerate(ids)}       # a stage's echelon = itself and everything downstream
    try:
        net = simlib.build_impl(c)
        S_ech = {k: F(v) for k, v in local_to_echelon_base_stock_levels(net, S_loc).items()}
        if any(S_ech[i] != S_ech_own[i] for i in ids):
            chk.fail('local_to_echelon_base_stock_levels|serial', 'local levels %s converted to %s, expected %s' % (S_loc, jsonable(S_ech), S_ech_own), c)
        ce = copy.deepcopy(c)
        for i in ids: ce['nodes'][i]['pol'] = ['EBS', S_ech_own[i]]
        a = simlib.run_impl(c); b = simlib.run_impl(ce)
    except Exception as e:
        chk.fail('simulation|serial-echelon|raises-%s' % exc_kind(e), 'raises %s: %s' % (type(e).__name__, str(e)[:200]), c); return None
    for t in range(c['T']):
        for i in ids:
            ra, rb = a['recs'][t][i], b['recs'][t][i]
            da = [('IL', ra['IL'], rb['IL']), ('OQFG', ra['OQFG'], rb['OQFG'])] + [('OQ[%s]' % p, ra['supp'][p]['OQ'], rb['supp'][p]['OQ']) for p in ra['supp']]
            for f, x, y in da:
                if x != y:
                    chk.fail('simulation|echelon-vs-local-base-stock|serial', 'stage %s period %d: %s is %s under local base-stock levels %s and %s under the converted echelon levels %s'
                             % (i, t, f, x, S_loc, y, S_ech_own), c)
                    return (c, a), (ce, b)
    return (c, a), (ce, b)


def serial_theorem_objects(chk, pairs):
    """the networks NWloc / NWech of C04_serial_echelon_eq_local (Sim/Serial.v), built from (index, local level, lead time) rows, are run in
    Coq and compared with the implementation on every state variable: the objects the theorem speaks about are the systems the code builds"""
    ok, log = coq_make(['Sim/Serial.vo'])
    if not ok:
        chk.broken.append(('Sim/Serial.vo', log[-600:])); return
    exprs = []; meta = []
    for c, a in pairs:
        ids = c['ids']; nd = c['nodes']; ech = nd[ids[0]]['pol'][0] == 'EBS'
        if ech:      # recover the local levels from the echelon levels of the converted case
            lv = {}
            for j, i in enumerate(ids): lv[i] = nd[i]['pol'][1] - (nd[ids[j + 1]]['pol'][1] if j + 1 < len(ids) else 0)
        else: lv = {i: nd[i]['pol'][1] for i in ids}
        stages = clist(['(%s, %s, %s)' % (simlib.cN(i), cq(lv[i]), cnat(nd[i]['slt'])) for i in ids])
        hs = clist(['(%s, %s)' % (simlib.cN(i), cq(nd[i]['h'])) for i in ids]); ps = clist(['(%s, %s)' % (simlib.cN(i), cq(nd[i]['p'])) for i in ids])
        order = clist([simlib.cN(i) for i in a['struct']['order']])
        inputs = clist(['((fun _ : N => false), tbl 0 [(%s, %s)])' % (simlib.cN(ids[-1]), cq(nd[ids[-1]]['demand'][t])) for t in range(c['T'])])
        exprs.append('obs_run (%s (tbl 0 %s) (tbl 0 %s) %s %s) %s' % ('NWech' if ech else 'NWloc', hs, ps, order, stages, inputs)); meta.append((c, a, ech))
    try:
        vals = coq_eval_sharded('c04nw', 'Sim.Model Sim.Obs Sim.Serial', '', exprs, shard=10, timeout=900)
    except Exception as e:
        chk.broken.append(('model-evaluation-serial-theorem-objects', str(e)[-500:])); return
    for v, (c, a, ech) in zip(vals, meta):
        m = simlib.parse_model(v, c, a['struct']); chk.traces += 1; chk.count('serial-ebs:theorem-object=%s' % ('NWech' if ech else 'NWloc'))
        d = simlib.compare(a, m)
        if d: chk.mismatch('%s of Sim/Serial.v vs the implementation: %d field(s) differ, first %s' % ('NWech' if ech else 'NWloc', len(d), jsonable(d[:3])), c)


def serial_stream(chk, n, do_model=True):
    pairs = []
    for _ in range(n):
        c = gen_serial_case(chk.rng, 6 if chk.tier == 'quick' else 8, 25 if chk.tier == 'quick' else 50)
        r = check_serial(chk, c)
        chk.count('serial-ebs:stages=%d' % len(c['ids']))
        short = r is not None and any(v['BO'] > 0 for R in r[0][1]['recs'] for x in R.values() for v in x['cust'].values())
        chk.case(c, short and len(c['ids']) > 1, simlib.case_key(c))
        if r: pairs += list(r)
    if do_model and pairs and simmon.ensure_model(chk):
        serial_theorem_objects(chk, pairs[:2 * max(10, n // 4)])
        sub = pairs[:2 * max(10, n // 4)]
        try:
            ms = simlib.run_model([(c, a['struct']) for c, a in sub], name='c04ser', shard=20)
            for (c, a), m in zip(sub, ms):
                chk.traces += 1
                d = simlib.compare(a, m, fields=simmon.FIELDS[PID] + ['IL'])
                if d: chk.mismatch('serial %s system: %d observable(s) differ, first %s' % (c['nodes'][c['ids'][0]]['pol'][0], len(d), jsonable(d[:3])), c)
        except Exception as e:
            chk.broken.append(('model-evaluation-serial', str(e)[-400:]))


# ---- ordering step of multi-product nodes: Sim/MultiOrder.v vs the implementation, on the states the simulator actually reaches ------

def capture_order_steps(case):
    """run a multi-product simulation and record, for every (node, period), the state the node's ordering loop starts from
    (read right after sim._receive_inbound_orders returns) and the orders it placed (read from state_vars at the end)"""
    import stockpyl.sim as sim
    sim.issued_backorder_warning = False
    net = simmon.build_multi(case); T = case['T']
    snaps = []
    orig = sim._receive_inbound_orders
    def hooked(node):
        orig(node)
        sv = node.state_vars_current; t = node.network.period
        prods = []
        for k in node.product_indices:
            pol = node.get_attribute('inventory_policy', product=k)
            cap = node.get_attribute('order_capacity', product=k) or None
            rms_k = node.raw_materials_by_product(product=k, return_indices=True, network_BOM=True)
            prods.append(dict(id=k, il=sv.inventory_level[k], dem=node._get_state_var_total('inbound_order', t, product=k), cap=cap, pfg=sv.pending_finished_goods[k],
                              pol=dict(type=pol.type, S=pol.base_stock_level, s=pol.reorder_point, up=pol.order_up_to_level, Q=pol.order_quantity),
                              bom=[(r, node.NBOM(product=k, predecessor=None, raw_material=r)) for r in rms_k]))
        rms = []
        for r in node.raw_materials_by_product(product='all', return_indices=True, network_BOM=True):
            sups = node.raw_material_suppliers_by_raw_material(raw_material=r, return_indices=True, network_BOM=True)
            rms.append(dict(id=r, inv=sv.raw_material_inventory[r], sups=[(p, sv.on_order_by_predecessor[p][r], sv.inbound_disrupted_items[p][r]) for p in sups]))
        foreign = [(pd['id'], r['id'], node.NBOM(product=pd['id'], predecessor=None, raw_material=r['id'])) for pd in prods for r in rms if r['id'] not in [x for x, _ in pd['bom']]]
        snaps.append(dict(node=node.index, t=t, paused=bool(node.disrupted and node.disruption_process.disruption_type == 'OP'), prods=prods, rms=rms,
                          foreign_nbom=[x for x in foreign if x[2] not in (0, None)]))
    sim._receive_inbound_orders = hooked
    try:
        with warnings.catch_warnings():
            warnings.simplefilter('ignore')
            sim.simulation(net, T, rand_seed=1, progress_bar=False, consistency_checks='N')
    finally:
        sim._receive_inbound_orders = orig
    nodes = {n.index: n for n in net.nodes}
    for sn in snaps:
        sv = nodes[sn['node']].state_vars[sn['t']]
        sn['oqfg'] = [sv.order_quantity_fg[pd['id']] for pd in sn['prods']]
        sn['oq'] = [[sv.order_quantity[p][r['id']] for p, _, _ in r['sups']] for r in sn['rms']]
    return snaps


def coq_order_step(sn):
    ids = {}
    def nid(x):
        return cnat_N(ids.setdefault(('n', x), len(ids) + 1))
    def cnat_N(i): return '%d%%N' % i
    def pol(p):
        if p['type'] == 'BS': return '(BS %s)' % cq(p['S'])
        if p['type'] == 'sS': return '(SS %s %s)' % (cq(p['s']), cq(p['up']))
        if p['type'] == 'rQ': return '(RQ %s %s)' % (cq(p['s']), cq(p['Q']))
        if p['type'] == 'FQ': return '(FQ %s)' % cq(p['Q'])
        raise ValueError(p['type'])
    def nbv(p): return 'Ext' if p is None else '(Nd %s)' % nid(('node', p))
    rms = '[' + '; '.join('{| r_id := %s; r_inv := %s; r_sups := [%s] |}' % (nid(('prod', r['id'])), cq(r['inv']),
                          '; '.join('{| s_nb := %s; s_oo := %s; s_idi := %s |}' % (nbv(p), cq(oo), cq(idi)) for p, oo, idi in r['sups'])) for r in sn['rms']) + ']'
    prods = '[' + '; '.join('{| p_id := %s; p_il := %s; p_dem := %s; p_pol := %s; p_cap := %s; p_pfg := %s; p_bom := [%s] |}'
                            % (nid(('prod', pd['id'])), cq(pd['il']), cq(pd['dem']), pol(pd['pol']), copt(pd['cap']), cq(pd['pfg']),
                               '; '.join('(%s, %s)' % (nid(('prod', r)), cq(num)) for r, num in pd['bom'])) for pd in sn['prods']) + ']'
    return ('let prods := %s in let rms := %s in let o := order_obs %s prods rms in (map qobs (fst o), map (map qobs) (snd o), map qobs (ip_trace prods rms))'
            % (prods, rms, cbool(sn['paused'])))


def multi_order_stream(chk, n, do_model=True):
    if not (do_model and simmon.ensure_model(chk)): return
    ok, log = coq_make(['Sim/MultiOrder.vo'])
    if not ok:
        chk.broken.append(('Sim/MultiOrder.vo', log[-600:])); return
    snaps = []; ncase = 0
    import stockpyl.sim as _sim
    if not hasattr(_sim, '_receive_inbound_orders'):
        chk.broken.append(('multi-product ordering-step correspondence', 'sim._receive_inbound_orders (the point at which the state handed to the ordering loop is read) no longer exists')); return
    for _ in range(n):
        c = simmon.gen_multi(chk.rng, nmax=5, tmax=10); c['mode'] = 'multi'
        c = simmon.multi_from_json(json.loads(json.dumps(jsonable(c))))
        try:
            ss = capture_order_steps(c)
        except Exception as e:
            chk.fail('simulation|multi-product|raises-%s' % exc_kind(e), '%s: %s' % (type(e).__name__, str(e)[:200]), c); continue
        ncase += 1
        # keep the steps of multi-product nodes and a sample of the others
        for sn in ss:
            if len(sn['prods']) > 1 or chk.rng.random() < 0.2:
                sn['case'] = c; snaps.append(sn)
    if chk.tier == 'quick': snaps = snaps[:1500]
    try:
        vals = coq_eval_sharded('c04mo', 'Sim.MultiOrder', '', [coq_order_step(sn) for sn in snaps], shard=100)
    except Exception as e:
        chk.broken.append(('model-evaluation-multi-order', str(e)[-500:])); return
    near = 0
    for sn, v in zip(snaps, vals):
        chk.traces += 1
        mfg = [qv(x) for x in v[0]]; moq = [[qv(x) for x in row] for row in v[1]]; mip = [qv(x) for x in v[2]]
        shared = any(sum(1 for pd in sn['prods'] if any(r == rm['id'] for r, _ in pd['bom'])) > 1 for rm in sn['rms'])
        chk.count('multi-order:products=%d' % len(sn['prods'])); chk.count('multi-order:shared-raw-material=%s' % shared); chk.count('multi-order:paused=%s' % sn['paused'])
        if sn['foreign_nbom']:
            chk.mismatch('NBOM of a product for a raw material it does not use is not 0: %s' % (sn['foreign_nbom'][:3],), dict(mode='multi-order', node=sn['node'], t=sn['t'], case=sn['case'])); continue
        # margin rule: a position within 1e-7 of a reorder point may fall on either side in binary64.  A position exactly ON the reorder point is
        # compared (the rule's 'at or below' is decided there) when the step's inputs are small dyadic numbers, so that the implementation's float
        # arithmetic is exact; with inputs such as -1.8333333333333335 (shares of earlier periods) the exact sum of the binary64 inputs can be 8
        # while the float sum is 8.000000000000002: the rounding error decides, which is the regime of the margin rule
        inexact = any(F(x).denominator > 2 ** 20 for pd in sn['prods'] for x in (pd['il'], pd['dem'], pd['pfg'])) or \
            any(F(x).denominator > 2 ** 20 for r in sn['rms'] for x in [r['inv']] + [y for _, oo, idi in r['sups'] for y in (oo, idi)])
        if any(pd['pol']['type'] in ('sS', 'rQ') and abs(ip - F(pd['pol']['s'])) <= Fraction(1, 10 ** 7) and (ip != F(pd['pol']['s']) or inexact) for pd, ip in zip(sn['prods'], mip)):
            near += 1; continue
        bad = [(pd['id'], float(a), float(b)) for pd, a, b in zip(sn['prods'], mfg, [F(x) for x in sn['oqfg']]) if not close(a, b)]
        bad += [(rm['id'], p[0], float(a), float(F(b))) for rm, ra, rb in zip(sn['rms'], moq, sn['oq']) for p, a, b in zip(rm['sups'], ra, rb) if not close(a, F(b))]
        if bad:
            chk.mismatch('ordering step of node %s in period %d: model (Sim/MultiOrder.v order_step) and implementation differ on (product | raw material, supplier, model, implementation): %s; observed positions %s'
                         % (sn['node'], sn['t'], bad[:4], [float(x) for x in mip]), dict(mode='multi-order', node=sn['node'], t=sn['t'], case=sn['case']))
        chk.case(dict(mode='multi-order', node=sn['node'], t=sn['t'], products=len(sn['prods'])), len(sn['prods']) > 1 and shared)
    chk.extra['multi_order_steps'] = len(snaps); chk.extra['multi_order_near_tie_skipped'] = near; chk.extra['multi_order_networks'] = ncase


def extra(chk, mult):
    q = chk.tier == 'quick'
    policy_stream(chk, (400 if q else 4000) * mult, do_model=(mult == 1))
    serial_stream(chk, (60 if q else 600) * mult, do_model=(mult == 1))
    if mult == 1: multi_order_stream(chk, 40 if q else 300)


def run(chk):
    simmon.run_property(chk, PID, n_thorough=1600, extra=extra)


def extra_replay(chk, c):
    if c['mode'] == 'policy': check_policy(chk, policy_from_json(c))
    elif c['mode'] == 'serial-ebs': check_serial(chk, simlib.case_from_json(c))


def replay(chk, rp):
    simmon.replay_property(chk, PID, rp, extra_replay)
