"""C04 — Every order placed follows the node's inventory policy: correspondence of Sim/Model.v with stockpyl.sim on OQFG/OQ/IO,
the order monitor of py/simmon.py (inventory position recomputed independently from the previous period's state), the pure policy
functions against the documented rules, and serial echelon-base-stock vs converted local base-stock systems."""
import copy, warnings
from fractions import Fraction
from vlib import *
import simlib, simmon

PID = 'C04'


# ---- pure policy functions --------------------------------------------------------------------------------------------

def gen_policy_case(rng):
    q = lambda lo, hi: Fraction(rng.randint(lo, hi), 4)
    pt = rng.choice(['BS', 'sS', 'rQ', 'FQ', 'EBS'])
    if pt in ('BS', 'EBS'): pol = [pt, q(-8, 120)]
    elif pt == 'sS':
        s_ = q(-8, 60); pol = ['sS', s_, s_ + q(0, 60)]
    elif pt == 'rQ': pol = ['rQ', q(-8, 60), q(0, 60)]
    else: pol = ['FQ', q(0, 60)]
    how = rng.choice(['random', 'at', 'just-above', 'just-below'])
    ref = pol[1]
    ip = {'random': q(-100, 200), 'at': ref, 'just-above': ref + Fraction(1, 4), 'just-below': ref - Fraction(1, 4)}[how]
    cap = q(0, 80) if rng.random() < 0.4 else None
    return dict(mode='policy', pol=pol, ip=ip, cap=cap, how=how)


def policy_from_json(c):
    c = dict(c); c['pol'] = [c['pol'][0]] + [Fraction(x) for x in c['pol'][1:]]; c['ip'] = Fraction(c['ip'])
    c['cap'] = None if c['cap'] is None else Fraction(c['cap'])
    return c


def policy_impl(c):
    from stockpyl.policy import Policy
    p = c['pol']; f = float
    if p[0] == 'BS': P = Policy(type='BS', base_stock_level=f(p[1])); raw = P._get_order_quantity_base_stock(f(c['ip']))
    elif p[0] == 'EBS': P = Policy(type='EBS', base_stock_level=f(p[1])); raw = P._get_order_quantity_echelon_base_stock(f(c['ip']))
    elif p[0] == 'sS': P = Policy(type='sS', reorder_point=f(p[1]), order_up_to_level=f(p[2])); raw = P._get_order_quantity_s_S(f(c['ip']))
    elif p[0] == 'rQ': P = Policy(type='rQ', reorder_point=f(p[1]), order_quantity=f(p[2])); raw = P._get_order_quantity_r_Q(f(c['ip']))
    else: P = Policy(type='FQ', order_quantity=f(p[1])); raw = P._get_order_quantity_fixed_quantity()
    pub = P.get_order_quantity(inventory_position=f(c['ip']), order_capacity=(None if c['cap'] is None else f(c['cap'])))
    return F(raw), F(pub)


def check_policy(chk, c, model=None):
    want = simmon.rule(c['pol'], c['ip'])
    wantc = want if c['cap'] is None else min(want, c['cap'])
    try:
        raw, pub = policy_impl(c)
    except Exception as e:
        chk.fail('Policy.get_order_quantity|%s|raises-%s' % (c['pol'][0], exc_kind(e)), 'raises %s: %s' % (type(e).__name__, str(e)[:200]), c); return
    feat = 'IP==reorder-point' if (c['pol'][0] in ('sS', 'rQ') and c['ip'] == c['pol'][1]) else 'IP%sparameter' % ('<' if c['ip'] < c['pol'][1] else '>=')
    if raw != want:
        chk.fail('Policy._get_order_quantity|%s|%s' % (c['pol'][0], feat), 'policy %s at inventory position %s: documented rule gives %s, function returns %s' % (jsonable(c['pol']), c['ip'], want, raw), c)
    if pub != wantc:
        chk.fail('Policy.get_order_quantity|%s|%s|capacity=%s' % (c['pol'][0], feat, 'none' if c['cap'] is None else 'set'),
                 'policy %s at inventory position %s with capacity %s: min(capacity, rule) = %s, get_order_quantity returns %s' % (jsonable(c['pol']), c['ip'], c['cap'], wantc, pub), c)
    if model is not None:        # (rule pol ip, capped cfg (rule pol ip)) evaluated in Coq (Sim/Model.v)
        chk.traces += 1
        if model[0] != raw:
            chk.mismatch('Gallina `rule` vs Policy._get_order_quantity_*: policy %s, IP %s: model %s, implementation %s' % (jsonable(c['pol']), c['ip'], model[0], raw), c)
        if model[1] != pub:
            chk.mismatch('Gallina `capped (rule ..)` vs Policy.get_order_quantity: policy %s, IP %s, capacity %s: model %s, implementation %s' % (jsonable(c['pol']), c['ip'], c['cap'], model[1], pub), c)


CFG = ('{| preds := []; succs := []; ext_sup := false; has_dem := false; slt := 0; olt := 0; pol := BS 0; cap := %s; init_il := None; hc := 0; pc := 0; '
       'ith := None; rev := 0; dtype := None; init_orders := 0; init_ships := 0 |}')


def policy_stream(chk, n, do_model=True):
    cases = [gen_policy_case(chk.rng) for _ in range(n)]
    models = [None] * n
    if do_model and simmon.ensure_model(chk):
        exprs = ['[qobs (rule %s %s); qobs (capped %s (rule %s %s))]' % (simlib.coq_policy(c['pol']), cq(c['ip']), CFG % copt(c['cap']), simlib.coq_policy(c['pol']), cq(c['ip'])) for c in cases]
        try:
            models = [(qv(v[0]), qv(v[1])) for v in coq_eval_sharded('c04pol', 'Sim.Model', '', exprs)]
        except Exception as e:
            chk.broken.append(('model-evaluation-policy', str(e)[-400:]))
    for c, m in zip(cases, models):
        check_policy(chk, c, m)
        chk.count('policy-fn:type=%s' % c['pol'][0]); chk.count('policy-fn:IP=%s' % c['how']); chk.count('policy-fn:capacity=%s' % (c['cap'] is not None))
        chk.case(c, c['how'] != 'random' or c['cap'] is not None)


# ---- serial systems: echelon base-stock vs converted local base-stock -------------------------------------------------

def gen_serial_case(rng, nmax, tmax):
    n = rng.randint(1, nmax)
    ids = rng.sample(range(0, 60), n) if rng.random() < 0.6 else list(range(1, n + 1))
    T = rng.randint(6, tmax)
    nodes = {}
    for j, i in enumerate(ids):
        S = rng.randint(0, 15)
        nodes[i] = dict(slt=rng.randint(0, 3), olt=0, pol=['BS', S], cap=None, init_il=S, h=Fraction(rng.randint(0, 8), 4), p=Fraction(rng.randint(0, 40), 4) if j == n - 1 else Fraction(0),
                        ith=None, rev=Fraction(0), demand=([rng.choice([0, 1, 2, 3, 5, 8, 13]) for _ in range(T)] if j == n - 1 else None), dis=None, init_orders=0, init_ships=0)
    edges = [[ids[j], ids[j + 1]] for j in range(n - 1)]
    if rng.random() < 0.6: rng.shuffle(edges)        # network.nodes is then not listed upstream-to-downstream
    return dict(mode='serial-ebs', kind='serial', ids=ids, edges=edges, T=T, nodes=nodes, malformed=None)


def check_serial(chk, c, want_models=False):
    from stockpyl.supply_chain_network import local_to_echelon_base_stock_levels
    ids = c['ids']
    S_loc = {i: c['nodes'][i]['pol'][1] for i in ids}
    S_ech_own = {i: sum(S_loc[k] for k in ids[j:]) for j, i in enumerate(ids)}       # a stage's echelon = itself and everything downstream
    try:
        net = simlib.build_impl(c)
        S_ech = {k: F(v) for k, v in local_to_echelon_base_stock_levels(net, S_loc).items()}
        if any(S_ech[i] != S_ech_own[i] for i in ids):
            chk.fail('local_to_echelon_base_stock_levels|serial', 'local levels %s converted to %s, expected %s' % (S_loc, jsonable(S_ech), S_ech_own), c)
        ce = copy.deepcopy(c)
        for i in ids: ce['nodes'][i]['pol'] = ['EBS', S_ech_own[i]]
        a = simlib.run_impl(c); b = simlib.run_impl(ce)
    except Exception as e:
        chk.fail('simulation|serial-echelon|raises-%s' % exc_kind(e), 'raises %s: %s' % (type(e).__name__, str(e)[:200]), c); return None
    for t in range(c['T']):
        for i in ids:
            ra, rb = a['recs'][t][i], b['recs'][t][i]
            da = [('IL', ra['IL'], rb['IL']), ('OQFG', ra['OQFG'], rb['OQFG'])] + [('OQ[%s]' % p, ra['supp'][p]['OQ'], rb['supp'][p]['OQ']) for p in ra['supp']]
            for f, x, y in da:
                if x != y:
                    chk.fail('simulation|echelon-vs-local-base-stock|serial', 'stage %s period %d: %s is %s under local base-stock levels %s and %s under the converted echelon levels %s'
                             % (i, t, f, x, S_loc, y, S_ech_own), c)
                    return (c, a), (ce, b)
    return (c, a), (ce, b)


def serial_stream(chk, n, do_model=True):
    pairs = []
    for _ in range(n):
        c = gen_serial_case(chk.rng, 6 if chk.tier == 'quick' else 8, 25 if chk.tier == 'quick' else 50)
        r = check_serial(chk, c)
        chk.count('serial-ebs:stages=%d' % len(c['ids']))
        short = r is not None and any(v['BO'] > 0 for R in r[0][1]['recs'] for x in R.values() for v in x['cust'].values())
        chk.case(c, short and len(c['ids']) > 1, simlib.case_key(c))
        if r: pairs += list(r)
    if do_model and pairs and simmon.ensure_model(chk):
        sub = pairs[:2 * max(10, n // 4)]
        try:
            ms = simlib.run_model([(c, a['struct']) for c, a in sub], name='c04ser', shard=20)
            for (c, a), m in zip(sub, ms):
                chk.traces += 1
                d = simlib.compare(a, m, fields=simmon.FIELDS[PID] + ['IL'])
                if d: chk.mismatch('serial %s system: %d observable(s) differ, first %s' % (c['nodes'][c['ids'][0]]['pol'][0], len(d), jsonable(d[:3])), c)
        except Exception as e:
            chk.broken.append(('model-evaluation-serial', str(e)[-400:]))


def extra(chk, mult):
    q = chk.tier == 'quick'
    policy_stream(chk, (400 if q else 4000) * mult, do_model=(mult == 1))
    serial_stream(chk, (60 if q else 600) * mult, do_model=(mult == 1))


def run(chk):
    simmon.run_property(chk, PID, n_thorough=1600, extra=extra)


def extra_replay(chk, c):
    if c['mode'] == 'policy': check_policy(chk, policy_from_json(c))
    elif c['mode'] == 'serial-ebs': check_serial(chk, simlib.case_from_json(c))


def replay(chk, rp):
    simmon.replay_property(chk, PID, rp, extra_replay)
