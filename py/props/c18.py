"""C18 — network construction and mutation keep the structure coherent.

Four streams:
  ops       random operation sequences on one SupplyChainNetwork (+ a pool of SupplyChainProduct objects); after EVERY
            operation the full structure and every derived view is (a) compared with the Gallina model Net/Graph.v +
            Net/Bom.v and (b) checked by an oracle that recomputes the views independently from the raw lists.
            The oracle holds the network's product look-ups against the HISTORY of the calls (World.local: products added to the
            network itself and not removed from it since), not against the network's own list of local products.
  prodhist  (part of ops, oracle only) every short history of registering / unregistering one product at the nodes and at the
            network itself on a two-node network.
  builders  network_from_edges / single_stage / serial / owmr / mwor with all argument shapes; compared with
            Net/Builders.v and checked against the documented postconditions; the parameters of the constructed DemandSource
            (numbers per node; demand_list / probabilities = one list per node, None slots in any position) by the oracle.
  rebuild   serial / owmr / mwor called repeatedly with the same argument objects (Policy, DemandSource, DisruptionProcess) with
            changes by the user in between; oracle only: every network built so far keeps the documented placement, policies
            point to their own node, the caller's argument objects are left alone.
  levels    local <-> echelon base-stock conversions on random serial systems (made by serial_system() or reached through
            the mutators / network_from_edges, so that the storage order of the nodes is arbitrary); compared with
            Net/Levels.v (exact, dyadic inputs) and round-trip oracle.
"""
import itertools
from fractions import Fraction
from vlib import *

NPROD = 4
RULE = ('ops: sequences of <= 30 operations (add_node, add_edge, add_edges_from_list, add_successor, add_predecessor with '
        'new or existing nodes, remove_node, node/network add_product/remove_product, set_bill_of_materials, reindex_nodes '
        'with injective dicts) on <= 6 live nodes (indices < 12) and 4 pooled products, plus a malformed stream (unknown '
        'node/product indices, incomplete reindex dict) ended at the first exception; one case per operation prefix; products are removed by index or by object, network.add_product prefers (1/2) a product some node handles already and node.remove_product (1/2) one that is also registered at the network, '
        'and the oracle holds network.products / product_indices / products_by_index / parse_product against the HISTORY of the calls (products added to the network itself and not removed from it since, kept by the harness, plus the products the nodes hold), not against the network\'s own list of local products. '
        'product registration histories (oracle only): every sequence of 3 (quick; 4 thorough) calls out of {node.add_product at either node, network.add_product, node.remove_product at either node by index / by object, network.remove_product, remove_node, a second product} on the network 0 -> 1, plus a sample of the sequences one call longer. '
        'builders: every builder x argument shape (None, scalar, list with/without node_order_in_lists, dict, per-node '
        'None entries) x sizes <= 5 x labelling (default or random); demand_type in N / P / UD / CD; the parameters of the constructed DemandSource (oracle only): mean / standard_deviation / lo / hi as scalar, list, dict and demand_list / probabilities as flat list (one value for all nodes), per-node list of lists with None slots in any position (first slot included) or dict, '
        'with a systematic sweep over every builder x size <= 4 x labelling x list order (default, reversed, random) x every set of demand-carrying nodes getting a custom-discrete demand x (per-node list, dict, flat list); attribute values include 0 and 0.0 (kept distinct from None), up to 4 further copied attributes per case (oracle only, incl. the holding_cost / lead_time alias keywords and round_to_int=False) and a systematic sweep placing exactly 0 / False at one node for every copied attribute x shape x builder. levels: serial systems of 1..7 nodes, random labelling, levels k/4, half of them made by serial_system() and half reached another way: '
        'nodes added in any order and linked afterwards (add_edge / add_edges_from_list in any order), grown from an inner node with add_successor / add_predecessor, '
        'a longer chain trimmed at its ends with remove_node, optionally re-indexed, or network_from_edges with the arcs in any order (so network.nodes is stored in any order relative to the chain); '
        'dict keys in any order, sometimes a key that is not a node; both conversions are repeated on the same network and the argument dicts are checked to be unchanged. rebuild (oracle only): serial_system / owmr_system / mwor_system called 2-3 times (same or different builder) with ONE set of argument objects (Policy, DemandSource, DisruptionProcess as singleton / list with or without node_order_in_lists / dict, with None entries; 1..4 nodes, random labels), the user changing the argument objects and/or the network just built between the builds; every network built so far is read after every build and at the end, and the argument objects of the caller before and after each call. non-trivial = the network after the prefix has >= 2 nodes and >= 1 arc (ops), >= 2 nodes (builders, levels, rebuild); '
        'placement: network_from_edges with 1-3 distinct Policy / DisruptionProcess objects given as singleton, list or dict (repeats of one object, None entries, keys that are no nodes), 1-5 nodes, random labels and edges; compared with Net/Placement.v per node and by an independent oracle. '
        'distinct = distinct canonical structure (ops) / distinct argument tuple (builders, levels).')


# =================================================================================================================
# implementation adapter for the operation stream

def _imports():
    from stockpyl.supply_chain_network import SupplyChainNetwork
    from stockpyl.supply_chain_node import SupplyChainNode
    from stockpyl.supply_chain_product import SupplyChainProduct
    from stockpyl.demand_source import DemandSource
    return SupplyChainNetwork, SupplyChainNode, SupplyChainProduct, DemandSource


class World:
    def __init__(self):
        SupplyChainNetwork, SupplyChainNode, SupplyChainProduct, DemandSource = _imports()
        self.net = SupplyChainNetwork()
        self.pool = {p: SupplyChainProduct(p) for p in range(NPROD)}
        # history kept by the harness (never read back from the network): the products the user added to the network ITSELF
        # with network.add_product() and has not removed from it with network.remove_product() since, in order of adding
        self.local = []

    def fresh(self, i, ext, dem):
        _, SupplyChainNode, _, DemandSource = _imports()
        kw = {}
        if ext: kw['supply_type'] = 'U'
        if dem: kw['demand_source'] = DemandSource(type='N', mean=5, standard_deviation=1)
        return SupplyChainNode(i, **kw)

    def node_or_fresh(self, i, ext=False, dem=False):
        for n in self.net.nodes:
            if n.index == i:
                return n
        return self.fresh(i, ext, dem)

    def apply(self, op):
        net = self.net
        k = op[0]
        if k == 'add_node':
            net.add_node(self.node_or_fresh(op[1], op[2], op[3]))
        elif k == 'add_edge':
            net.add_edge(op[1], op[2])
        elif k == 'add_edges':
            net.add_edges_from_list([tuple(e) for e in op[1]])
        elif k == 'add_succ':
            a = net.nodes_by_index[op[1]]
            net.add_successor(a, self.node_or_fresh(op[2], op[3], op[4]))
        elif k == 'add_pred':
            a = net.nodes_by_index[op[1]]
            net.add_predecessor(a, self.node_or_fresh(op[2], op[3], op[4]))
        elif k == 'remove_node':
            net.remove_node(self.node_or_fresh(op[1]))
        elif k == 'node_add_prod':
            net.nodes_by_index[op[1]].add_product(self.pool[op[2]])
        elif k == 'node_rem_prod':
            net.nodes_by_index[op[1]].remove_product(self.pool[op[2]] if len(op) > 3 and op[3] else op[2])
        elif k == 'net_add_prod':
            net.add_product(self.pool[op[1]])
            if op[1] not in self.local: self.local.append(op[1])
        elif k == 'net_rem_prod':
            net.remove_product(self.pool[op[1]] if len(op) > 2 and op[2] else op[1])
            if op[1] in self.local: self.local.remove(op[1])
        elif k == 'set_bom':
            self.pool[op[1]].set_bill_of_materials(op[2], float(Fraction(op[3])) if Fraction(op[3]).denominator != 1 else int(Fraction(op[3])))
        elif k == 'reindex':
            net.reindex_nodes({int(a): int(b) for a, b in op[1]})
        else:
            raise RuntimeError('unknown op %r' % (op,))


def okey(x):
    """sort key tolerant of None"""
    if isinstance(x, (tuple, list)):
        return tuple(okey(y) for y in x)
    return (-10**9 if x is None else x)


def sset(xs):
    return sorted(xs, key=okey)


def uset(xs):
    """sorted without duplicates (the implementation stores these in dicts / sets)"""
    out = []
    for x in sorted(xs, key=okey):
        if not out or out[-1] != x: out.append(x)
    return out


def call(f, *a, **k):
    try:
        return f(*a, **k)
    except Exception as e:
        return ('err', exc_kind(e))


def has_dem(n):
    ds = n.demand_source
    return ds is not None and ds.type is not None


def snapshot(world):
    """full observable structure of the implementation, in the shape of Bom.obs_net"""
    net = world.net
    nodes = [(n.index, list(n._predecessor_indices), list(n._successor_indices), list(n.product_indices),
              (n.supply_type is not None, has_dem(n))) for n in net.nodes]
    boms = sset([(p, rm, F(q)) for p, prod in world.pool.items() for rm, q in prod._bill_of_materials.items()])
    g = (call(lambda: list(net.edges)), call(lambda: [n.index for n in net.source_nodes]), call(lambda: [n.index for n in net.sink_nodes]))
    views = []
    all_prods = list(net.product_indices)
    for n in net.nodes:
        desc = call(lambda: sset([m.index for m in n.descendants]))
        anc = call(lambda: sset([m.index for m in n.ancestors]))
        tbl = sset([(p1, sset([(pr, sset([(p2, F(v)) for p2, v in d2.items()])) for pr, d2 in d1.items()]))
                    for p1, d1 in n._network_bill_of_materials.items()])
        per_prod = []
        for p1 in n.product_indices:
            per_prod.append((p1,
                             tuple(call(lambda nb=nb: sset(n.supplier_raw_material_pairs_by_product(product=p1, return_indices=True, network_BOM=nb))) for nb in (True, False)),
                             tuple(call(lambda nb=nb: sset(n.raw_materials_by_product(product=p1, return_indices=True, network_BOM=nb))) for nb in (True, False)),
                             tuple(call(lambda nb=nb: sset(n.raw_material_suppliers_by_product(product=p1, return_indices=True, network_BOM=nb))) for nb in (True, False)),
                             tuple(call(lambda nb=nb: sset(n.customers_by_product(product=p1, return_indices=True, network_BOM=nb))) for nb in (True, False))))
        rms_all = tuple(call(lambda nb=nb: sset(n.raw_materials_by_product(product='all', return_indices=True, network_BOM=nb))) for nb in (True, False))
        per_rm = []
        for rm in all_prods:
            per_rm.append((rm,
                           tuple(call(lambda nb=nb: sset(n.raw_material_suppliers_by_raw_material(raw_material=rm, return_indices=True, network_BOM=nb))) for nb in (True, False)),
                           tuple(call(lambda nb=nb: sset(n.products_by_raw_material(raw_material=rm, return_indices=True, network_BOM=nb))) for nb in (True, False))))
        views.append((n.index, desc, anc, tbl, per_prod, rms_all, per_rm))
    return (nodes, (list(net.product_indices), list(net._local_product_indices)), boms, g, views)


# ---- the model's observation, normalised to the same shape ------------------------------------------------------

def un_opt(x):
    if x is None: return None
    if isinstance(x, tuple) and len(x) == 2 and x[0] == 'Some': return x[1]
    raise ValueError('not an option: %r' % (x,))


def norm_model(o):
    nodes, (nprods, nlocal), boms, (edges, srcs, snks), views = o
    nodes = [(i, list(p), list(s), list(pr), (bool(e), bool(d))) for (i, p, s, pr, (e, d)) in nodes]
    boms = sset([(p, rm, qv(q)) for (p, rm, q) in boms])
    g = ([tuple(e) for e in edges], list(srcs), list(snks))
    vs = []
    def optset(x, f=lambda y: y):
        return ('err', 'ValueError') if x is None else sset([f(y) for y in un_opt(x)])
    for (i, desc, anc, tbl, per_prod, rms_all, per_rm) in views:
        desc = ('err', 'EFuel') if desc is None else sset(un_opt(desc))
        anc = ('err', 'EFuel') if anc is None else sset(un_opt(anc))
        tbl = uset([(p1, uset([(un_opt(pr), uset([(p2, qv(v)) for (p2, v) in d2])) for (pr, d2) in d1])) for (p1, d1) in tbl])
        pp = []
        for (p1, (pn, pb), (rn_, rb), (sn, sb), (cn, cb)) in per_prod:
            pp.append((p1, (uset([(un_opt(a), b) for a, b in pn]), uset([(un_opt(a), b) for a, b in pb])),
                       (sset(rn_), sset(rb)), (sset([un_opt(a) for a in sn]), sset([un_opt(a) for a in sb])),
                       (sset([un_opt(a) for a in cn]), sset([un_opt(a) for a in cb]))))
        ra = (sset(rms_all[0]), sset(rms_all[1]))
        pr_ = []
        for (rm, (s1, s2), (q1, q2)) in per_rm:
            pr_.append((rm, (optset(s1, un_opt), optset(s2, un_opt)), (optset(q1), optset(q2))))
        vs.append((i, desc, anc, tbl, pp, ra, pr_))
    return (nodes, (list(nprods), list(nlocal)), boms, g, vs)


def coq_op(op):
    k = op[0]
    b = cbool; n = cnat
    pl = lambda l: clist(['(%s, %s)' % (n(e[0]), n(e[1])) for e in l])
    if k == 'add_node': return '(OAddNode %s %s %s)' % (n(op[1]), b(op[2]), b(op[3]))
    if k == 'add_edge': return '(OAddEdge %s %s)' % (n(op[1]), n(op[2]))
    if k == 'add_edges': return '(OAddEdges %s)' % pl(op[1])
    if k == 'add_succ': return '(OAddSucc %s %s %s %s)' % (n(op[1]), n(op[2]), b(op[3]), b(op[4]))
    if k == 'add_pred': return '(OAddPred %s %s %s %s)' % (n(op[1]), n(op[2]), b(op[3]), b(op[4]))
    if k == 'remove_node': return '(ORemoveNode %s)' % n(op[1])
    if k == 'node_add_prod': return '(ONodeAddProd %s %s)' % (n(op[1]), n(op[2]))
    if k == 'node_rem_prod': return '(ONodeRemProd %s %s)' % (n(op[1]), n(op[2]))
    if k == 'net_add_prod': return '(ONetAddProd %s)' % n(op[1])
    if k == 'net_rem_prod': return '(ONetRemProd %s)' % n(op[1])
    if k == 'set_bom': return '(OSetBom %s %s %s)' % (n(op[1]), n(op[2]), cq(Fraction(op[3])))
    if k == 'reindex': return '(OReindex %s)' % pl(op[1])
    raise RuntimeError(k)


ERRMAP = {'EKey': 'KeyError', 'EValue': 'ValueError'}


# =================================================================================================================
# generator of operation sequences (a small shadow state keeps most operations applicable)

def gen_ops(rng, maxlen=30, maxnodes=6):
    live = []            # node indices in the network, in order
    nprods = {}          # node -> set of real products
    local = set(); pnet = set()
    ops = []
    n_ops = rng.randint(4, maxlen)
    malformed_at = rng.randrange(n_ops) if rng.random() < 0.15 else None
    def in_net(p): return p in local or any(p in s for s in nprods.values())
    def fresh_idx():
        cands = [i for i in range(0, 9) if i not in live]
        return rng.choice(cands)
    def flags(): return (rng.random() < 0.3, rng.random() < 0.3)
    def some_or_fresh():
        if live and (len(live) >= maxnodes or rng.random() < 0.55): return rng.choice(live)
        return fresh_idx()
    for t in range(n_ops):
        if t == malformed_at:
            kind = rng.choice(['edge_unknown', 'succ_unknown', 'netrem_unknown', 'bom_unknown', 'reindex_missing', 'nodeprod_unknown', 'pred_unknown'])
            unk = rng.choice([i for i in range(9, 12)])
            if kind == 'edge_unknown': ops.append(['add_edge', rng.choice(live) if live and rng.random() < .5 else unk, unk]); break
            if kind == 'succ_unknown': ops.append(['add_succ', unk, some_or_fresh(), False, False]); break
            if kind == 'pred_unknown': ops.append(['add_pred', unk, some_or_fresh(), False, False]); break
            if kind == 'nodeprod_unknown': ops.append([rng.choice(['node_add_prod', 'node_rem_prod']), unk, rng.randrange(NPROD)]); break
            if kind == 'netrem_unknown':
                cands = [p for p in range(NPROD) if not in_net(p)]
                if cands: ops.append(['net_rem_prod', rng.choice(cands)]); break
            if kind == 'bom_unknown':
                ps = [p for p in pnet]; rms = [p for p in range(NPROD) if not in_net(p)]
                if ps and rms: ops.append(['set_bom', rng.choice(ps), rng.choice(rms), '1']); break
            if kind == 'reindex_missing' and len(live) >= 2:
                keep = live[:]; drop = rng.choice(keep); keep.remove(drop)
                tgt = rng.sample(range(12), len(keep))
                ops.append(['reindex', [[a, b] for a, b in zip(keep, tgt)]]); break
        r = rng.random()
        if not live or r < 0.10:
            i = some_or_fresh() if live else fresh_idx()
            e, d = flags(); ops.append(['add_node', i, e, d])
            if i not in live: live.append(i); nprods[i] = set()
        elif r < 0.25:
            a, b = rng.choice(live), rng.choice(live)
            ops.append(['add_edge', a, b])
        elif r < 0.30:
            ops.append(['add_edges', [[rng.choice(live), rng.choice(live)] for _ in range(rng.randint(0, 3))]])
        elif r < 0.43:
            a, b = rng.choice(live), some_or_fresh(); e, d = flags()
            ops.append(['add_succ', a, b, e, d])
            if b not in live: live.append(b); nprods[b] = set()
        elif r < 0.53:
            a, b = rng.choice(live), some_or_fresh(); e, d = flags()
            ops.append(['add_pred', a, b, e, d])
            if b not in live: live.append(b); nprods[b] = set()
        elif r < 0.60:
            i = rng.choice(live) if rng.random() < 0.85 else fresh_idx()
            ops.append(['remove_node', i])
            if i in live: live.remove(i); del nprods[i]
        elif r < 0.74:
            n, p = rng.choice(live), rng.randrange(NPROD)
            ops.append(['node_add_prod', n, p]); nprods[n].add(p); pnet.add(p)
        elif r < 0.79:
            n = rng.choice(live)
            p = rng.choice(sorted(nprods[n])) if nprods[n] and rng.random() < 0.8 else rng.randrange(NPROD)
            if nprods[n] & local and rng.random() < 0.5: p = rng.choice(sorted(nprods[n] & local))     # a product that is registered at both levels
            ops.append(['node_rem_prod', n, p, rng.random() < 0.3]); nprods[n].discard(p)           # by index or by object
        elif r < 0.83:
            p = rng.randrange(NPROD)
            handled = sorted({q for s_ in nprods.values() for q in s_} - local)
            if handled and rng.random() < 0.5: p = rng.choice(handled)                               # a product some node handles already
            ops.append(['net_add_prod', p]); local.add(p); pnet.add(p)
        elif r < 0.86:
            cands = [p for p in range(NPROD) if in_net(p)]
            if not cands: continue
            p = rng.choice(cands); ops.append(['net_rem_prod', p, rng.random() < 0.3]); local.discard(p)
        elif r < 0.96:
            p = rng.randrange(NPROD)
            cands = [q for q in range(NPROD) if (p not in pnet) or in_net(q)]
            if not cands: continue
            rm = rng.choice(cands)
            q = rng.choice(['1', '2', '3', '1/2', '5/4', '0', '0', '-1'])
            ops.append(['set_bom', p, rm, q])
        else:
            tgt = rng.sample(range(12), len(live))
            if rng.random() < 0.3:      # partial identity
                tgt = [a if rng.random() < 0.5 and a not in tgt else b for a, b in zip(live, tgt)]
                if len(set(tgt)) != len(tgt): tgt = rng.sample(range(12), len(live))
            m = dict(zip(live, tgt))
            ops.append(['reindex', [[a, m[a]] for a in live]])
            live = [m[a] for a in live]; nprods = {m[a]: s for a, s in nprods.items()}
    return ops


def run_impl_ops(ops):
    """returns list of ('ok', snapshot) ... optionally ending with ('err', kind, msg); also the World"""
    w = World(); out = []
    for op in ops:
        try:
            w.apply(op)
        except Exception as e:
            out.append(('err', exc_kind(e), str(e)[:200])); break
        out.append(('ok', snapshot(w), oracle_ops(w, op)))
    return out


# =================================================================================================================
# oracle for the operation stream: everything recomputed from the raw lists of the Python objects

def reach(adj, a):
    seen = set(); stack = list(adj.get(a, []))
    while stack:
        x = stack.pop()
        if x in seen: continue
        seen.add(x); stack.extend(adj.get(x, []))
    seen.discard(a)
    return seen


def dummy_idx(i):
    """documented index of the dummy product of node i"""
    return -2 * i if i > 0 else -1000 - 2 * i


def ext_idx(i):
    """documented index of the external-supplier dummy product (raw material) of node i"""
    return dummy_idx(i) - 1


def oracle_ops(world, op):
    """returns list of (signature-suffix, what)"""
    from collections import Counter
    net = world.net; bad = []
    def B(sig, what): bad.append((sig, what))
    idx = [n.index for n in net.nodes]
    if len(set(idx)) != len(idx): B('duplicate-node-index', 'node indices %r' % idx)
    S = {n.index: list(n._successor_indices) for n in net.nodes}
    P = {n.index: list(n._predecessor_indices) for n in net.nodes}
    # 1. predecessor / successor lists are mutual inverses (as multisets), end points are nodes
    arcsS = Counter((a, b) for a in S for b in S[a]); arcsP = Counter((a, b) for b in P for a in P[b])
    if arcsS != arcsP:
        B('pred-succ-asymmetry', 'arcs by successor lists %r != arcs by predecessor lists %r' % (sorted(arcsS.elements()), sorted(arcsP.elements())))
    for (a, b) in list(arcsS) + list(arcsP):
        if a not in S or b not in S: B('dangling-endpoint', 'arc (%r,%r) has an end point that is not a node (nodes %r)' % (a, b, idx)); break
    # 2. views: edges, sources, sinks
    try:
        E = list(net.edges)
        if Counter(E) != arcsS: B('edges-view', 'edges %r != successor lists %r' % (E, sorted(arcsS.elements())))
        src = sorted(n.index for n in net.source_nodes); snk = sorted(n.index for n in net.sink_nodes)
        if src != sorted(i for i in idx if not any(b == i for (_, b) in E)): B('sources-view', 'source_nodes %r, edges %r' % (src, E))
        if snk != sorted(i for i in idx if not any(a == i for (a, _) in E)): B('sinks-view', 'sink_nodes %r, edges %r' % (snk, E))
        adj = {}; radj = {}
        for (a, b) in E: adj.setdefault(a, []).append(b); radj.setdefault(b, []).append(a)
        for n in net.nodes:
            d = sorted(m.index for m in n.descendants); a_ = sorted(m.index for m in n.ancestors)
            if d != sorted(reach(adj, n.index)): B('descendants-view', 'node %d descendants %r, DFS over edges %r gives %r' % (n.index, d, E, sorted(reach(adj, n.index))))
            if a_ != sorted(reach(radj, n.index)): B('ancestors-view', 'node %d ancestors %r, DFS over edges %r gives %r' % (n.index, a_, E, sorted(reach(radj, n.index))))
            if [m.index for m in n.successors()] != S[n.index] or [m.index for m in n.predecessors()] != P[n.index]:
                B('successors-objects', 'node %d successors()/predecessors() do not match the index lists' % n.index)
    except Exception as e:
        B('view-raises-' + exc_kind(e), 'graph view raised %s: %s' % (exc_kind(e), str(e)[:150]))
    # 3. index look-ups
    nbi = net.nodes_by_index
    if set(nbi.keys()) != set(idx) | {None}: B('nodes_by_index-keys', 'keys %r vs node indices %r' % (sorted(nbi.keys(), key=okey), idx))
    for n in net.nodes:
        if nbi.get(n.index) is not n: B('nodes_by_index-object', 'nodes_by_index[%d] is not the node in network.nodes' % n.index)
        if n.network is not net: B('node-network-pointer', 'node %d .network is not the network' % n.index)
    pbi = net.products_by_index
    for n in net.nodes:
        for p in n.product_indices:
            if p not in pbi or pbi[p].index != p: B('products_by_index', 'product %r of node %d not found by index' % (p, n.index))
            if p not in net.product_indices: B('network-product-list', 'product %r of node %d not in network.product_indices %r' % (p, n.index, net.product_indices))
        if [q.index for q in n.products] != list(n.product_indices): B('node-product-lists', 'node %d products %r vs product_indices %r' % (n.index, [q.index for q in n.products], n.product_indices))
        if len(n.product_indices) == 0: B('node-without-product', 'node %d has no product (not even the dummy)' % n.index)
        if any(p < 0 for p in n.product_indices) and list(n.product_indices) != [(-2 * n.index) if n.index > 0 else (-1000 - 2 * n.index)]:
            B('dummy-product-index', 'node %d has product list %r' % (n.index, n.product_indices))
    for p in net._local_product_indices:
        if p not in net.product_indices: B('network-product-list', 'local product %r not in network.product_indices' % p)
    if len(set(net.product_indices)) != len(net.product_indices): B('network-product-dup', 'product_indices %r' % net.product_indices)
    # external-supplier dummy products: the index is a documented function of the node index (dummy product index - 1), computed
    # here from the node index alone (NOT read back from the node), so that a node that keeps the raw material of an index it
    # had earlier (re-indexing) or shares one with another node is seen; every one is found by index and listed by the network
    for n in net.nodes:
        e = n._external_supplier_dummy_product; want = ext_idx(n.index)
        if e is None or e.index != want:
            B('external-supplier-product-index', 'node %d has external-supplier dummy product %r, documented %d (real products at the node: %r)' % (n.index, None if e is None else e.index, want, [p for p in n.product_indices if p >= 0]))
        elif pbi.get(want) is not e or want not in net.product_indices:
            B('external-supplier-product-lookup', 'external-supplier dummy product %d of node %d: products_by_index gives %r, network.product_indices %r' % (want, n.index, pbi.get(want), net.product_indices))
    for k_, pr_ in pbi.items():
        if pr_.index != k_: B('products_by_index-key', 'products_by_index[%r] has index %r' % (k_, pr_.index))
    exp_np = set(net._local_product_indices) | {p for n in net.nodes for p in n.product_indices} | {ext_idx(n.index) for n in net.nodes}
    if set(net.product_indices) != exp_np:
        B('network-product-set', 'network.product_indices %r, products of the nodes + network-level products + external-supplier dummies give %r' % (sset(net.product_indices), sset(exp_np)))
    # network-level registration against the HISTORY of the calls (world.local is kept by the harness, never read back from the
    # network): "products" is documented to contain the products explicitly added with network.add_product() (until they are
    # removed from the network itself with network.remove_product()) as well as the products handled by the nodes -- whatever a
    # node did with the product before or after, and whether or not a node handled it at the time it was added
    hist = list(world.local)
    exp_hist = set(hist) | {p for n in net.nodes for p in n.product_indices} | {ext_idx(n.index) for n in net.nodes}
    if set(net.product_indices) != exp_hist:
        B('network-products-vs-history', 'network.product_indices %r; added to the network itself and not removed from it since: %r, handled by the nodes: %r, '
          'so documented %r (missing %r, extra %r)' % (sset(net.product_indices), hist, sset({p for n in net.nodes for p in n.product_indices if p >= 0}),
                                                      sset(exp_hist), sset(exp_hist - set(net.product_indices)), sset(set(net.product_indices) - exp_hist)))
    if [q.index for q in net.products] != list(net.product_indices):
        B('network-product-lists', 'network.products %r vs product_indices %r' % ([q.index for q in net.products], net.product_indices))
    for p, obj in world.pool.items():
        known = p in exp_hist
        if known:
            # the look-ups give the very object the user added
            if pbi.get(p) is not obj: B('products_by_index-object', 'products_by_index[%d] is %r, not the product object that was added' % (p, pbi.get(p)))
            for form, arg in (('index', p), ('object', obj)):
                r = call(net.parse_product, arg)
                if not (isinstance(r, tuple) and len(r) == 2 and r[0] is obj and r[1] == p):
                    B('parse_product-known-product', 'parse_product(%s of product %d) gives %r; the product is in the network (added to the network itself: %s, handled by nodes %r)' % (
                        form, p, r, p in hist, [n.index for n in net.nodes if p in n.product_indices]))
            if obj.network is not net: B('product-network-pointer', 'product %d .network is not the network' % p)
        else:
            r = call(net.parse_product, p)
            if r != ('err', 'ValueError'):
                B('parse_product-unknown-product', 'parse_product(%d) gives %r; the product is neither added to the network nor handled by a node (ValueError documented)' % (p, r))
    # 4. BOM views vs product BOMs
    if bad: return bad          # graph / index structure already incoherent
    def bomq(p1, p2):
        return F(world.pool[p1]._bill_of_materials.get(p2, 0)) if p1 in world.pool else F(0)
    prods = {n.index: list(n.product_indices) for n in net.nodes}
    nb = {}        # (node, p1, pred, p2) -> expected NBOM
    for n in net.nodes:
        plist = sorted(set(P[n.index])) + ([None] if n.supply_type is not None else [])
        for pr in plist:
            pp = prods[pr] if pr is not None else [ext_idx(n.index)]
            found = any(bomq(p1, p2) > 0 for p1 in prods[n.index] for p2 in pp)
            for p1 in prods[n.index]:
                for p2 in pp:
                    exp = bomq(p1, p2) if found else F(1)
                    nb[(n.index, p1, pr, p2)] = exp
                    try:
                        got = F(n.NBOM(product=p1, predecessor=pr, raw_material=p2))
                    except Exception as e:
                        B('NBOM-raises-' + exc_kind(e), 'node %d NBOM(%r,%r,%r) raised %s' % (n.index, p1, pr, p2, str(e)[:100])); continue
                    if got != exp:
                        B('NBOM-rule' if not found else 'NBOM-vs-BOM', 'node %d NBOM(product=%r, predecessor=%r, raw_material=%r) = %s, expected %s (BOM relation between the two nodes: %s)' % (n.index, p1, pr, p2, got, exp, found))
    for n in net.nodes:
        i = n.index
        try:
            allpairs = set()
            for p1 in prods[i]:
                exp_pairs = sorted([(pr, p2) for (ni, q1, pr, p2), v in nb.items() if ni == i and q1 == p1 and v > 0], key=okey)
                allpairs |= set(exp_pairs)
                got = sset(n.supplier_raw_material_pairs_by_product(product=p1, return_indices=True))
                if got != exp_pairs: B('supplier-rm-pairs', 'node %d product %r pairs %r, NBOM>0 gives %r' % (i, p1, got, exp_pairs))
                got = sset(n.raw_materials_by_product(product=p1, return_indices=True))
                if got != sset({p2 for (_, p2) in exp_pairs}): B('raw-materials-by-product', 'node %d product %r raw materials %r, NBOM>0 gives %r' % (i, p1, got, sset({p2 for (_, p2) in exp_pairs})))
                got = sset(n.raw_material_suppliers_by_product(product=p1, return_indices=True))
                if got != sset({pr for (pr, _) in exp_pairs}): B('suppliers-by-product', 'node %d product %r suppliers %r, NBOM>0 gives %r' % (i, p1, got, sset({pr for (pr, _) in exp_pairs})))
                gotb = sset(n.supplier_raw_material_pairs_by_product(product=p1, return_indices=True, network_BOM=False))
                plist = sorted(set(P[i])) + ([None] if n.supply_type is not None else [])
                expb = sset({(pr, p2) for pr in plist for p2 in (prods[pr] if pr is not None else [ext_idx(n.index)]) if bomq(p1, p2) > 0})
                if gotb != expb: B('supplier-rm-pairs-BOM', 'node %d product %r BOM pairs %r, product BOM gives %r' % (i, p1, gotb, expb))
            rms = sset({p2 for (_, p2) in allpairs})
            got = sset(n.raw_materials_by_product(product='all', return_indices=True))
            if got != rms: B('raw-materials-all', 'node %d raw materials %r vs %r' % (i, got, rms))
            for rm in rms:
                exp = sset({pr for (pr, p2) in allpairs if p2 == rm})
                got = sset(n.raw_material_suppliers_by_raw_material(raw_material=rm, return_indices=True))
                if got != exp: B('suppliers-by-raw-material', 'node %d raw material %r suppliers %r vs %r' % (i, rm, got, exp))
                exp = sorted({p1 for (ni, p1, pr, p2), v in nb.items() if ni == i and p2 == rm and v > 0})
                got = sorted(n.products_by_raw_material(raw_material=rm, return_indices=True))
                if got != exp: B('products-by-raw-material', 'node %d raw material %r products %r vs %r' % (i, rm, got, exp))
            for p in prods[i]:
                exp = [c for c in S[i] if any(v > 0 for (ni, p1, pr, p2), v in nb.items() if ni == c and pr == i and p2 == p)]
                exp = sset(exp + ([None] if has_dem(n) else []))
                got = sset(n.customers_by_product(product=p, return_indices=True))
                if got != exp: B('customers-by-product', 'node %d product %r customers %r vs %r' % (i, p, got, exp))
        except Exception as e:
            B('BOM-view-raises-' + exc_kind(e), 'node %d BOM view raised %s: %s' % (i, exc_kind(e), str(e)[:150]))
    return bad


# =================================================================================================================
# builders

DT_TAG = {'N': 1, 'P': 2, 'UD': 3, 'CD': 4}
DT_VALUES = ['N', 'P', 'UD', 'CD']
TAG_DT = {v: k for k, v in DT_TAG.items()}


def gen_shape(rng, nodes, order_for_lists, val, allow_none_entries=True, malformed=False):
    """returns a JSON-able description of one keyword argument: ['none'] | ['scalar', v] | ['list', [v|None..]] | ['dict', [[k, v|None]..]]"""
    k = rng.choice(['none', 'scalar', 'list', 'dict'])
    def entry():
        return None if (allow_none_entries and rng.random() < 0.2) else val()
    if k == 'none': return ['none']
    if k == 'scalar': return ['scalar', val()]
    if k == 'list':
        n = len(order_for_lists)
        if malformed: n = max(0, n + rng.choice([-1, 1, 2]))
        return ['list', [entry() for _ in range(n)]]
    keys = [i for i in nodes if rng.random() < 0.75]
    if rng.random() < 0.15: keys.append(max(nodes) + 3)        # a key that is not a node: ignored
    return ['dict', [[i, entry()] for i in keys]]


EXTRA_ATTRS = ['holding_cost', 'shipment_lead_time', 'lead_time', 'order_lead_time', 'echelon_holding_cost', 'in_transit_holding_cost',
               'revenue', 'initial_inventory_level', 'initial_orders', 'initial_shipments', 'processing_time',
               'external_inbound_cst', 'external_outbound_cst', 'demand_bound_constant', 'units_required', 'order_capacity']


def attr_val(rng):
    """attribute value; zero (int and float) is frequent because 0 must be kept distinct from None"""
    r = rng.random()
    if r < 0.2: return 0
    if r < 0.3: return 0.0
    return rng.randint(1, 9)


def add_extras(rng, c, nodes, order, k=None):
    """further copied attributes (oracle only): random subset, every shape, values incl. 0 / 0.0; round_to_int incl. False"""
    def mk(val):
        shape = rng.choice(['scalar', 'list', 'dict'])
        ent = lambda: None if rng.random() < 0.15 else val()
        if shape == 'scalar': return ['scalar', val()]
        if shape == 'list': return ['list', [ent() for _ in order]]
        return ['dict', [[i, ent()] for i in nodes if rng.random() < 0.8]]
    names = rng.sample(EXTRA_ATTRS, rng.randint(0, 4) if k is None else k)
    ex = [[nm, mk(lambda: attr_val(rng))] for nm in names]
    if rng.random() < 0.5: ex.append(['round_to_int', mk(lambda: rng.random() < 0.5)])
    c['extra'] = ex
    return c


# parameters of the DemandSource a builder constructs from demand_type (oracle only).  mean / standard_deviation / lo / hi take one
# number per node; demand_list / probabilities take one LIST per node, so for them a flat list is ONE value shared by all nodes
# (shape 'scalar' whose value is a list) and only a list that contains lists is a per-node list (documented in
# build_node_data_dict / network_from_edges); slots of nodes without such a demand are None, in ANY position incl. the first.
DPAR_NUM = ['mean', 'standard_deviation', 'lo', 'hi']
DPAR_LIST = ['demand_list', 'probabilities']
DPAR_DEFAULT = {'mean': 10, 'standard_deviation': 2}       # what the harness passes when the case does not give the parameter


def dpar_list_val(rng, name):
    k = rng.randint(1, 4)
    if name == 'demand_list': return [rng.randint(0, 9) for _ in range(k)]
    return [rng.choice([0.125, 0.25, 0.5, 0.375]) for _ in range(k)]


def gen_dpar_shape(rng, name, nodes, order, none_p=0.35, shape=None):
    listy = name in DPAR_LIST
    val = (lambda: dpar_list_val(rng, name)) if listy else (lambda: rng.randint(0, 9))
    shape = shape or rng.choice(['scalar', 'list', 'list', 'dict'])
    ent = lambda: None if rng.random() < none_p else val()
    if shape == 'scalar': return ['scalar', val()]
    if shape == 'list':
        l = [ent() for _ in order]
        if listy and all(v is None for v in l): l[rng.randrange(len(l))] = val()     # (a list without any list in it is a flat list = singleton)
        return ['list', l]
    return ['dict', [[i, ent()] for i in nodes if rng.random() < 0.85]]


def add_dpar(rng, c, nodes, order):
    c['dpar'] = []
    if c['dt'][0] == 'none' or rng.random() < 0.35: return c
    names = rng.sample(DPAR_NUM + DPAR_LIST + DPAR_LIST, rng.randint(1, 3))
    c['dpar'] = [[nm, gen_dpar_shape(rng, nm, nodes, order)] for nm in dict.fromkeys(names)]
    return c


def dpar_shape_name(name, sh):
    if sh is None: return 'default'
    if name in DPAR_LIST: return {'scalar': 'flat-list', 'list': 'per-node-list', 'dict': 'dict'}[sh[0]]
    return sh[0]


def gen_builder(rng, maxn=5):
    kind = rng.choice(['nfe', 'single', 'serial', 'serial', 'owmr', 'owmr', 'mwor', 'mwor'])
    c = {'stream': 'builder', 'kind': kind, 'malformed': None}
    relabel = rng.random() < 0.5
    if kind == 'nfe':
        n = rng.randint(1, maxn)
        labels = rng.sample(range(10), n) if relabel else list(range(n))
        ne = 0 if n == 1 else rng.randint(0 if rng.random() < 0.15 else 1, min(7, n * (n - 1) // 2 + 1))
        edges = []
        for _ in range(ne):
            a, b = rng.sample(range(n), 2) if n > 1 else (0, 0)
            if a > b and rng.random() < 0.8: a, b = b, a            # mostly acyclic
            edges.append([labels[a], labels[b]])
        if edges and rng.random() < 0.2: edges.append(list(rng.choice(edges)))   # repeated edge
        c['edges'] = edges
        nodes = []
        for e in edges:
            for x in e:
                if x not in nodes: nodes.append(x)
        c['sys'] = None
    elif kind == 'single':
        idx = rng.choice([None, 0, rng.randrange(10)])
        c['index'] = idx; nodes = [0 if idx is None else idx]; c['sys'] = None
    else:
        size = rng.randint(1, maxn) if kind == 'serial' else rng.randint(2, maxn)   # total number of nodes
        if kind != 'serial' and rng.random() < 0.05: size = 1
        c['size'] = size
        default = list(range(size)) if kind in ('serial', 'owmr') else list(range(1, size)) + [0]
        c['sys'] = rng.sample(range(10), size) if relabel else None
        nodes = c['sys'] if c['sys'] is not None else default
    # node_order_in_lists
    lists = None
    if kind != 'single' and nodes and rng.random() < 0.5:
        lists = nodes[:]; rng.shuffle(lists)
    c['lists'] = lists
    if kind == 'nfe' and not c['edges']:
        if rng.random() < 0.5: lists = [rng.randrange(10)]
        nodes = [lists[0]] if lists else [0]
        c['lists'] = lists = ([nodes[0]] if lists else None)
    order = lists if lists is not None else (sorted(nodes) if kind in ('nfe',) else nodes)
    if kind == 'single': order = nodes
    mal = None
    r = rng.random()
    if r < 0.06 and kind != 'single' and lists is not None and not (kind == 'nfe' and not c['edges']):
        mal = 'order-set'; c['lists'] = lists = lists[:-1] + [max(nodes) + 1]; order = lists
    elif r < 0.14:
        mal = 'list-length'
    c['malformed'] = mal
    which_mal = rng.choice(['hc', 'so', 'ds', 'dt']) if mal == 'list-length' else None
    def shape(name, val):
        s = gen_shape(rng, nodes, order, val, malformed=(which_mal == name))
        if which_mal == name and s[0] != 'list':
            n = max(0, len(order) + rng.choice([-1, 1]))
            s = ['list', [val() for _ in range(n)]]
        return s
    c['hc'] = shape('hc', lambda: attr_val(rng))
    c['so'] = shape('so', lambda: attr_val(rng))
    c['ds'] = shape('ds', lambda: rng.choice(['T', 'T', 'U'])) if rng.random() < 0.55 else ['none']
    c['dt'] = shape('dt', lambda: rng.choice(DT_VALUES)) if rng.random() < 0.7 else ['none']
    if mal == 'list-length':
        c['malformed'] = 'list-length' if any(c[a][0] == 'list' and len(c[a][1]) != len(order) for a in ('hc', 'so', 'ds', 'dt')) else None
    c['st'] = gen_shape(rng, nodes, order, lambda: rng.choice(['U', None])) if rng.random() < 0.4 else ['none']   # ignored by the code
    if c['st'][0] == 'list' and len(c['st'][1]) != len(order): c['st'] = ['none']
    c['bogus'] = (c['malformed'] is None and rng.random() < 0.03)
    add_extras(rng, c, nodes, order)
    if c['malformed'] is None: add_dpar(rng, c, nodes, order)
    return c


def py_kw(s, conv=lambda v: v):
    if s[0] == 'none': return None
    if s[0] == 'scalar': return conv(s[1])
    if s[0] == 'list': return [None if v is None else conv(v) for v in s[1]]
    return {int(k): (None if v is None else conv(v)) for k, v in s[1]}


def mk_ds(v):
    _, _, _, DemandSource = _imports()
    return DemandSource(type='N', mean=10, standard_deviation=2) if v == 'T' else DemandSource()


def builder_nodes(c):
    """(system order or None, node index list in documented order for lists)"""
    k = c['kind']
    if k == 'nfe':
        nodes = []
        for e in c['edges']:
            for x in e:
                if x not in nodes: nodes.append(x)
        if not c['edges']: nodes = [c['lists'][0] if c['lists'] else 0]
        return None, nodes
    if k == 'single':
        return None, [0 if c['index'] is None else c['index']]
    size = c['size']
    default = list(range(size)) if k in ('serial', 'owmr') else list(range(1, size)) + [0]
    sys_ = c['sys'] if c['sys'] is not None else default
    return sys_, sys_


def run_impl_builder(c):
    from stockpyl import supply_chain_network as scn
    kw = {}
    for name, key, conv in (('hc', 'local_holding_cost', lambda v: v), ('so', 'stockout_cost', lambda v: v),
                            ('ds', 'demand_source', mk_ds), ('dt', 'demand_type', lambda v: v), ('st', 'supply_type', lambda v: v)):
        if c[name][0] != 'none':
            kw[key] = py_kw(c[name], conv)
    for name, sh in c.get('extra', []):
        kw[name] = py_kw(sh)
    if c.get('bogus'): kw['no_such_attribute'] = 1
    if c['dt'][0] != 'none':
        kw['mean'] = 10; kw['standard_deviation'] = 2
    for name, sh in c.get('dpar', []):
        kw[name] = py_kw(sh)
    k = c['kind']
    try:
        if k == 'nfe':
            net = scn.network_from_edges([tuple(e) for e in c['edges']], node_order_in_lists=c['lists'], **kw)
        elif k == 'single':
            net = scn.single_stage_system(**kw) if c['index'] is None else scn.single_stage_system(index=c['index'], **kw)
        elif k == 'serial':
            net = scn.serial_system(c['size'], node_order_in_system=c['sys'], node_order_in_lists=c['lists'], **kw)
        elif k == 'owmr':
            net = scn.owmr_system(c['size'] - 1, node_order_in_system=c['sys'], node_order_in_lists=c['lists'], **kw)
        else:
            net = scn.mwor_system(c['size'] - 1, node_order_in_system=c['sys'], node_order_in_lists=c['lists'], **kw)
    except Exception as e:
        return ('err', exc_kind(e), str(e)[:200]), None
    obs = ([(n.index, list(n._predecessor_indices), list(n._successor_indices), list(n.product_indices),
             (n.supply_type is not None, has_dem(n))) for n in net.nodes],
           list(net.product_indices),
           ([(n.index, n.local_holding_cost) for n in net.nodes], [(n.index, n.stockout_cost) for n in net.nodes]))
    extras = {name: [(n.index, getattr(n, name)) for n in net.nodes] for name, _ in c.get('extra', []) if name not in ('round_to_int', 'holding_cost', 'lead_time')}
    extras['shipment_lead_time'] = [(n.index, n.shipment_lead_time) for n in net.nodes]
    extras['round_to_int'] = [(n.index, n.demand_source.round_to_int if n.demand_source is not None else None) for n in net.nodes]
    if c['dt'][0] != 'none':
        for name in DPAR_NUM + DPAR_LIST:
            # (mean / standard_deviation are read as stored: the public properties derive a value from the other parameters when none is stored)
            rd = (lambda ds: getattr(ds, '_' + name)) if name in ('mean', 'standard_deviation') else (lambda ds: getattr(ds, name))
            extras['demand.' + name] = [(n.index, rd(n.demand_source) if n.demand_source is not None else None) for n in net.nodes]
    return ('ok', obs, extras), net


def coq_arg(s, val):
    if s[0] == 'none': return 'ANone'
    if s[0] == 'scalar': return '(AScalar %s)' % val(s[1])
    o = lambda v: 'None' if v is None else '(Some %s)' % val(v)
    if s[0] == 'list': return '(AList %s)' % clist([o(v) for v in s[1]])
    return '(ADict %s)' % clist(['(%s, %s)' % (cnat(k), o(v)) for k, v in s[1]])


def extra_of(c, name):
    for nm, sh in c.get('extra', []):
        if nm == name: return sh
    return None


def coq_builder(c):
    hc = c['hc']
    if hc[0] == 'none' and extra_of(c, 'holding_cost') is not None: hc = extra_of(c, 'holding_cost')     # the alias keyword
    A = '(mkArgs %s %s %s %s)' % (coq_arg(hc, cnat), coq_arg(c['so'], cnat),
                                  coq_arg(c['ds'], lambda v: cbool(v == 'T')), coq_arg(c['dt'], lambda v: cnat(DT_TAG[v])))
    nl = lambda l: clist([cnat(x) for x in l])
    lists = 'None' if c['lists'] is None else '(Some %s)' % nl(c['lists'])
    k = c['kind']; sys_, nodes = builder_nodes(c)
    if k == 'nfe':
        return 'obs_b (network_from_edges %s %s %s)' % (clist(['(%s, %s)' % (cnat(a), cnat(b)) for a, b in c['edges']]), lists, A)
    if k == 'single':
        return 'obs_b (single_stage_system %s %s)' % (cnat(nodes[0]), A)
    return 'obs_b (%s_system %s %s %s)' % (k, nl(sys_), lists, A)


def expected_entry(s, order, i):
    """documented mapping of an argument shape to node i (order = node order for list arguments)"""
    if s[0] == 'none': return None
    if s[0] == 'scalar': return s[1]
    if s[0] == 'list': return s[1][order.index(i)]
    for k, v in s[1]:
        if k == i: return v
    return None


def oracle_builder(c, obs, extras=None):
    """documented postconditions, computed from the arguments alone"""
    from collections import Counter
    bad = []
    def B(sig, what): bad.append((sig, what))
    nodes_obs, nprods, (hc, so) = obs
    k = c['kind']; sys_, nodes = builder_nodes(c)
    order = c['lists'] if c['lists'] is not None else (sorted(nodes) if k == 'nfe' else nodes)
    if k == 'nfe': edges = [tuple(e) for e in c['edges']]
    elif k == 'single': edges = []
    elif k == 'serial': edges = [(sys_[j], sys_[j + 1]) for j in range(len(sys_) - 1)]
    elif k == 'owmr': edges = [(sys_[0], r) for r in sys_[1:]]
    else: edges = [(x, sys_[-1]) for x in sys_[:-1]]
    idx = [n[0] for n in nodes_obs]
    if sorted(idx) != sorted(nodes): B('node-set', 'nodes %r, documented %r' % (idx, nodes))
    got = Counter((a, b) for (a, _, s, _, _) in nodes_obs for b in s); gotp = Counter((a, b) for (b, p, _, _, _) in nodes_obs for a in p)
    if got != Counter(edges) or gotp != Counter(edges): B('edge-set', 'arcs by successors %r / by predecessors %r, documented %r' % (sorted(got.elements()), sorted(gotp.elements()), edges))
    haspred = {b for (_, b) in edges}; hassucc = {a for (a, _) in edges}
    def dem_exp(i):
        d = expected_entry(c['ds'], order, i)
        if d is not None: return d == 'T'
        return expected_entry(c['dt'], order, i) is not None
    for (i, p, s, prods, (ext, dem)) in nodes_obs:
        if ext != (i not in haspred): B('supply-type-placement', 'node %d supply_type set=%s but has predecessors=%s' % (i, ext, i in haspred))
        if k == 'serial': want = dem_exp(i) if i == sys_[-1] else False
        elif k == 'owmr': want = dem_exp(i) if i != sys_[0] or len(sys_) == 1 and False else False
        elif k == 'mwor': want = dem_exp(i) if i == sys_[-1] else False
        elif k == 'single': want = dem_exp(i)
        else:
            # network_from_edges: demand at sinks; elsewhere only when given per node (list / dict)
            per_node = (c['ds'][0] in ('list', 'dict') and expected_entry(c['ds'], order, i) is not None) or \
                       (c['dt'][0] in ('list', 'dict') and expected_entry(c['dt'], order, i) is not None)
            want = dem_exp(i) if (i not in hassucc or per_node) else False
        if dem != want:
            sig = 'demand-placement'
            if k == 'mwor' and c['ds'][0] == 'list': sig = 'demand_source-list-wrong-slot'
            elif k == 'mwor' and c['dt'][0] in ('list', 'dict') and i != sys_[-1]: sig = 'per-node-demand_type-at-warehouse'
            B(sig, 'node %d has demand=%s, documented %s' % (i, dem, want))
    def same(v, want):
        return (v is None) == (want is None) and (v is None or (v == want and isinstance(v, bool) == isinstance(want, bool)))
    ex = {nm: sh for nm, sh in c.get('extra', [])}
    dem_by_dt = {}
    for (i, p, s, prods, (ext, dem)) in nodes_obs:
        dem_by_dt[i] = dem and expected_entry(c['ds'], order, i) is None
    for (i, v) in hc:
        want = expected_entry(c['hc'], order, i)
        if want is None and 'holding_cost' in ex: want = expected_entry(ex['holding_cost'], order, i)
        if not same(v, want): B('attribute-mapping', 'node %d local_holding_cost=%r, documented %r (shape %s)' % (i, v, want, c['hc'][0]))
    dpar = {nm: sh for nm, sh in c.get('dpar', [])}
    if extras is not None:
        for name, vals in extras.items():
            for (i, v) in vals:
                if name.startswith('demand.'):
                    # parameters of the DemandSource constructed from demand_type: slot k of a per-node list belongs to node order[k]
                    if not dem_by_dt.get(i): continue
                    nm = name[7:]; sh = dpar.get(nm)
                    want = expected_entry(sh, order, i) if sh is not None else (DPAR_DEFAULT.get(nm) if c['dt'][0] != 'none' else None)
                    if isinstance(v, tuple): v = list(v)
                    if not same(v, want):
                        B('demand-parameter-mapping|%s' % dpar_shape_name(nm, sh), 'node %d demand_source.%s=%r, documented %r (argument %r, list order %r)' % (i, nm, v, want, None if sh is None else py_kw(sh), order))
                    continue
                if name == 'shipment_lead_time':
                    want = expected_entry(ex['shipment_lead_time'], order, i) if 'shipment_lead_time' in ex else None
                    if want is None and 'lead_time' in ex: want = expected_entry(ex['lead_time'], order, i)
                elif name == 'round_to_int':
                    if not dem_by_dt.get(i): continue          # only a DemandSource constructed from demand_type carries it
                    want = expected_entry(ex['round_to_int'], order, i) if 'round_to_int' in ex else None
                else:
                    want = expected_entry(ex[name], order, i)
                if not same(v, want): B('attribute-mapping', 'node %d %s=%r, documented %r (shape %s)' % (i, name, v, want, ex.get(name, ex.get('lead_time', ['none']))[0]))
    for (i, v) in so:
        want = expected_entry(c['so'], order, i)
        if k == 'serial' and i != sys_[-1]: want = 0
        if not same(v, want): B('attribute-mapping', 'node %d stockout_cost=%r, documented %r (shape %s)' % (i, v, want, c['so'][0]))
    return bad


def norm_builder_model(m):
    """Coq value of obs_b -> same shape as the implementation observation"""
    if m[0] == 'inr': return ('err', ERRMAP.get(m[1], m[1]))
    nodes, nprods, (hc, so) = m[1]
    return ('ok', ([(i, list(p), list(s), list(pr), (bool(e), bool(d))) for (i, p, s, pr, (e, d)) in nodes], list(nprods),
                   ([(i, un_opt(v)) for (i, v) in hc], [(i, un_opt(v)) for (i, v) in so])))


# =================================================================================================================
# levels

def gen_levels(rng, maxn=7):
    n = rng.randint(1, maxn)
    sys_ = rng.sample(range(12), n) if rng.random() < 0.7 else list(range(n))
    neg = rng.random() < 0.15
    S = [[i, str(Fraction(rng.randint(-8 if neg else 0, 40), 4))] for i in sys_]
    if rng.random() < 0.3:
        for e in S:
            if rng.random() < 0.4: e[1] = '0'
    return {'stream': 'levels', 'sys': sys_, 'S': S, 'default_labels': sys_ == list(range(n))}


def chain_pairs(chain):
    return [[chain[j], chain[j + 1]] for j in range(len(chain) - 1)]


def gen_levels_built(rng, maxn=7):
    """serial systems that are NOT made by serial_system(): the same chain reached through the mutators (nodes added in any
    order and linked afterwards, grown from an inner node with add_successor / add_predecessor, a longer chain trimmed with
    remove_node, re-indexed at the end) or through network_from_edges with the arcs listed in any order.  The conversions are
    documented for any serial network, so neither the labelling nor the order in which the node objects happen to be stored
    in network.nodes may matter.  c['sys'] is the final chain, source first."""
    n = rng.choice([1, 2, 2] + list(range(3, maxn + 1)) * 3)
    chain = rng.sample(range(12), n)
    how = rng.choice(['nodes+edges', 'nodes+edges', 'grow', 'grow', 'trim', 'nfe'])
    if how == 'nfe' and n < 2: how = 'nodes+edges'
    def fl(i, ch): return [i == ch[0] and rng.random() < 0.5, i == ch[-1] and rng.random() < 0.5]
    def nodes_edges(ch):
        perm = ch[:]; rng.shuffle(perm)
        ops = [['add_node', i] + fl(i, ch) for i in perm]
        es = chain_pairs(ch); rng.shuffle(es)
        while es:
            k = rng.randint(1, len(es)); part, es = es[:k], es[k:]
            if len(part) == 1 and rng.random() < 0.7: ops.append(['add_edge', part[0][0], part[0][1]])
            else: ops.append(['add_edges', part])
        return ops
    def grow(ch):
        j = rng.randrange(len(ch)); lo = hi = j
        ops = [['add_node', ch[j]] + fl(ch[j], ch)]
        while lo > 0 or hi < len(ch) - 1:
            if hi == len(ch) - 1 or (lo > 0 and rng.random() < 0.5):
                ops.append(['add_pred', ch[lo], ch[lo - 1]] + fl(ch[lo - 1], ch)); lo -= 1
            else:
                ops.append(['add_succ', ch[hi], ch[hi + 1]] + fl(ch[hi + 1], ch)); hi += 1
        return ops
    if how == 'nfe':
        es = chain_pairs(chain); rng.shuffle(es)
        build = ['nfe', es]
    else:
        if how == 'trim':
            free = [i for i in range(12) if i not in chain]; rng.shuffle(free)
            a = rng.randint(0, min(2, len(free))); b = rng.randint(0 if a else 1, 2)
            pre, post = free[:a], free[a:a + b]
            long_ = pre + chain + post
            ops = (nodes_edges if rng.random() < 0.5 else grow)(long_)
            # only end nodes are removed, so that what is left is a chain again
            lo, hi = 0, len(long_) - 1
            while lo < len(pre) or hi > len(pre) + len(chain) - 1:
                if hi == len(pre) + len(chain) - 1 or (lo < len(pre) and rng.random() < 0.5):
                    ops.append(['remove_node', long_[lo]]); lo += 1
                else:
                    ops.append(['remove_node', long_[hi]]); hi -= 1
        else:
            ops = (nodes_edges if how == 'nodes+edges' else grow)(chain)
        if rng.random() < 0.3:
            m = dict(zip(chain, rng.sample(range(12), n)))
            ops.append(['reindex', [[a, m[a]] for a in chain]]); chain = [m[a] for a in chain]; how += '+reindex'
        build = ['ops', ops]
    neg = rng.random() < 0.1
    S = [[i, str(Fraction(rng.randint(-8 if neg else 0, 40), 4))] for i in chain]
    if rng.random() < 0.3:
        for e in S:
            if rng.random() < 0.4: e[1] = '0'
    rng.shuffle(S)                                   # the order of the keys of the dict is free as well
    if rng.random() < 0.15:                          # a key that is not a node: ignored
        S.append([rng.choice([i for i in range(13) if i not in chain]), str(Fraction(rng.randint(1, 40), 4))])
    return {'stream': 'levels', 'sys': chain, 'S': S, 'default_labels': False, 'build': build, 'how': how}


def build_levels_net(c):
    from stockpyl import supply_chain_network as scn
    sys_ = c['sys']; b = c.get('build')
    if b is None:
        return scn.serial_system(len(sys_), node_order_in_system=None if c['default_labels'] else sys_)
    if b[0] == 'nfe':
        return scn.network_from_edges([tuple(e) for e in b[1]])
    w = World()
    for op in b[1]: w.apply(op)
    return w.net


def run_impl_levels(c):
    from stockpyl import supply_chain_network as scn
    S = {int(i): float(Fraction(v)) for i, v in c['S']}
    try:
        net = build_levels_net(c)
        S_in = dict(S)
        e = scn.local_to_echelon_base_stock_levels(net, S_in)
        e_in = dict(e)
        l = scn.echelon_to_local_base_stock_levels(net, e_in)
        # the same conversions once more on the same network object, and a fresh dict for the way back
        e2 = scn.local_to_echelon_base_stock_levels(net, dict(S))
        l2 = scn.echelon_to_local_base_stock_levels(net, dict(e2))
        info = {'stored': [n.index for n in net.nodes], 'edges': [[a, b] for (a, b) in raw_edges(net)],
                'keys_e': sset(e.keys()), 'keys_l': sset(l.keys()),
                'S_mutated': None if S_in == S else jsonable(sset(S_in.items())), 'e_mutated': None if e_in == e else jsonable(sset(e_in.items())),
                'repeat_differs': None if (e2 == e and l2 == l) else [jsonable(sset(e2.items())), jsonable(sset(l2.items()))]}
        return ('ok', [(n.index, F(e[n.index])) for n in net.nodes], [(n.index, F(l[n.index])) for n in net.nodes], info)
    except Exception as ex:
        return ('err', exc_kind(ex), str(ex)[:200])


def coq_levels(c):
    S = clist(['(%s, %s)' % (cnat(i), cq(Fraction(v))) for i, v in c['S']])
    b = c.get('build')
    if b is None:
        nl = clist([cnat(x) for x in c['sys']])
        return 'match serial_system %s None no_args with BOk b => Some (obs_levels (bn b) %s) | BErr _ => None end' % (nl, S)
    if b[0] == 'nfe':
        es = clist(['(%s, %s)' % (cnat(a), cnat(x)) for a, x in b[1]])
        return 'match network_from_edges %s None no_args with BOk b => Some (obs_levels (bn b) %s) | BErr _ => None end' % (es, S)
    return 'match run %s empty_net with Ok w => Some (obs_levels w %s) | Err _ => None end' % (clist([coq_op(o) for o in b[1]]), S)


def oracle_levels(c, r):
    from collections import Counter
    bad = []
    sys_ = c['sys']; S = {int(i): Fraction(v) for i, v in c['S']}
    e, l = r[1], r[2]; info = r[3] if len(r) > 3 else None
    e = dict(e); l = dict(l)
    feat = ''; where = ''
    if info is not None:
        # the network the conversions ran on is the documented chain (raw successor lists), whatever way it was built
        if Counter(tuple(x) for x in info['edges']) != Counter(tuple(x) for x in chain_pairs(sys_)) or sorted(info['stored']) != sorted(sys_):
            bad.append(('serial-construction|not-the-chain', 'nodes %r arcs %r, the construction is documented to give the chain %r' % (info['stored'], info['edges'], sys_)))
            return bad
        if info['stored'] != sys_:
            feat = '|nodes-not-stored-source-first'
        where = ' [chain %s, network.nodes stored as %r, built by %s]' % ('->'.join(map(str, sys_)), info['stored'], c.get('how', 'serial_system'))
    for j, i in enumerate(sys_):
        want = sum(S[x] for x in sys_[j:])
        if e.get(i) != want: bad.append(('local_to_echelon|suffix-sum' + feat, 'echelon level of node %d is %s, sum of local levels of it and its downstream nodes is %s%s' % (i, e.get(i), want, where)))
    if all(S[i] >= 0 for i in sys_):
        for i in sys_:
            if l.get(i) != S[i]: bad.append(('echelon_to_local|round-trip' + feat, 'node %d: local %s -> echelon -> local gives %s%s' % (i, S[i], l.get(i), where)))
    if info is not None:
        if info['keys_e'] != sorted(sys_): bad.append(('local_to_echelon|key-set', 'keys of the result %r, nodes %r%s' % (info['keys_e'], sorted(sys_), where)))
        if info['keys_l'] != sorted(sys_): bad.append(('echelon_to_local|key-set', 'keys of the result %r, nodes %r%s' % (info['keys_l'], sorted(sys_), where)))
        if info['S_mutated'] is not None: bad.append(('local_to_echelon|argument-modified', 'S_local was %r, after the call %r%s' % (sset(S.items()), info['S_mutated'], where)))
        if info['e_mutated'] is not None: bad.append(('echelon_to_local|argument-modified', 'S_echelon was %r, after the call %r%s' % (sset(e.items()), info['e_mutated'], where)))
        if info['repeat_differs'] is not None: bad.append(('base_stock_level_conversion|repeat-call-differs', 'second conversion on the same network gives echelon/local %r, first %r / %r%s' % (info['repeat_differs'], sset(e.items()), sset(l.items()), where)))
    return bad


# =================================================================================================================
# repeated builds from the same argument objects

# serial_system / owmr_system / mwor_system take the node attributes as keyword arguments; objects (Policy, DemandSource,
# DisruptionProcess) may be given as singleton, list or dict.  A script that loops over experiments builds several networks from
# the SAME argument objects, changes a value in the arguments (or in the network it just built) and builds again.  The documented
# placement must hold for every network built so far, at any later time: what was placed in network A is what the arguments said
# when A was built, A's policies point to A's own nodes, and the caller's argument objects are as the caller left them.
#
# Not generated here (behaviour of the UNCHANGED library, reported to the lead, see the claim's note):
#  * network_from_edges / single_stage_system place the caller's objects themselves (their docstring says the object is "filled
#    into" the node), so the caller's Policy gets its .node set and two builds share objects;
#  (a SINGLETON Policy / DisruptionProcess object for a system of >= 2 nodes used to be placed as one shared object whose .node
#   was the node assigned last; repaired in /repo by fix 7f46636 and generated here since.)

REB_KINDS = ('serial', 'owmr', 'mwor')


def gen_rebuild(rng, maxn=4):
    size = min(maxn, rng.choice([1, 2, 2, 3, 3, 4]))
    nb = rng.choice([2, 2, 3])
    if size == 1: kinds = ['serial'] * nb
    elif rng.random() < 0.6: kinds = [rng.choice(REB_KINDS)] * nb
    else: kinds = [rng.choice(REB_KINDS) for _ in range(nb)]
    labels = rng.sample(range(10), size) if rng.random() < 0.5 else None
    nodes = labels if labels is not None else list(range(size))
    lists = None
    if rng.random() < 0.5: lists = nodes[:]; rng.shuffle(lists)
    def shape(val, kinds_=('none', 'scalar', 'list', 'dict'), none_p=0.2):
        k = rng.choice(kinds_)
        ent = lambda: None if rng.random() < none_p else val()
        if k == 'none': return ['none']
        if k == 'scalar': return ['scalar', val()]
        if k == 'list': return ['list', [ent() for _ in nodes]]
        return ['dict', [[i, ent()] for i in nodes if rng.random() < 0.85]]
    pol = shape(lambda: rng.randint(1, 60))
    ds = shape(lambda: rng.randint(5, 40), none_p=0.1)
    dp = shape(lambda: rng.choice(['1/8', '1/4', '1/2'])) if rng.random() < 0.5 else ['none']
    tweaks = [rng.choice(['none', 'args', 'net', 'both']) for _ in range(nb)]      # what the user changes after build j
    return {'stream': 'rebuild', 'kinds': kinds, 'size': size, 'labels': labels, 'lists': lists, 'pol': pol, 'ds': ds, 'dp': dp, 'tweaks': tweaks}


def enum_rebuild(rng):
    """systematic part: every system builder x size x shape of the object arguments x kind of change between the two builds"""
    out = []
    for kind in REB_KINDS:
        for size in (1, 2, 3):
            if kind != 'serial' and size < 2: continue
            for sh in ('scalar', 'list', 'dict'):
                for tw in (['none', 'none'], ['none', 'net'], ['args', 'none'], ['net', 'none']):
                    labels = rng.sample(range(10), size) if rng.random() < 0.5 else None
                    nodes = labels if labels is not None else list(range(size))
                    lists = None
                    if sh == 'list' and rng.random() < 0.5: lists = nodes[:]; rng.shuffle(lists)
                    def mk(val, sh_):
                        if sh_ == 'scalar': return ['scalar', val()]
                        if sh_ == 'list': return ['list', [val() for _ in nodes]]
                        return ['dict', [[i, val()] for i in nodes]]
                    out.append({'stream': 'rebuild', 'kinds': [kind, kind], 'size': size, 'labels': labels, 'lists': lists,
                                'pol': mk(lambda: rng.randint(1, 60), sh),
                                'ds': mk(lambda: rng.randint(5, 40), sh), 'dp': mk(lambda: rng.choice(['1/8', '1/4', '1/2']), sh) if rng.random() < 0.5 else ['none'],
                                'tweaks': tw})
    return out


def reb_order(kind, c):
    """node order of the system (source(s) first / warehouse first / retailer last), as passed to the builder"""
    size = c['size']
    if c['labels'] is not None: return list(c['labels'])
    return list(range(size)) if kind in ('serial', 'owmr') else list(range(1, size)) + [0]


def reb_objs(x):
    if x is None: return []
    if isinstance(x, list): return [v for v in x if v is not None]
    if isinstance(x, dict): return [v for v in x.values() if v is not None]
    return [x]


def run_rebuild(c):
    """builds the networks one after the other from ONE set of argument objects; after every build (before the user's change
    that follows it) and once more at the end, every network built so far is read again.
    returns ('ok', [reading after build 0, after build 1, ..., at the end], argument problems) | ('err', kind, msg)"""
    from stockpyl import supply_chain_network as scn
    from stockpyl.policy import Policy
    from stockpyl.demand_source import DemandSource
    from stockpyl.disruption_process import DisruptionProcess
    kw = {}
    if c['pol'][0] != 'none': kw['inventory_policy'] = py_kw(c['pol'], lambda v: Policy(type='BS', base_stock_level=v))
    if c['ds'][0] != 'none': kw['demand_source'] = py_kw(c['ds'], lambda v: DemandSource(type='N', mean=v, standard_deviation=2))
    else: kw.update(demand_type='N', mean=10, standard_deviation=2)
    if c['dp'][0] != 'none': kw['disruption_process'] = py_kw(c['dp'], lambda v: DisruptionProcess(random_process_type='M', disruption_type='OP', disruption_probability=float(Fraction(v)), recovery_probability=0.5))
    kw['local_holding_cost'] = 1
    def finger():
        """what the caller can see of the own argument objects"""
        out = {}
        for key in ('inventory_policy', 'demand_source', 'disruption_process'):
            x = kw.get(key)
            cont = ('list', len(x), [id(v) for v in x]) if isinstance(x, list) else ('dict', sorted(x.keys()), [id(x[k]) for k in sorted(x.keys())]) if isinstance(x, dict) else ('single', id(x))
            vals = []
            for o in reb_objs(x):
                if key == 'inventory_policy': vals.append(('Policy', o.type, None if o.node is None else 'node %r' % o.node.index, o.product, o.base_stock_level))
                elif key == 'demand_source': vals.append(('DemandSource', o.type, o.mean, o.standard_deviation))
                else: vals.append(('DisruptionProcess', o.random_process_type, o.disruption_probability, o.recovery_probability, o.disrupted))
            out[key] = (cont, vals)
        return out
    def read(net):
        rows = []
        for n in net.nodes:
            pol = n.inventory_policy; ds = n.demand_source; dp = n.disruption_process
            rows.append((n.index,
                         None if pol is None else (pol.type, pol.base_stock_level, pol.node is n,
                                                   None if pol.node is None else [pol.node.index, [j for j, m in enumerate(nets) if pol.node.network is m]]),
                         None if ds is None else (ds.type, ds.mean),
                         None if dp is None else (dp.random_process_type, None if dp.disruption_probability is None else F(dp.disruption_probability), bool(dp.disrupted)),
                         n.network is net))
        return ([n.index for n in net.nodes], sorted(raw_edges(net)), rows)
    nets = []; readings = []; argbad = []
    try:
        for j, kind in enumerate(c['kinds']):
            order = reb_order(kind, c)
            f0 = finger()
            if kind == 'serial': net = scn.serial_system(c['size'], node_order_in_system=order, node_order_in_lists=c['lists'], **kw)
            elif kind == 'owmr': net = scn.owmr_system(c['size'] - 1, node_order_in_system=order, node_order_in_lists=c['lists'], **kw)
            else: net = scn.mwor_system(c['size'] - 1, node_order_in_system=order, node_order_in_lists=c['lists'], **kw)
            f1 = finger()
            for key in f0:
                if f0[key] != f1[key]: argbad.append((j, key, f0[key][1], f1[key][1]))
            nets.append(net)
            readings.append([read(m) for m in nets])
            tw = c['tweaks'][j]
            if tw in ('net', 'both'):
                # the user changes the network just built (all its nodes alike)
                for n in net.nodes:
                    if n.demand_source is not None: n.demand_source.mean = 990 + j
                    if n.inventory_policy is not None: n.inventory_policy.base_stock_level = 880 + j
                    if n.disruption_process is not None: n.disruption_process.disruption_probability = 0.75; n.disruption_process.disrupted = True
            if tw in ('args', 'both'):
                # the user changes the own argument objects for the next experiment
                for o in reb_objs(kw.get('inventory_policy')): o.base_stock_level += 100
                for o in reb_objs(kw.get('demand_source')): o.mean += 100
                for o in reb_objs(kw.get('disruption_process')): o.disruption_probability = o.disruption_probability / 2
        readings.append([read(m) for m in nets])
    except Exception as e:
        return ('err', exc_kind(e), str(e)[:200])
    return ('ok', readings, argbad)


def oracle_rebuild(c, r):
    """documented placement of every network, at every later time, computed from the case description alone"""
    bad = []
    _, readings, argbad = r
    nodes = c['labels'] if c['labels'] is not None else list(range(c['size']))
    fn = lambda j: c['kinds'][j] + '_system'
    for (j, key, before, after) in argbad:
        bad.append(('%s|argument-object-modified' % fn(j), 'build %d (%s): the caller\'s %s argument objects were %r before the call and are %r after it' % (j, fn(j), key, before, after)))
    n_arg = 0       # number of times the caller changed the arguments so far
    arg_at = []     # arg_at[j] = n_arg when network j was built
    net_tw = []     # net_tw[j] = network j was changed by the user after it was built
    nb = len(c['kinds'])
    for t, reading in enumerate(readings):
        if t < nb: arg_at.append(n_arg)
        for j, (stored, edges, rows) in enumerate(reading):
            kind = c['kinds'][j]; sys_ = reb_order(kind, c)
            order = c['lists'] if c['lists'] is not None else sys_
            tweaked = j < len(net_tw) and net_tw[j]
            when = 'network %d (%s) read %s%s' % (j, fn(j), 'after build %d' % t if t < nb else 'at the end', '' if t == j else ' [changes by the user after the builds so far: %r]' % c['tweaks'][:t])
            later = '' if t == j else '|after-later-build'
            if kind == 'serial': exp_edges = [(sys_[k], sys_[k + 1]) for k in range(len(sys_) - 1)]; dem_nodes = {sys_[-1]}
            elif kind == 'owmr': exp_edges = [(sys_[0], x) for x in sys_[1:]]; dem_nodes = set(sys_[1:])
            else: exp_edges = [(x, sys_[-1]) for x in sys_[:-1]]; dem_nodes = {sys_[-1]}
            if sorted(stored) != sorted(nodes) or [tuple(e) for e in edges] != sorted(exp_edges):
                bad.append(('%s|topology%s' % (fn(j), later), '%s: nodes %r arcs %r, documented arcs %r' % (when, stored, edges, sorted(exp_edges)))); continue
            for (i, pol, ds, dp, own) in rows:
                if not own: bad.append(('%s|node-network-pointer%s' % (fn(j), later), '%s: node %d .network is not the network' % (when, i)))
                # inventory policy
                lvl = expected_entry(c['pol'], order, i)
                want = (None, None) if lvl is None else ('BS', lvl + 100 * arg_at[j])
                if tweaked: want = (want[0], 880 + j)
                if pol is None: bad.append(('%s|inventory_policy-missing%s' % (fn(j), later), '%s: node %d has no inventory policy' % (when, i)))
                else:
                    if not pol[2]:
                        bad.append(('%s|inventory_policy-node-pointer%s' % (fn(j), later), '%s: node %d: inventory_policy.node is %s, documented the node itself' % (when, i, 'None' if pol[3] is None else 'node %d of network(s) %r' % (pol[3][0], pol[3][1]))))
                    if (pol[0], pol[1]) != want:
                        bad.append(('%s|inventory_policy-placement%s' % (fn(j), later), '%s: node %d has policy (type, base-stock level) %r, documented %r (shape %s)' % (when, i, (pol[0], pol[1]), want, c['pol'][0])))
                # demand
                if c['ds'][0] == 'none': m = 10 if i in dem_nodes else None
                else:
                    m = expected_entry(c['ds'], order, i) if i in dem_nodes else None
                    if m is not None: m += 100 * arg_at[j]
                wantd = (None if m is None else 'N', m)
                if tweaked: wantd = (wantd[0], 990 + j)
                if ds is None or (ds[0], ds[1]) != wantd:
                    bad.append(('%s|demand-placement%s' % (fn(j), later), '%s: node %d has demand (type, mean) %r, documented %r (shape %s)' % (when, i, ds, wantd, c['ds'][0])))
                # disruption process
                pr = expected_entry(c['dp'], order, i)
                wantp = (None, None, False) if pr is None else ('M', Fraction(pr) / 2 ** arg_at[j], False)
                if tweaked: wantp = (wantp[0], Fraction(3, 4), True)
                if dp is None or tuple(dp) != wantp:
                    bad.append(('%s|disruption_process-placement%s' % (fn(j), later), '%s: node %d has disruption process (type, probability, disrupted) %r, documented %r (shape %s)' % (when, i, dp, wantp, c['dp'][0])))
        if t < nb:
            tw = c['tweaks'][t]
            net_tw.append(tw in ('net', 'both'))
            if tw in ('args', 'both'): n_arg += 1
    return bad


def check_rebuild_case(chk, c, im):
    chk.count('rebuild=%s' % '+'.join(c['kinds'])); chk.count('rebuild_size=%d' % c['size'])
    for a in ('pol', 'ds', 'dp'): chk.count('rebuild_shape_%s=%s' % (a, c[a][0]))
    for tw in c['tweaks'][:-1]: chk.count('rebuild_change_between_builds=%s' % tw)
    if im[0] != 'ok':
        chk.fail('%s|repeated-build-raises-%s' % (c['kinds'][0] + '_system', im[1]), 'valid arguments raise %s: %s' % (im[1], im[2]), c)
        chk.case(c, False); return
    seen = set()
    for sig, what in oracle_rebuild(c, im):
        if sig in seen: continue          # one report per signature and case
        seen.add(sig); chk.fail(sig, what, c)
    chk.case(c, c['size'] >= 2, key=json.dumps(jsonable({k: v for k, v in c.items() if k != 'stream'}), sort_keys=True))


def explore_rebuild(chk, n, maxn=4):
    cases = enum_rebuild(chk.rng) + [gen_rebuild(chk.rng, maxn) for _ in range(n)]
    # smallest first, so that the first failing input recorded for a signature is a small one
    for c in sorted(cases, key=lambda c: (c['size'], len(c['kinds']))):
        check_rebuild_case(chk, c, run_rebuild(c))



# =================================================================================================================
# object placement: identity of the Policy / DisruptionProcess objects network_from_edges puts at the nodes
# (model Net/Placement.v; theorems C18_place_*: no two nodes share an object, every policy's .node is its holder,
#  the first taker keeps the caller's own object, copies carry the value of their original)

def gen_place(rng, maxn=5):
    while True:
        c = gen_builder(rng, maxn)
        if c['kind'] == 'nfe' and c['malformed'] is None and not c['bogus']: break
    _, nodes = builder_nodes(c)
    order = c['lists'] if c['lists'] is not None else sorted(nodes)
    def objs():
        pool = rng.randint(1, 3)                  # few distinct objects, so that lists and dicts repeat one object
        return gen_shape(rng, nodes, order, lambda: rng.randrange(pool))
    return {'stream': 'place', 'edges': c['edges'], 'lists': c['lists'], 'pol': objs(), 'dp': objs() if rng.random() < 0.7 else ['none']}


def enum_place():
    out = []
    for n in (1, 2, 3, 4):
        edges = [[i, i + 1] for i in range(n - 1)]
        nodes = list(range(n))
        for sh in (['scalar', 0], ['list', [0] * n], ['list', [0, None, 0, 1][:n]], ['dict', [[i, 0] for i in nodes]], ['dict', [[i, i % 2] for i in nodes[1:]]], ['none']):
            out.append({'stream': 'place', 'edges': edges, 'lists': None if edges else [0], 'pol': sh, 'dp': sh})
    return out


def place_nodes_order(c):
    _, nodes = builder_nodes({'kind': 'nfe', 'edges': c['edges'], 'lists': c['lists']})
    return nodes, (c['lists'] if c['lists'] is not None else sorted(nodes))


def run_place(c):
    """-> ('ok', node order, policy rows [node, caller's object id or -1, .node link, id of the original or -1], same for dp without link)"""
    from stockpyl import supply_chain_network as scn
    from stockpyl.policy import Policy
    from stockpyl.disruption_process import DisruptionProcess
    pols = {}; dps = {}
    def mkp(v):
        if v not in pols: pols[v] = Policy(type='BS', base_stock_level=100 + v)
        return pols[v]
    def mkd(v):
        if v not in dps: dps[v] = DisruptionProcess(random_process_type='M', disruption_type='OP', disruption_probability=(1 + v) / 8, recovery_probability=0.5)
        return dps[v]
    kw = {}
    if c['pol'][0] != 'none': kw['inventory_policy'] = py_kw(c['pol'], mkp)
    if c['dp'][0] != 'none': kw['disruption_process'] = py_kw(c['dp'], mkd)
    try:
        net = scn.network_from_edges([tuple(e) for e in c['edges']], node_order_in_lists=c['lists'], **kw)
    except Exception as e:
        return ('err', exc_kind(e), str(e)[:200])
    prow = []; drow = []
    for n in net.nodes:
        pol = n.inventory_policy; dp = n.disruption_process
        cid = [k for k, o in pols.items() if o is pol]
        bs = None if pol is None else pol.base_stock_level
        prow.append([n.index, cid[0] if cid else -1, -1 if pol is None or pol.node is None else pol.node.index, -1 if bs is None else int(bs) - 100])
        did = [k for k, o in dps.items() if o is dp]
        pr = None if dp is None else dp.disruption_probability
        drow.append([n.index, did[0] if did else -1, -1 if pr is None else int(round(pr * 8)) - 1])
    share_p = sorted(sorted(m.index for m in net.nodes if m.inventory_policy is n.inventory_policy) for n in net.nodes if n.inventory_policy is not None)
    share_d = sorted(sorted(m.index for m in net.nodes if m.disruption_process is n.disruption_process) for n in net.nodes if n.disruption_process is not None)
    return ('ok', [n.index for n in net.nodes], prow, drow, [g for g in share_p if len(g) > 1], [g for g in share_d if len(g) > 1])


def coq_place(c):
    nodes, order = place_nodes_order(c)
    nl = lambda l: clist([cnat(x) for x in l])
    es = clist(['(%s, %s)' % (cnat(a), cnat(b)) for a, b in c['edges']])
    ns = '(nfe_ids %s %s)' % (es, 'None' if c['lists'] is None else '(Some %s)' % nl(c['lists']))
    def rows(sh, link):
        a = coq_arg(sh, cnat)
        body = ('[Z.of_nat (fst (fst t)); (if Nat.ltb (snd (fst t)) (base %s) then Z.of_nat (snd (fst t)) else -1); %s'
                'match data %s %s (fst (fst t)) with Some _ => Z.of_nat (place_orig %s %s %s (snd (fst t))) | None => -1 end]') % (
                    a, 'Z.of_nat (snd t); ' if link else '', a, nl(order), ns, nl(order), a)
        return '(map (fun t : nat * oid * nat => %s) (place_pol %s %s %s))' % (body, ns, nl(order), a)
    return '[%s; %s]' % (rows(c['pol'], True), rows(c['dp'], False))


def check_place_case(chk, c, im, mo=None, do_model=True):
    nodes, order = place_nodes_order(c)
    chk.count('place_n=%d' % len(nodes)); chk.count('place_shape_pol=%s' % c['pol'][0]); chk.count('place_shape_dp=%s' % c['dp'][0])
    rep = lambda sh: sh[0] in ('scalar',) and len(nodes) > 1 or (sh[0] in ('list', 'dict') and len([v for v in (sh[1] if sh[0] == 'list' else [x[1] for x in sh[1]]) if v is not None]) > len({v for v in (sh[1] if sh[0] == 'list' else [x[1] for x in sh[1]]) if v is not None}))
    shared_arg = rep(c['pol']) or rep(c['dp'])
    chk.count('place_one_object_for_several_nodes=%s' % shared_arg)
    if im[0] != 'ok':
        chk.fail('network_from_edges|object-arguments-raise-%s' % im[1], 'valid object arguments raise %s: %s' % (im[1], im[2]), c)
        chk.case(c, False); return
    _, ids, prow, drow, share_p, share_d = im
    where = ' (edges %r, node_order_in_lists %r, inventory_policy %r, disruption_process %r; numbers are object ids)' % (c['edges'], c['lists'], c['pol'], c['dp'])
    # oracle (independent of the model): the documented placement
    if share_p: chk.fail('network_from_edges|nodes-share-one-Policy-object', 'nodes %r hold one and the same Policy object%s' % (share_p, where), c)
    if share_d: chk.fail('network_from_edges|nodes-share-one-DisruptionProcess-object', 'nodes %r hold one and the same DisruptionProcess object%s' % (share_d, where), c)
    for n, cid, link, orig in prow:
        if link != n: chk.fail('network_from_edges|policy.node-is-not-its-node', 'node %d: inventory_policy.node is %s%s' % (n, 'None' if link < 0 else 'node %d' % link, where), c); break
    for what, rows, sh in (('inventory_policy', [[r[0], r[1], r[3]] for r in prow], c['pol']), ('disruption_process', drow, c['dp'])):
        for n, cid, orig in rows:
            e = expected_entry(sh, order, n)
            if (-1 if e is None else e) != orig:
                chk.fail('network_from_edges|%s-placement' % what, 'node %d holds the %s with value of object %s, the argument gives %s%s' % (n, what, orig, e, where), c); break
    if do_model and mo is not None:
        got = [prow, drow]
        if mo != got:
            chk.mismatch('network_from_edges|object-placement: model [node, caller object or -1, (link,) original or -1] %r, implementation %r%s' % (mo, got, where), c)
    chk.case(c, len(nodes) >= 2 and (c['pol'][0] != 'none' or c['dp'][0] != 'none'), key=json.dumps(jsonable({k: v for k, v in c.items() if k != 'stream'}), sort_keys=True))


def explore_place(chk, n, do_model=True):
    cases = enum_place() + [gen_place(chk.rng) for _ in range(n)]
    impl = [run_place(c) for c in cases]
    model = [None] * len(cases)
    if do_model:
        model = coq_eval_sharded('c18p', 'Net.Builders Net.Placement', 'Open Scope Z_scope.', [coq_place(c) for c in cases], shard=250)
    for c, im, mo in zip(cases, impl, model):
        check_place_case(chk, c, im, mo, do_model)

# =================================================================================================================
# exploration

def raw_edges(net):
    return [(n.index, b) for n in net.nodes for b in n._successor_indices]


def expect_err(world, op):
    """exception the documented / evident contract of the call gives for this operation in the current state"""
    net = world.net; idx = set(net.node_indices); k = op[0]
    if k == 'add_edge':
        if (op[1], op[2]) in raw_edges(net): return None
        return 'KeyError' if (op[1] not in idx or op[2] not in idx) else None
    if k == 'add_edges':
        cur = set(raw_edges(net))
        for a, b in op[1]:
            if (a, b) in cur: continue
            if a not in idx or b not in idx: return 'KeyError'
            cur.add((a, b))
        return None
    if k in ('add_succ', 'add_pred', 'node_add_prod', 'node_rem_prod'):
        return None if op[1] in idx else 'KeyError'
    if k == 'net_rem_prod':
        # known to the network by the HISTORY of the calls (added to the network itself and not removed since, or handled by a
        # node now), not by what the network's own tables say
        known = set(world.local) | {p for n in net.nodes for p in n.product_indices} | {ext_idx(n.index) for n in net.nodes}
        return None if op[1] in known else 'ValueError'
    if k == 'set_bom':
        p = world.pool[op[1]]
        return 'ValueError' if (p.network is not None and op[2] not in p.network.products_by_index) else None
    if k == 'reindex':
        keys = {a for a, _ in op[1]}
        return None if idx <= keys else 'KeyError'
    return None


def run_ops_oracle(ops):
    """implementation + oracle only; returns list of (step, signature, what)"""
    w = World(); out = []
    for k, op in enumerate(ops):
        exp = expect_err(w, op)
        try:
            w.apply(op)
        except Exception as e:
            if exp != exc_kind(e):
                out.append((k, '%s|raises-%s' % (op[0], exc_kind(e)), 'operation %r raised %s: %s (expected %s)' % (op, exc_kind(e), str(e)[:120], exp or 'no exception')))
            break
        if exp is not None:
            out.append((k, '%s|no-%s' % (op[0], exp), 'operation %r did not raise %s' % (op, exp))); break
        for sig, what in oracle_ops(w, op):
            out.append((k, '%s|%s' % (op[0], sig), what))
        if out: break
    return out


def shrink_ops(ops, sig):
    """greedy removal of operations while the same signature is still reported"""
    cur = list(ops)
    changed = True
    while changed and len(cur) > 1:
        changed = False
        for i in range(len(cur) - 1, -1, -1):
            cand = cur[:i] + cur[i + 1:]
            try:
                r = run_ops_oracle(cand)
            except Exception:
                continue
            if any(s == sig for _, s, _ in r):
                cur = cand[:max(k for k, s, _ in r if s == sig) + 1]; changed = True; break
    return cur


def explore_ops(chk, n, maxlen, do_model=True):
    cases = [gen_ops(chk.rng, maxlen) for _ in range(n)]
    results = []
    for ops in cases:
        w = World(); steps = []
        for k, op in enumerate(ops):
            exp = expect_err(w, op)
            try:
                w.apply(op)
            except Exception as e:
                steps.append(('err', exc_kind(e), str(e)[:160], exp)); break
            bad = oracle_ops(w, op)
            try:
                snap = snapshot(w)
            except Exception as e:
                snap = None
                if not bad: bad.append(('snapshot-raises-' + exc_kind(e), 'reading the structure raised %s: %s' % (exc_kind(e), str(e)[:150])))
            steps.append(('ok', snap, bad, exp))
            if bad: break          # the structure is incoherent from here on
        results.append(steps)
    model = coq_eval_sharded('c18ops', 'Net.Bom', 'Open Scope Z_scope.',
                             ['obs_trace %s' % clist([coq_op(o) for o in ops]) for ops in cases], shard=12) if do_model else [None] * n
    reported = set()
    for ops, steps, mo in zip(cases, results, model):
        for k, st in enumerate(steps):
            op = ops[k]; case = {'stream': 'ops', 'ops': ops[:k + 1]}
            chk.count('op=%s' % op[0]); chk.count('ops_outcome=%s' % (st[0] if st[0] == 'ok' else st[1]))
            fails = []
            if st[0] == 'err':
                if st[3] != st[1]: fails.append(('%s|raises-%s' % (op[0], st[1]), 'operation %r raised %s: %s (expected %s)' % (op, st[1], st[2], st[3] or 'no exception')))
            else:
                if st[3] is not None: fails.append(('%s|no-%s' % (op[0], st[3]), 'operation %r did not raise %s' % (op, st[3])))
                fails += [('%s|%s' % (op[0], sig), what) for sig, what in st[2]]
            for sig, what in fails:
                if sig not in reported:
                    reported.add(sig)
                    small = shrink_ops(ops[:k + 1], sig)
                    chk.fail(sig, what + ' [after %d operations; shrunk to %d]' % (k + 1, len(small)), {'stream': 'ops', 'ops': small})
                else:
                    chk.fail(sig, what, case)
            if do_model:
                chk.traces += 1
                m = mo[k] if k < len(mo) else None
                if st[0] == 'err':
                    if not (isinstance(m, tuple) and m[0] == 'OErr' and ERRMAP.get(m[1]) == st[1]):
                        chk.mismatch('operation %r: implementation raises %s, model gives %r' % (op, st[1], m if not isinstance(m, tuple) or m[0] == 'OErr' else 'Ok'), case)
                elif not (isinstance(m, tuple) and m[0] == 'OOk'):
                    chk.mismatch('operation %r: implementation succeeds, model gives %r' % (op, m), case)
                elif st[1] is None:
                    chk.mismatch('operation %r: the structure of the implementation cannot be read' % (op,), case)
                else:
                    a = jsonable(st[1]); b = jsonable(norm_model(m[1]))
                    if a != b:
                        part = [nm for nm, x, y in zip(('nodes', 'products', 'boms', 'edges/sources/sinks', 'views'), a, b) if x != y]
                        det = ''
                        if part == ['views']:
                            for vx, vy in zip(a[4], b[4]):
                                if vx != vy:
                                    names = ('index', 'descendants', 'ancestors', 'NBOM table', 'per-product views', 'raw materials', 'per-raw-material views')
                                    det = '; node %r: ' % vx[0] + ', '.join('%s impl %r model %r' % (nm, ux, uy) for nm, ux, uy in zip(names, vx, vy) if ux != uy)[:600]
                                    break
                        else:
                            i0 = ('nodes', 'products', 'boms', 'edges/sources/sinks', 'views').index(part[0])
                            det = '; impl %r model %r' % (a[i0], b[i0])
                        chk.mismatch('after %r the %s differ%s' % (op, '+'.join(part), det[:900]), case)
            if st[0] == 'ok' and st[1] is not None:
                nodes = st[1][0]
                nontriv = len(nodes) >= 2 and any(n[2] for n in nodes)
                chk.case(case, nontriv, key=hashlib.sha1(json.dumps(jsonable(st[1][:3])).encode()).hexdigest())
            else:
                chk.case(case, False)
        if do_model and mo is not None and len(mo) != len(steps) and not (steps and steps[-1][0] == 'ok' and steps[-1][2]):
            chk.mismatch('trace lengths differ: implementation %d steps, model %d' % (len(steps), len(mo)), {'stream': 'ops', 'ops': ops})


# ---- systematic part of the operation stream: registration histories of one product ----------------------------------------
# A product can be registered at two levels: at nodes (node.add_product) and at the network itself (network.add_product); either
# registration can be taken back (node.remove_product / remove_node, network.remove_product), in any order.  Every sequence of
# `depth` such calls for product 0 on the two-node network 0 -> 1 (plus one call that involves a second product) is run, with the
# oracle after every call.  The expected product list depends on the HISTORY only (World.local + what the nodes hold).

PROD_HISTORY_ALPHABET = [['node_add_prod', 0, 0], ['node_add_prod', 1, 0], ['net_add_prod', 0], ['node_rem_prod', 0, 0, False], ['node_rem_prod', 1, 0, True],
                         ['net_rem_prod', 0, False], ['remove_node', 1], ['node_add_prod', 1, 1]]
PROD_HISTORY_BASE = [['add_node', 0, True, False], ['add_succ', 0, 1, False, True]]


def explore_prod_histories(chk, depth, sample=None):
    seqs = [list(t) for t in itertools.product(range(len(PROD_HISTORY_ALPHABET)), repeat=depth)]
    if sample is not None and len(seqs) > sample: seqs = chk.rng.sample(seqs, sample)
    reported = set()
    for t in seqs:
        ops = PROD_HISTORY_BASE + [list(PROD_HISTORY_ALPHABET[j]) for j in t]
        r = run_ops_oracle(ops)
        chk.count('product_registration_history_depth=%d' % depth)
        kinds = {o[0] for o in ops[2:]}
        if {'node_add_prod', 'net_add_prod'} <= kinds and kinds & {'node_rem_prod', 'remove_node', 'net_rem_prod'}: chk.count('product_registration_history=both-levels-then-removal')
        for k, sig, what in r:
            if sig not in reported:
                reported.add(sig)
                small = shrink_ops(ops[:k + 1], sig)
                chk.fail(sig, what + ' [after %d operations; shrunk to %d]' % (k + 1, len(small)), {'stream': 'ops', 'ops': small})
            else:
                chk.fail(sig, what, {'stream': 'ops', 'ops': ops[:k + 1]})
        chk.case({'stream': 'ops', 'ops': ops}, True, key='prodhist:' + json.dumps(t))


SHAPES = ['none', 'scalar', 'list', 'dict']


def enum_builders(rng, sizes):
    """systematic part: every builder x size x (ds shape, dt shape) x node_order_in_lists mode x labelling"""
    out = []
    for kind in ('nfe', 'single', 'serial', 'owmr', 'mwor'):
        for size in sizes:
            if kind == 'single' and size > 1: continue
            if kind in ('owmr', 'mwor') and size < 2: continue
            for relabel in (False, True):
                for lists_mode in (None, 'perm'):
                    if kind == 'single' and lists_mode: continue
                    for ds_s in SHAPES:
                        for dt_s in SHAPES:
                            c = {'stream': 'builder', 'kind': kind, 'malformed': None, 'bogus': False}
                            if kind == 'nfe':
                                labels = rng.sample(range(10), size) if relabel else list(range(size))
                                edges = [[labels[rng.randrange(j)], labels[j]] for j in range(1, size)]    # a random in-tree
                                if size >= 3 and rng.random() < 0.5: edges.append([labels[0], labels[size - 1]])
                                c['edges'] = edges; c['sys'] = None
                                nodes = []
                                for e in edges:
                                    for x in e:
                                        if x not in nodes: nodes.append(x)
                                if not edges: nodes = [0]
                            elif kind == 'single':
                                c['index'] = rng.randrange(10) if relabel else None; c['sys'] = None
                                nodes = [0 if c['index'] is None else c['index']]
                            else:
                                c['size'] = size
                                default = list(range(size)) if kind in ('serial', 'owmr') else list(range(1, size)) + [0]
                                c['sys'] = rng.sample(range(10), size) if relabel else None
                                nodes = c['sys'] if c['sys'] is not None else default
                            lists = None
                            if lists_mode and not (kind == 'nfe' and not c['edges']):
                                lists = nodes[:]; rng.shuffle(lists)
                            c['lists'] = lists
                            order = lists if lists is not None else (sorted(nodes) if kind == 'nfe' else nodes)
                            def mk(shape, val):
                                if shape == 'none': return ['none']
                                if shape == 'scalar': return ['scalar', val()]
                                if shape == 'list': return ['list', [None if rng.random() < 0.2 else val() for _ in order]]
                                return ['dict', [[i, None if rng.random() < 0.15 else val()] for i in nodes if rng.random() < 0.8]]
                            c['ds'] = mk(ds_s, lambda: rng.choice(['T', 'T', 'U']))
                            c['dt'] = mk(dt_s, lambda: rng.choice(DT_VALUES))
                            c['hc'] = mk(rng.choice(SHAPES), lambda: attr_val(rng))
                            c['so'] = mk(rng.choice(SHAPES), lambda: attr_val(rng))
                            c['st'] = mk(rng.choice(SHAPES), lambda: rng.choice(['U', None]))
                            add_extras(rng, c, nodes, order)
                            add_dpar(rng, c, nodes, order)
                            out.append(c)
    return out


def enum_malformed(rng):
    """systematic malformed part: node_order_in_lists that is not the node set, list of the wrong length"""
    out = []
    for kind in ('serial', 'owmr', 'mwor', 'nfe'):
        for size in (1, 2, 3, 4):
            if kind in ('owmr', 'mwor', 'nfe') and size < 2: size_ok = (kind != 'nfe')
            else: size_ok = True
            if not size_ok: continue
            for relabel in (False, True):
                for mal in ('order-set', 'list-length'):
                    c = {'stream': 'builder', 'kind': kind, 'bogus': False, 'ds': ['none'], 'dt': ['scalar', 'N'], 'so': ['none'], 'st': ['none']}
                    if kind == 'nfe':
                        labels = rng.sample(range(10), size) if relabel else list(range(size))
                        c['edges'] = [[labels[j - 1], labels[j]] for j in range(1, size)]; c['sys'] = None
                        nodes = labels
                    else:
                        c['size'] = size
                        default = list(range(size)) if kind in ('serial', 'owmr') else list(range(1, size)) + [0]
                        c['sys'] = rng.sample(range(10), size) if relabel else None
                        nodes = c['sys'] if c['sys'] is not None else default
                    lists = nodes[:]; rng.shuffle(lists)
                    if mal == 'order-set':
                        lists[rng.randrange(len(lists))] = max(nodes) + 1 + rng.randrange(3)
                        c['hc'] = ['list', [attr_val(rng) for _ in lists]]
                    else:
                        if rng.random() < 0.5: lists = None
                        n = len(nodes) + rng.choice([-1, 1])
                        c['hc'] = ['list', [attr_val(rng) for _ in range(n)]]
                    c['lists'] = lists; c['malformed'] = mal; c['extra'] = []
                    out.append(c)
    return out


def enum_zero(rng):
    """systematic part: for every builder, every copied attribute (modelled and extra) and every shape, a value of exactly
    0 (int or float; False for round_to_int) at some node, non-zero elsewhere"""
    out = []
    for kind in ('nfe', 'single', 'serial', 'owmr', 'mwor'):
        for attr in ['hc', 'so'] + EXTRA_ATTRS + ['round_to_int']:
            for shape in ('scalar', 'list', 'dict'):
                size = 1 if kind == 'single' else rng.randint(2, 4)
                c = {'stream': 'builder', 'kind': kind, 'malformed': None, 'bogus': False, 'ds': ['none'], 'dt': ['scalar', 'N'],
                     'hc': ['none'], 'so': ['none'], 'st': ['none'], 'extra': []}
                relabel = rng.random() < 0.5
                if kind == 'nfe':
                    labels = rng.sample(range(10), size) if relabel else list(range(size))
                    c['edges'] = [[labels[j - 1], labels[j]] for j in range(1, size)]; c['sys'] = None; nodes = labels
                elif kind == 'single':
                    c['index'] = rng.randrange(10) if relabel else None; c['sys'] = None; nodes = [0 if c['index'] is None else c['index']]
                else:
                    c['size'] = size
                    default = list(range(size)) if kind in ('serial', 'owmr') else list(range(1, size)) + [0]
                    c['sys'] = rng.sample(range(10), size) if relabel else None
                    nodes = c['sys'] if c['sys'] is not None else default
                lists = None
                if kind != 'single' and rng.random() < 0.5: lists = nodes[:]; rng.shuffle(lists)
                c['lists'] = lists
                order = lists if lists is not None else (sorted(nodes) if kind == 'nfe' else nodes)
                zero = False if attr == 'round_to_int' else rng.choice([0, 0.0])
                other = (lambda: True) if attr == 'round_to_int' else (lambda: rng.randint(1, 9))
                zpos = rng.randrange(len(order))
                if shape == 'scalar': v = ['scalar', zero]
                elif shape == 'list': v = ['list', [zero if j == zpos else other() for j in range(len(order))]]
                else: v = ['dict', [[i, zero if i == order[zpos] else other()] for i in nodes]]
                if attr in ('hc', 'so'): c[attr] = v
                else: c['extra'] = [[attr, v]]
                out.append(c)
    return out


def enum_demand_params(rng, sizes=(1, 2, 3, 4)):
    """systematic part: for every builder x size x labelling x list order, every pattern of WHICH nodes (among those documented to
    carry demand; any node for network_from_edges) get a custom-discrete demand; demand_type / demand_list / probabilities (and one
    numeric parameter) are given per node, as list (None in the slots of the other nodes -- so a None lands in every position, the
    first included, whenever a node without such a demand comes first in the list order) or as dict; plus the flat-list form"""
    out = []
    for kind in ('nfe', 'single', 'serial', 'owmr', 'mwor'):
        for size in sizes:
            if kind == 'single' and size > 1: continue
            if kind in ('owmr', 'mwor') and size < 2: continue
            for relabel in (False, True):
                for lists_mode in (None, 'rev', 'perm'):
                    if (kind == 'single' or size == 1) and lists_mode: continue
                    base = {'stream': 'builder', 'kind': kind, 'malformed': None, 'bogus': False, 'ds': ['none'], 'hc': ['scalar', 1], 'so': ['none'], 'st': ['none'], 'extra': []}
                    if kind == 'nfe':
                        labels = rng.sample(range(10), size) if relabel else list(range(size))
                        base['edges'] = [[labels[rng.randrange(j)], labels[j]] for j in range(1, size)]; base['sys'] = None
                        nodes = []
                        for e in base['edges']:
                            for x in e:
                                if x not in nodes: nodes.append(x)
                        if not base['edges']: nodes = [0]
                        entitled = nodes
                    elif kind == 'single':
                        base['index'] = rng.randrange(10) if relabel else None; base['sys'] = None
                        nodes = [0 if base['index'] is None else base['index']]; entitled = nodes
                    else:
                        base['size'] = size
                        default = list(range(size)) if kind in ('serial', 'owmr') else list(range(1, size)) + [0]
                        base['sys'] = rng.sample(range(10), size) if relabel else None
                        nodes = base['sys'] if base['sys'] is not None else default
                        entitled = nodes[1:] if kind == 'owmr' else [nodes[-1]]
                    lists = None
                    if lists_mode and not (kind == 'nfe' and not base['edges']):
                        lists = list(reversed(nodes if kind != 'nfe' else sorted(nodes))) if lists_mode == 'rev' else rng.sample(nodes, len(nodes))
                    base['lists'] = lists
                    order = lists if lists is not None else (sorted(nodes) if kind == 'nfe' else nodes)
                    pats = [p for r in range(1, len(entitled) + 1) for p in itertools.combinations(entitled, r)]
                    if len(pats) > 5: pats = rng.sample(pats, 5)
                    for pat in pats:
                        for form in ('list', 'dict', 'flat'):
                            c = json.loads(json.dumps(base))
                            per = lambda val: (['list', [val(i) if i in pat else None for i in order]] if form == 'list' else ['dict', [[i, val(i)] for i in nodes if i in pat]])
                            c['dt'] = per(lambda i: 'CD')
                            if form == 'flat':
                                c['dpar'] = [['demand_list', ['scalar', [1, 2, 3]]], ['probabilities', ['scalar', [0.5, 0.25, 0.25]]]]
                            else:
                                c['dpar'] = [['demand_list', per(lambda i: [i, i + 1, i + 2])], ['probabilities', per(lambda i: [0.5, 0.25, 0.25] if i % 2 else [0.25, 0.25, 0.5])],
                                             [rng.choice(DPAR_NUM), per(lambda i: i + 1)]]
                            out.append(c)
    return out


def builder_fn(c):
    return {'nfe': 'network_from_edges', 'single': 'single_stage_system'}.get(c['kind'], c['kind'] + '_system')


def check_builder_case(chk, c, im, m=None, do_model=True):
    fn = builder_fn(c)
    chk.count('builder=%s' % c['kind']); chk.count('builder_malformed=%s' % (c['malformed'] or ('bogus' if c.get('bogus') else None)))
    for a in ('hc', 'so', 'ds', 'dt'): chk.count('shape_%s=%s' % (a, c[a][0]))
    for a in ('hc', 'so'):
        vals = [c[a][1]] if c[a][0] == 'scalar' else ([v for v in c[a][1]] if c[a][0] == 'list' else ([v for _, v in c[a][1]] if c[a][0] == 'dict' else []))
        if any(v is not None and v == 0 for v in vals): chk.count('zero_value_%s' % a)
    for nm, sh in c.get('extra', []): chk.count('extra_attr=%s' % nm)
    for nm, sh in c.get('dpar', []):
        chk.count('demand_parameter=%s:%s' % (nm, dpar_shape_name(nm, sh)))
        if sh[0] == 'list' and len(sh[1]) > 1:
            nn = [j for j, v in enumerate(sh[1]) if v is None]
            if nn: chk.count('demand_parameter_list_None_slot=%s' % ('first' if 0 in nn else 'later-only'))
    chk.count('node_order_in_lists=%s' % ('given' if c['lists'] is not None else 'None'))
    _, nodes = builder_nodes(c)
    if c.get('bogus'):
        if im[0] != 'err' or im[1] != 'AttributeError':
            chk.fail('%s|unknown-keyword-accepted' % fn, 'unknown keyword argument not rejected with AttributeError: %r' % (im[:2],), c)
        chk.case(c, False); return
    if c['malformed']:
        if im[0] != 'err' or im[1] != 'ValueError':
            if c['malformed'] == 'order-set':
                sig = '%s|single-node-order-mismatch-accepted' % fn if len(nodes) == 1 else '%s|node_order_in_lists-mismatch-accepted' % fn
                chk.fail(sig, 'node_order_in_lists=%r does not list the nodes %r but no ValueError: %r' % (c['lists'], nodes, im[:2] if im[0] == 'err' else [n[0] for n in im[1][0]]), c)
            else:
                chk.fail('%s|list-length-accepted' % fn, 'list argument of the wrong length not rejected with ValueError: %r' % (im[:2] if im[0] == 'err' else 'ok',), c)
    elif im[0] == 'err':
        chk.fail('%s|raises-%s' % (fn, im[1]), 'valid arguments raise %s: %s' % (im[1], im[2]), c)
    else:
        for sig, what in oracle_builder(c, im[1], im[2] if len(im) > 2 else None):
            chk.fail('%s|%s' % (fn, sig), what, c)
    if do_model:
        chk.traces += 1
        mm = norm_builder_model(m)
        if im[0] == 'err':
            if mm[0] != 'err' or mm[1] != im[1]:
                chk.mismatch('%s: implementation raises %s, model gives %r' % (fn, im[1], mm[:2] if mm[0] == 'err' else 'ok'), c)
        else:
            a = jsonable(im[:2]); b = jsonable(mm)
            if c['hc'][0] != 'none' and extra_of(c, 'holding_cost') is not None and b[0] == 'ok':
                a[1][2][0] = b[1][2][0] = None        # local_holding_cost with a holding_cost fallback: oracle only
            if a != b:
                chk.mismatch('%s: implementation %r vs model %r' % (fn, a[1], b[1] if b[0] == 'ok' else b), c)
    key = json.dumps(jsonable({k: v for k, v in c.items() if k != 'stream'}), sort_keys=True)
    chk.case(c, im[0] == 'ok' and len(nodes) >= 2, key=key)


def explore_builders(chk, n, sizes, do_model=True):
    cases = [gen_builder(chk.rng, max(sizes)) for _ in range(n)] + enum_builders(chk.rng, sizes) + enum_malformed(chk.rng) + enum_zero(chk.rng) + enum_demand_params(chk.rng)
    impl = [run_impl_builder(c)[0] for c in cases]
    todo = [i for i, c in enumerate(cases) if not c.get('bogus')]
    model = {}
    if do_model:
        vals = coq_eval_sharded('c18b', 'Net.Builders', 'Open Scope Z_scope.', [coq_builder(cases[i]) for i in todo], shard=250)
        model = dict(zip(todo, vals))
    for i, (c, im) in enumerate(zip(cases, impl)):
        check_builder_case(chk, c, im, model.get(i), do_model and i in model)


def check_levels_case(chk, c, im, mo=None, do_model=True):
    chk.count('levels_n=%d' % len(c['sys'])); chk.count('levels_negative=%s' % any(Fraction(v) < 0 for _, v in c['S']))
    chk.count('levels_build=%s' % c.get('how', 'serial_system'))
    if im[0] == 'ok' and len(im) > 3: chk.count('levels_nodes_stored_source_first=%s' % (im[3]['stored'] == c['sys']))
    if im[0] != 'ok':
        chk.fail('base_stock_level_conversion|raises-%s' % im[1], 'conversion raised %s: %s' % (im[1], im[2]), c)
        chk.case(c, False); return
    for sig, what in oracle_levels(c, im):
        chk.fail(sig, what, c)
    if do_model:
        chk.traces += 1
        if mo is None:
            chk.mismatch('model serial_system failed', c)
        else:
            e, l = un_opt(mo)
            me = [(i, qv(un_opt(v)) if v is not None else None) for i, v in e]
            ml = [(i, qv(un_opt(v)) if v is not None else None) for i, v in l]
            if me != im[1] or ml != im[2]:
                chk.mismatch('levels: implementation echelon %r local %r vs model %r %r' % (jsonable(im[1]), jsonable(im[2]), jsonable(me), jsonable(ml)), c)
    chk.case(c, len(c['sys']) >= 2, key=json.dumps(jsonable([c['sys'], c['S'], c.get('build')])))


def explore_levels(chk, n, maxn, do_model=True):
    cases = [gen_levels(chk.rng, maxn) for _ in range(n)] + [gen_levels_built(chk.rng, maxn) for _ in range(n)]
    impl = [run_impl_levels(c) for c in cases]
    model = coq_eval_sharded('c18l', 'Net.Builders Net.Levels', 'Open Scope Z_scope.', [coq_levels(c) for c in cases], shard=250) if do_model else [None] * len(cases)
    # smallest systems first, so that the first failing input recorded for a signature is a small one
    for c, im, mo in sorted(zip(cases, impl, model), key=lambda t: len(t[0]['sys'])):
        check_levels_case(chk, c, im, mo, do_model)


def run(chk):
    chk.rule = RULE
    chk.trusted += ['models Net/Graph.v, Net/Bom.v, Net/Builders.v, Net/Levels.v, Net/Placement.v are hand-written; tied to /repo by comparing, after every single operation, the complete structure (node order, predecessor/successor/product lists, network product list, BOM dicts) and every derived view with the implementation; builders and level conversions by comparing every output',
                    'networkx (descendants / ancestors) is not modelled: the model computes reachability itself and is compared with the implementation; the oracle uses its own DFS',
                    'the oracle re-implements the documented views in Python from the raw index lists and the product BOM dicts']
    chk.assume += ['operation sequences use one network, node objects taken from the network when the index exists and fresh nodes otherwise, a fixed pool of product objects, and injective re-indexing dicts (a non-injective dict merges nodes; outside the property)',
                   'level conversions: exact rationals in the theorems; generated levels are multiples of 1/4 so the implementation computes exactly']
    chk.proof()
    if chk.tier == 'quick':
        n_ops, maxlen, n_b, sizes, n_l, maxl, n_r = 150, 30, 500, [1, 2, 3, 4, 5], 300, 7, 300
    else:
        n_ops, maxlen, n_b, sizes, n_l, maxl, n_r = 2500, 30, 6000, [1, 2, 3, 4, 5], 3000, 9, 3000
    explore_ops(chk, n_ops, maxlen)
    if chk.tier == 'quick':
        explore_prod_histories(chk, 3); explore_prod_histories(chk, 4, sample=200)
    else:
        explore_prod_histories(chk, 4); explore_prod_histories(chk, 5, sample=4000)
    explore_builders(chk, n_b, sizes)
    if chk.tier != 'quick':
        explore_builders(chk, 0, [1, 2, 3, 4, 5]); explore_builders(chk, 0, [1, 2, 3, 4, 5])     # two more systematic sweeps with fresh values
    explore_levels(chk, n_l, maxl)
    explore_rebuild(chk, n_r)
    explore_place(chk, n_r)
    if (chk.broken or chk.mismatches) and not chk.fails:
        # directed search for a failing input: larger budget, oracles only
        explore_ops(chk, 8 * n_ops if chk.tier == 'quick' else 2 * n_ops, maxlen, do_model=False)
        explore_builders(chk, 6 * n_b if chk.tier == 'quick' else n_b, sizes, do_model=False)
        explore_levels(chk, 6 * n_l if chk.tier == 'quick' else n_l, maxl, do_model=False)
        explore_rebuild(chk, 6 * n_r if chk.tier == 'quick' else n_r)
        explore_place(chk, 6 * n_r if chk.tier == 'quick' else n_r, do_model=False)


def replay(chk, rp):
    c = rp['case']
    st = c.get('stream')
    if st == 'ops':
        r = run_ops_oracle(c['ops'])
        print('operations:', json.dumps(c['ops']))
        print('oracle:', r if r else 'no violation')
        for k, sig, what in r:
            chk.fail(sig, what, c)
    elif st == 'builder':
        im, _ = run_impl_builder(c)
        print('implementation:', jsonable(im))
        c.setdefault('extra', [])
        check_builder_case(chk, c, im, None, do_model=False)
        return
    elif st == 'levels':
        im = run_impl_levels(c)
        print('implementation:', jsonable(im))
        check_levels_case(chk, c, im, None, do_model=False)
        return
    elif st == 'place':
        im = run_place(c)
        print('implementation:', jsonable(im))
        check_place_case(chk, c, im, None, do_model=False)
        return
    elif st == 'rebuild':
        im = run_rebuild(c)
        print('implementation:', jsonable(im))
        check_rebuild_case(chk, c, im)
        return
    chk.case(c)
