"""C18 — network construction and mutation keep the structure coherent.

Three streams:
  ops       random operation sequences on one SupplyChainNetwork (+ a pool of SupplyChainProduct objects); after EVERY
            operation the full structure and every derived view is (a) compared with the Gallina model Net/Graph.v +
            Net/Bom.v and (b) checked by an oracle that recomputes the views independently from the raw lists.
  builders  network_from_edges / single_stage / serial / owmr / mwor with all argument shapes; compared with
            Net/Builders.v and checked against the documented postconditions.
  levels    local <-> echelon base-stock conversions on random serial systems; compared with Net/Levels.v (exact,
            dyadic inputs) and round-trip oracle.
"""
import itertools
from fractions import Fraction
from vlib import *

NPROD = 4
RULE = ('ops: sequences of <= 30 operations (add_node, add_edge, add_edges_from_list, add_successor, add_predecessor with '
        'new or existing nodes, remove_node, node/network add_product/remove_product, set_bill_of_materials, reindex_nodes '
        'with injective dicts) on <= 6 live nodes (indices < 12) and 4 pooled products, plus a malformed stream (unknown '
        'node/product indices, incomplete reindex dict) ended at the first exception; one case per operation prefix. '
        'builders: every builder x argument shape (None, scalar, list with/without node_order_in_lists, dict, per-node '
        'None entries) x sizes <= 5 x labelling (default or random). levels: serial systems of 1..7 nodes, random labelling, '
        'levels k/4. non-trivial = the network after the prefix has >= 2 nodes and >= 1 arc (ops), >= 2 nodes (builders, levels); '
        'distinct = distinct canonical structure (ops) / distinct argument tuple (builders, levels).')


# =================================================================================================================
# implementation adapter for the operation stream

def _imports():
    from stockpyl.supply_chain_network import SupplyChainNetwork
    from stockpyl.supply_chain_node import SupplyChainNode
    from stockpyl.supply_chain_product import SupplyChainProduct
    from stockpyl.demand_source import DemandSource
    return SupplyChainNetwork, SupplyChainNode, SupplyChainProduct, DemandSource


class World:
    def __init__(self):
        SupplyChainNetwork, SupplyChainNode, SupplyChainProduct, DemandSource = _imports()
        self.net = SupplyChainNetwork()
        self.pool = {p: SupplyChainProduct(p) for p in range(NPROD)}

    def fresh(self, i, ext, dem):
        _, SupplyChainNode, _, DemandSource = _imports()
        kw = {}
        if ext: kw['supply_type'] = 'U'
        if dem: kw['demand_source'] = DemandSource(type='N', mean=5, standard_deviation=1)
        return SupplyChainNode(i, **kw)

    def node_or_fresh(self, i, ext=False, dem=False):
        for n in self.net.nodes:
            if n.index == i:
                return n
        return self.fresh(i, ext, dem)

    def apply(self, op):
        net = self.net
        k = op[0]
        if k == 'add_node':
            net.add_node(self.node_or_fresh(op[1], op[2], op[3]))
        elif k == 'add_edge':
            net.add_edge(op[1], op[2])
        elif k == 'add_edges':
            net.add_edges_from_list([tuple(e) for e in op[1]])
        elif k == 'add_succ':
            a = net.nodes_by_index[op[1]]
            net.add_successor(a, self.node_or_fresh(op[2], op[3], op[4]))
        elif k == 'add_pred':
            a = net.nodes_by_index[op[1]]
            net.add_predecessor(a, self.node_or_fresh(op[2], op[3], op[4]))
        elif k == 'remove_node':
            net.remove_node(self.node_or_fresh(op[1]))
        elif k == 'node_add_prod':
            net.nodes_by_index[op[1]].add_product(self.pool[op[2]])
        elif k == 'node_rem_prod':
            net.nodes_by_index[op[1]].remove_product(op[2])
        elif k == 'net_add_prod':
            net.add_product(self.pool[op[1]])
        elif k == 'net_rem_prod':
            net.remove_product(op[1])
        elif k == 'set_bom':
            self.pool[op[1]].set_bill_of_materials(op[2], float(Fraction(op[3])) if Fraction(op[3]).denominator != 1 else int(Fraction(op[3])))
        elif k == 'reindex':
            net.reindex_nodes({int(a): int(b) for a, b in op[1]})
        else:
            raise RuntimeError('unknown op %r' % (op,))


def okey(x):
    """sort key tolerant of None"""
    if isinstance(x, (tuple, list)):
        return tuple(okey(y) for y in x)
    return (-10**9 if x is None else x)


def sset(xs):
    return sorted(xs, key=okey)


def uset(xs):
    """sorted without duplicates (the implementation stores these in dicts / sets)"""
    out = []
    for x in sorted(xs, key=okey):
        if not out or out[-1] != x: out.append(x)
    return out


def call(f, *a, **k):
    try:
        return f(*a, **k)
    except Exception as e:
        return ('err', exc_kind(e))


def has_dem(n):
    ds = n.demand_source
    return ds is not None and ds.type is not None


def snapshot(world):
    """full observable structure of the implementation, in the shape of Bom.obs_net"""
    net = world.net
    nodes = [(n.index, list(n._predecessor_indices), list(n._successor_indices), list(n.product_indices),
              (n.supply_type is not None, has_dem(n))) for n in net.nodes]
    boms = sset([(p, rm, F(q)) for p, prod in world.pool.items() for rm, q in prod._bill_of_materials.items()])
    g = (call(lambda: list(net.edges)), call(lambda: [n.index for n in net.source_nodes]), call(lambda: [n.index for n in net.sink_nodes]))
    views = []
    all_prods = list(net.product_indices)
    for n in net.nodes:
        desc = call(lambda: sset([m.index for m in n.descendants]))
        anc = call(lambda: sset([m.index for m in n.ancestors]))
        tbl = sset([(p1, sset([(pr, sset([(p2, F(v)) for p2, v in d2.items()])) for pr, d2 in d1.items()]))
                    for p1, d1 in n._network_bill_of_materials.items()])
        per_prod = []
        for p1 in n.product_indices:
            per_prod.append((p1,
                             tuple(call(lambda nb=nb: sset(n.supplier_raw_material_pairs_by_product(product=p1, return_indices=True, network_BOM=nb))) for nb in (True, False)),
                             tuple(call(lambda nb=nb: sset(n.raw_materials_by_product(product=p1, return_indices=True, network_BOM=nb))) for nb in (True, False)),
                             tuple(call(lambda nb=nb: sset(n.raw_material_suppliers_by_product(product=p1, return_indices=True, network_BOM=nb))) for nb in (True, False)),
                             tuple(call(lambda nb=nb: sset(n.customers_by_product(product=p1, return_indices=True, network_BOM=nb))) for nb in (True, False))))
        rms_all = tuple(call(lambda nb=nb: sset(n.raw_materials_by_product(product='all', return_indices=True, network_BOM=nb))) for nb in (True, False))
        per_rm = []
        for rm in all_prods:
            per_rm.append((rm,
                           tuple(call(lambda nb=nb: sset(n.raw_material_suppliers_by_raw_material(raw_material=rm, return_indices=True, network_BOM=nb))) for nb in (True, False)),
                           tuple(call(lambda nb=nb: sset(n.products_by_raw_material(raw_material=rm, return_indices=True, network_BOM=nb))) for nb in (True, False))))
        views.append((n.index, desc, anc, tbl, per_prod, rms_all, per_rm))
    return (nodes, (list(net.product_indices), list(net._local_product_indices)), boms, g, views)


# ---- the model's observation, normalised to the same shape ------------------------------------------------------

def un_opt(x):
    if x is None: return None
    if isinstance(x, tuple) and len(x) == 2 and x[0] == 'Some': return x[1]
    raise ValueError('not an option: %r' % (x,))


def norm_model(o):
    nodes, (nprods, nlocal), boms, (edges, srcs, snks), views = o
    nodes = [(i, list(p), list(s), list(pr), (bool(e), bool(d))) for (i, p, s, pr, (e, d)) in nodes]
    boms = sset([(p, rm, qv(q)) for (p, rm, q) in boms])
    g = ([tuple(e) for e in edges], list(srcs), list(snks))
    vs = []
    def optset(x, f=lambda y: y):
        return ('err', 'ValueError') if x is None else sset([f(y) for y in un_opt(x)])
    for (i, desc, anc, tbl, per_prod, rms_all, per_rm) in views:
        desc = ('err', 'EFuel') if desc is None else sset(un_opt(desc))
        anc = ('err', 'EFuel') if anc is None else sset(un_opt(anc))
        tbl = uset([(p1, uset([(un_opt(pr), uset([(p2, qv(v)) for (p2, v) in d2])) for (pr, d2) in d1])) for (p1, d1) in tbl])
        pp = []
        for (p1, (pn, pb), (rn_, rb), (sn, sb), (cn, cb)) in per_prod:
            pp.append((p1, (uset([(un_opt(a), b) for a, b in pn]), uset([(un_opt(a), b) for a, b in pb])),
                       (sset(rn_), sset(rb)), (sset([un_opt(a) for a in sn]), sset([un_opt(a) for a in sb])),
                       (sset([un_opt(a) for a in cn]), sset([un_opt(a) for a in cb]))))
        ra = (sset(rms_all[0]), sset(rms_all[1]))
        pr_ = []
        for (rm, (s1, s2), (q1, q2)) in per_rm:
            pr_.append((rm, (optset(s1, un_opt), optset(s2, un_opt)), (optset(q1), optset(q2))))
        vs.append((i, desc, anc, tbl, pp, ra, pr_))
    return (nodes, (list(nprods), list(nlocal)), boms, g, vs)


def coq_op(op):
    k = op[0]
    b = cbool; n = cnat
    pl = lambda l: clist(['(%s, %s)' % (n(e[0]), n(e[1])) for e in l])
    if k == 'add_node': return '(OAddNode %s %s %s)' % (n(op[1]), b(op[2]), b(op[3]))
    if k == 'add_edge': return '(OAddEdge %s %s)' % (n(op[1]), n(op[2]))
    if k == 'add_edges': return '(OAddEdges %s)' % pl(op[1])
    if k == 'add_succ': return '(OAddSucc %s %s %s %s)' % (n(op[1]), n(op[2]), b(op[3]), b(op[4]))
    if k == 'add_pred': return '(OAddPred %s %s %s %s)' % (n(op[1]), n(op[2]), b(op[3]), b(op[4]))
    if k == 'remove_node': return '(ORemoveNode %s)' % n(op[1])
    if k == 'node_add_prod': return '(ONodeAddProd %s %s)' % (n(op[1]), n(op[2]))
    if k == 'node_rem_prod': return '(ONodeRemProd %s %s)' % (n(op[1]), n(op[2]))
    if k == 'net_add_prod': return '(ONetAddProd %s)' % n(op[1])
    if k == 'net_rem_prod': return '(ONetRemProd %s)' % n(op[1])
    if k == 'set_bom': return '(OSetBom %s %s %s)' % (n(op[1]), n(op[2]), cq(Fraction(op[3])))
    if k == 'reindex': return '(OReindex %s)' % pl(op[1])
    raise RuntimeError(k)


ERRMAP = {'EKey': 'KeyError', 'EValue': 'ValueError'}


# =================================================================================================================
# generator of operation sequences (a small shadow state keeps most operations applicable)

def gen_ops(rng, maxlen=30, maxnodes=6):
    live = []            # node indices in the network, in order
    nprods = {}          # node -> set of real products
    local = set(); pnet = set()
    ops = []
    n_ops = rng.randint(4, maxlen)
    malformed_at = rng.randrange(n_ops) if rng.random() < 0.15 else None
    def in_net(p): return p in local or any(p in s for s in nprods.values())
    def fresh_idx():
        cands = [i for i in range(0, 9) if i not in live]
        return rng.choice(cands)
    def flags(): return (rng.random() < 0.3, rng.random() < 0.3)
    def some_or_fresh():
        if live and (len(live) >= maxnodes or rng.random() < 0.55): return rng.choice(live)
        return fresh_idx()
    for t in range(n_ops):
        if t == malformed_at:
            kind = rng.choice(['edge_unknown', 'succ_unknown', 'netrem_unknown', 'bom_unknown', 'reindex_missing', 'nodeprod_unknown', 'pred_unknown'])
            unk = rng.choice([i for i in range(9, 12)])
            if kind == 'edge_unknown': ops.append(['add_edge', rng.choice(live) if live and rng.random() < .5 else unk, unk]); break
            if kind == 'succ_unknown': ops.append(['add_succ', unk, some_or_fresh(), False, False]); break
            if kind == 'pred_unknown': ops.append(['add_pred', unk, some_or_fresh(), False, False]); break
            if kind == 'nodeprod_unknown': ops.append([rng.choice(['node_add_prod', 'node_rem_prod']), unk, rng.randrange(NPROD)]); break
            if kind == 'netrem_unknown':
                cands = [p for p in range(NPROD) if not in_net(p)]
                if cands: ops.append(['net_rem_prod', rng.choice(cands)]); break
            if kind == 'bom_unknown':
                ps = [p for p in pnet]; rms = [p for p in range(NPROD) if not in_net(p)]
                if ps and rms: ops.append(['set_bom', rng.choice(ps), rng.choice(rms), '1']); break
            if kind == 'reindex_missing' and len(live) >= 2:
                keep = live[:]; drop = rng.choice(keep); keep.remove(drop)
                tgt = rng.sample(range(12), len(keep))
                ops.append(['reindex', [[a, b] for a, b in zip(keep, tgt)]]); break
        r = rng.random()
        if not live or r < 0.10:
            i = some_or_fresh() if live else fresh_idx()
            e, d = flags(); ops.append(['add_node', i, e, d])
            if i not in live: live.append(i); nprods[i] = set()
        elif r < 0.25:
            a, b = rng.choice(live), rng.choice(live)
            ops.append(['add_edge', a, b])
        elif r < 0.30:
            ops.append(['add_edges', [[rng.choice(live), rng.choice(live)] for _ in range(rng.randint(0, 3))]])
        elif r < 0.43:
            a, b = rng.choice(live), some_or_fresh(); e, d = flags()
            ops.append(['add_succ', a, b, e, d])
            if b not in live: live.append(b); nprods[b] = set()
        elif r < 0.53:
            a, b = rng.choice(live), some_or_fresh(); e, d = flags()
            ops.append(['add_pred', a, b, e, d])
            if b not in live: live.append(b); nprods[b] = set()
        elif r < 0.60:
            i = rng.choice(live) if rng.random() < 0.85 else fresh_idx()
            ops.append(['remove_node', i])
            if i in live: live.remove(i); del nprods[i]
        elif r < 0.74:
            n, p = rng.choice(live), rng.randrange(NPROD)
            ops.append(['node_add_prod', n, p]); nprods[n].add(p); pnet.add(p)
        elif r < 0.79:
            n = rng.choice(live)
            p = rng.choice(sorted(nprods[n])) if nprods[n] and rng.random() < 0.8 else rng.randrange(NPROD)
            ops.append(['node_rem_prod', n, p]); nprods[n].discard(p)
        elif r < 0.83:
            p = rng.randrange(NPROD); ops.append(['net_add_prod', p]); local.add(p); pnet.add(p)
        elif r < 0.86:
            cands = [p for p in range(NPROD) if in_net(p)]
            if not cands: continue
            p = rng.choice(cands); ops.append(['net_rem_prod', p]); local.discard(p)
        elif r < 0.96:
            p = rng.randrange(NPROD)
            cands = [q for q in range(NPROD) if (p not in pnet) or in_net(q)]
            if not cands: continue
            rm = rng.choice(cands)
            q = rng.choice(['1', '2', '3', '1/2', '5/4', '0', '0', '-1'])
            ops.append(['set_bom', p, rm, q])
        else:
            tgt = rng.sample(range(12), len(live))
            if rng.random() < 0.3:      # partial identity
                tgt = [a if rng.random() < 0.5 and a not in tgt else b for a, b in zip(live, tgt)]
                if len(set(tgt)) != len(tgt): tgt = rng.sample(range(12), len(live))
            m = dict(zip(live, tgt))
            ops.append(['reindex', [[a, m[a]] for a in live]])
            live = [m[a] for a in live]; nprods = {m[a]: s for a, s in nprods.items()}
    return ops


def run_impl_ops(ops):
    """returns list of ('ok', snapshot) ... optionally ending with ('err', kind, msg); also the World"""
    w = World(); out = []
    for op in ops:
        try:
            w.apply(op)
        except Exception as e:
            out.append(('err', exc_kind(e), str(e)[:200])); break
        out.append(('ok', snapshot(w), oracle_ops(w, op)))
    return out


# =================================================================================================================
# oracle for the operation stream: everything recomputed from the raw lists of the Python objects

def reach(adj, a):
    seen = set(); stack = list(adj.get(a, []))
    while stack:
        x = stack.pop()
        if x in seen: continue
        seen.add(x); stack.extend(adj.get(x, []))
    seen.discard(a)
    return seen


def oracle_ops(world, op):
    """returns list of (signature-suffix, what)"""
    from collections import Counter
    net = world.net; bad = []
    def B(sig, what): bad.append((sig, what))
    idx = [n.index for n in net.nodes]
    if len(set(idx)) != len(idx): B('duplicate-node-index', 'node indices %r' % idx)
    S = {n.index: list(n._successor_indices) for n in net.nodes}
    P = {n.index: list(n._predecessor_indices) for n in net.nodes}
    # 1. predecessor / successor lists are mutual inverses (as multisets), end points are nodes
    arcsS = Counter((a, b) for a in S for b in S[a]); arcsP = Counter((a, b) for b in P for a in P[b])
    if arcsS != arcsP:
        B('pred-succ-asymmetry', 'arcs by successor lists %r != arcs by predecessor lists %r' % (sorted(arcsS.elements()), sorted(arcsP.elements())))
    for (a, b) in list(arcsS) + list(arcsP):
        if a not in S or b not in S: B('dangling-endpoint', 'arc (%r,%r) has an end point that is not a node (nodes %r)' % (a, b, idx)); break
    # 2. views: edges, sources, sinks
    try:
        E = list(net.edges)
        if Counter(E) != arcsS: B('edges-view', 'edges %r != successor lists %r' % (E, sorted(arcsS.elements())))
        src = sorted(n.index for n in net.source_nodes); snk = sorted(n.index for n in net.sink_nodes)
        if src != sorted(i for i in idx if not any(b == i for (_, b) in E)): B('sources-view', 'source_nodes %r, edges %r' % (src, E))
        if snk != sorted(i for i in idx if not any(a == i for (a, _) in E)): B('sinks-view', 'sink_nodes %r, edges %r' % (snk, E))
        adj = {}; radj = {}
        for (a, b) in E: adj.setdefault(a, []).append(b); radj.setdefault(b, []).append(a)
        for n in net.nodes:
            d = sorted(m.index for m in n.descendants); a_ = sorted(m.index for m in n.ancestors)
            if d != sorted(reach(adj, n.index)): B('descendants-view', 'node %d descendants %r, DFS over edges %r gives %r' % (n.index, d, E, sorted(reach(adj, n.index))))
            if a_ != sorted(reach(radj, n.index)): B('ancestors-view', 'node %d ancestors %r, DFS over edges %r gives %r' % (n.index, a_, E, sorted(reach(radj, n.index))))
            if [m.index for m in n.successors()] != S[n.index] or [m.index for m in n.predecessors()] != P[n.index]:
                B('successors-objects', 'node %d successors()/predecessors() do not match the index lists' % n.index)
    except Exception as e:
        B('view-raises-' + exc_kind(e), 'graph view raised %s: %s' % (exc_kind(e), str(e)[:150]))
    # 3. index look-ups
    nbi = net.nodes_by_index
    if set(nbi.keys()) != set(idx) | {None}: B('nodes_by_index-keys', 'keys %r vs node indices %r' % (sorted(nbi.keys(), key=okey), idx))
    for n in net.nodes:
        if nbi.get(n.index) is not n: B('nodes_by_index-object', 'nodes_by_index[%d] is not the node in network.nodes' % n.index)
        if n.network is not net: B('node-network-pointer', 'node %d .network is not the network' % n.index)
    pbi = net.products_by_index
    for n in net.nodes:
        for p in n.product_indices:
            if p not in pbi or pbi[p].index != p: B('products_by_index', 'product %r of node %d not found by index' % (p, n.index))
            if p not in net.product_indices: B('network-product-list', 'product %r of node %d not in network.product_indices %r' % (p, n.index, net.product_indices))
        if [q.index for q in n.products] != list(n.product_indices): B('node-product-lists', 'node %d products %r vs product_indices %r' % (n.index, [q.index for q in n.products], n.product_indices))
        if len(n.product_indices) == 0: B('node-without-product', 'node %d has no product (not even the dummy)' % n.index)
        if any(p < 0 for p in n.product_indices) and list(n.product_indices) != [n._dummy_product_index_from_node_index(n.index)]:
            B('dummy-product-index', 'node %d has product list %r' % (n.index, n.product_indices))
    for p in net._local_product_indices:
        if p not in net.product_indices: B('network-product-list', 'local product %r not in network.product_indices' % p)
    if len(set(net.product_indices)) != len(net.product_indices): B('network-product-dup', 'product_indices %r' % net.product_indices)
    # 4. BOM views vs product BOMs
    def bomq(p1, p2):
        return F(world.pool[p1]._bill_of_materials.get(p2, 0)) if p1 in world.pool else F(0)
    prods = {n.index: list(n.product_indices) for n in net.nodes}
    nb = {}        # (node, p1, pred, p2) -> expected NBOM
    for n in net.nodes:
        plist = sorted(set(P[n.index])) + ([None] if n.supply_type is not None else [])
        for pr in plist:
            pp = prods[pr] if pr is not None else [n._external_supplier_dummy_product.index]
            found = any(bomq(p1, p2) > 0 for p1 in prods[n.index] for p2 in pp)
            for p1 in prods[n.index]:
                for p2 in pp:
                    exp = bomq(p1, p2) if found else F(1)
                    nb[(n.index, p1, pr, p2)] = exp
                    try:
                        got = F(n.NBOM(product=p1, predecessor=pr, raw_material=p2))
                    except Exception as e:
                        B('NBOM-raises-' + exc_kind(e), 'node %d NBOM(%r,%r,%r) raised %s' % (n.index, p1, pr, p2, str(e)[:100])); continue
                    if got != exp:
                        B('NBOM-rule' if not found else 'NBOM-vs-BOM', 'node %d NBOM(product=%r, predecessor=%r, raw_material=%r) = %s, expected %s (BOM relation between the two nodes: %s)' % (n.index, p1, pr, p2, got, exp, found))
    for n in net.nodes:
        i = n.index
        try:
            allpairs = set()
            for p1 in prods[i]:
                exp_pairs = sorted([(pr, p2) for (ni, q1, pr, p2), v in nb.items() if ni == i and q1 == p1 and v > 0], key=okey)
                allpairs |= set(exp_pairs)
                got = sset(n.supplier_raw_material_pairs_by_product(product=p1, return_indices=True))
                if got != exp_pairs: B('supplier-rm-pairs', 'node %d product %r pairs %r, NBOM>0 gives %r' % (i, p1, got, exp_pairs))
                got = sset(n.raw_materials_by_product(product=p1, return_indices=True))
                if got != sset({p2 for (_, p2) in exp_pairs}): B('raw-materials-by-product', 'node %d product %r raw materials %r, NBOM>0 gives %r' % (i, p1, got, sset({p2 for (_, p2) in exp_pairs})))
                got = sset(n.raw_material_suppliers_by_product(product=p1, return_indices=True))
                if got != sset({pr for (pr, _) in exp_pairs}): B('suppliers-by-product', 'node %d product %r suppliers %r, NBOM>0 gives %r' % (i, p1, got, sset({pr for (pr, _) in exp_pairs})))
                gotb = sset(n.supplier_raw_material_pairs_by_product(product=p1, return_indices=True, network_BOM=False))
                plist = sorted(set(P[i])) + ([None] if n.supply_type is not None else [])
                expb = sset({(pr, p2) for pr in plist for p2 in (prods[pr] if pr is not None else [n._external_supplier_dummy_product.index]) if bomq(p1, p2) > 0})
                if gotb != expb: B('supplier-rm-pairs-BOM', 'node %d product %r BOM pairs %r, product BOM gives %r' % (i, p1, gotb, expb))
            rms = sset({p2 for (_, p2) in allpairs})
            got = sset(n.raw_materials_by_product(product='all', return_indices=True))
            if got != rms: B('raw-materials-all', 'node %d raw materials %r vs %r' % (i, got, rms))
            for rm in rms:
                exp = sset({pr for (pr, p2) in allpairs if p2 == rm})
                got = sset(n.raw_material_suppliers_by_raw_material(raw_material=rm, return_indices=True))
                if got != exp: B('suppliers-by-raw-material', 'node %d raw material %r suppliers %r vs %r' % (i, rm, got, exp))
                exp = sorted({p1 for (ni, p1, pr, p2), v in nb.items() if ni == i and p2 == rm and v > 0})
                got = sorted(n.products_by_raw_material(raw_material=rm, return_indices=True))
                if got != exp: B('products-by-raw-material', 'node %d raw material %r products %r vs %r' % (i, rm, got, exp))
            for p in prods[i]:
                exp = [c for c in S[i] if any(v > 0 for (ni, p1, pr, p2), v in nb.items() if ni == c and pr == i and p2 == p)]
                exp = sset(exp + ([None] if has_dem(n) else []))
                got = sset(n.customers_by_product(product=p, return_indices=True))
                if got != exp: B('customers-by-product', 'node %d product %r customers %r vs %r' % (i, p, got, exp))
        except Exception as e:
            B('BOM-view-raises-' + exc_kind(e), 'node %d BOM view raised %s: %s' % (i, exc_kind(e), str(e)[:150]))
    return bad
