"""C13 — (s,S): correspondence of Alg/SS.v with stockpyl.ss + independent Markov-chain / grid-search oracle.

Entry points exercised: s_s_cost_discrete (Poisson and custom-pmf), s_s_discrete_exact (Poisson and custom-pmf).
Oracle (never uses ss.py's renewal formulas): builds the transition matrix of the inventory-position chain from its
definition (state y in s+1..S after ordering; demand d -> y-d if y-d > s else S), solves pi P = pi, sum pi = 1
(exact Fractions for custom pmfs, numpy for Poisson) and evaluates sum_y pi(y) [G(y) + K P(D >= y-s)] with G computed
directly from the pmf; optimality by exhaustive search over all integer pairs inside a window that contains
{y : G(y) <= reported cost} plus a margin (the Zheng-Federgruen bounds put every optimal pair inside that set).
"""
import math
from fractions import Fraction
import numpy as np
from vlib import *

RULE = ('h,p,K = k/4 (k>=1); custom pmfs on 0..D, D in 1..8, dyadic probabilities (denominator 4..64) with zero-probability '
        'points (also at 0 and at D) and short supports; Poisson means on a 0.5-grid in 0.5..20; integer s<S with S-s>D in ~40% '
        'of the custom cost cases; separate malformed stream (non-positive cost parameter, s>=S, p0=1, wrong pmf length). '
        'Near-tie stream for the exact algorithm (both entry points): h, p and the demand distribution as above, but K = K*(1+-delta) where K* is a fixed cost at which the optimal pair changes '
        '(a breakpoint of the lower envelope of the lines K -> c(s,S;K), computed by the generator over all pairs of a window) and delta is chosen so that the two pairs that tie at K* '
        '(mostly S vs S+1 with the same s, or s vs s-1) differ in cost by a relative 1e-8..1e-4 at the K handed over (K is then a dyadic number with denominator 2^36; Poisson means <= 12 in the quick tier). '
        'Redundant-argument cases (~25% of every valid stream): an argument that the documentation calls "ignored" is supplied as well - demand_mean together with use_poisson=False '
        '(the pmf\'s mean, another mean, 0), demand_hi/demand_pmf together with use_poisson=True (the truncated renormalised Poisson pmf, an unrelated pmf, or demand_hi alone); the oracle judges '
        'the result by the distribution that use_poisson selects, and the answer must be identical to the one without the redundant argument. '
        'Call-sequence stream (kind seq_custom): 3..7 consecutive calls in one process (cost of a pair / exact algorithm with a custom pmf, now and then a Poisson cost '
        'call in between) that mostly share h, p and the pmf LENGTH but differ in the pmf contents (some steps repeat an earlier pmf, pair or parameter set, a few change '
        'K, h/p or the length), the pmf being handed over in one of three ways: "inplace" = ONE caller-owned list object whose contents are overwritten before each call, '
        '"fresh" = a temporary list built per call and released before the next one is built, the next one being allocated at the SAME address (id) whenever CPython '
        'hands that block out again within 300 allocations (count recorded), "held" = a new list per call, all kept alive; the first call is repeated at the end. '
        'Every step is judged on its own by the oracle (which shares no state with the library), the caller\'s list must be unchanged by the call, and the repeated '
        'first call must return the identical value. '
        'non-trivial = S-s>=2 (cost cases) / returned S-s>=2 (exact-algorithm cases) / a sequence with >=2 different pmfs and some S-s>=2; distinct = distinct parameter tuples.')

FUEL = 600
DEFS = '''
Definition rmap {A B} (f : A -> B) (r : res A) : res B :=
  match r with Ok a => Ok (f a) | ValueError => ValueError | ZeroDivisionError => ZeroDivisionError
             | IndexError => IndexError | NoFuel => NoFuel end.
Definition obs3 (t : Z * Z * Q) := let '(a, b, q) := t in (a, b, qobs q).
'''


# ------------------------------------------------------------------------------------------------ generator
def gen_pmf(rng, D=None):
    if D is None:
        D = rng.choice([1, 1, 2, 2, 3, 3, 4, 5, 6, 7, 8])
    den = rng.choice([4, 8, 16, 64])
    while True:
        supp = [d for d in range(D + 1) if rng.random() < 0.6]
        if rng.random() < 0.25:       # short support inside a longer range
            supp = rng.sample(range(D + 1), min(D + 1, rng.choice([1, 2])))
        supp = sorted(set(supp))
        if not supp or supp == [0] or len(supp) > den:
            continue
        break
    units = [1] * len(supp)
    for _ in range(den - len(supp)):
        units[rng.randrange(len(supp))] += 1
    pmf = [Fraction(0)] * (D + 1)
    for d, u in zip(supp, units):
        pmf[d] = Fraction(u, den)
    return pmf


def gen_costs(rng, kmax=160):
    h = Fraction(rng.randint(1, 16), 4)
    p = Fraction(rng.randint(1, 80), 4)
    K = Fraction(rng.choice([rng.randint(1, 16), rng.randint(1, 64), rng.randint(1, kmax)]), 4)
    return h, p, K


def gen_mean(rng, hi=20.0):
    return rng.choice([0.5, 1.0, 1.5, 2.0, 2.5, 3.0]) if rng.random() < 0.4 else rng.randint(1, int(hi * 2)) / 2.0


def gen_case(rng, kind, tier, plain=False):
    tie = kind.endswith('_tie')            # fixed cost placed next to a value at which the optimal pair changes
    if tie: kind = kind[:-4]
    h, p, K = gen_costs(rng)
    c = dict(kind=kind, h=h, p=p, K=K, malformed=None)
    if kind in ('cost_custom', 'exact_custom'):
        c['pmf'] = gen_pmf(rng)
        D = len(c['pmf']) - 1
        if kind == 'cost_custom':
            n = rng.randint(D + 1, D + 8) if rng.random() < 0.4 else rng.randint(1, max(1, D))
            s = rng.randint(-4, D + 3)
            c['s'], c['S'] = s, s + n
    else:
        c['mean'] = gen_mean(rng, 20.0)
        if kind == 'cost_poisson':
            mu = c['mean']; sd = math.sqrt(mu)
            s = rng.randint(int(mu - 2 * sd - 3), int(mu + sd + 1))
            n = rng.randint(1, 7) if rng.random() < 0.35 else rng.randint(1, int(6 * sd + 6))
            c['s'], c['S'] = s, s + n
        else:
            if rng.random() < 0.3:        # small instances that the Coq model can evaluate quickly
                c['mean'] = rng.choice([0.5, 1.0, 1.5, 2.0]); c['K'] = Fraction(rng.randint(1, 24), 4)
            if tie and tier == 'quick' and c['mean'] > 12: c['mean'] = gen_mean(rng, 12.0)
    if tie:
        near_tie_K(rng, c)
    if not plain and rng.random() < 0.25:
        add_ignored_args(rng, c)
    return c


# The documentation of both entry points says: demand_mean is "ignored" when use_poisson is False, demand_hi / demand_pmf are "ignored" when
# use_poisson is True. A wrapper that forwards all demand arguments whatever the flag (a truncated pmf kept alongside the mean, the pmf of the
# previous product still in the argument dict) is valid use; the distribution the property speaks about is the one selected by use_poisson.
IG_KEYS = ('ig_mean', 'ig_hi', 'ig_pmf')


def add_ignored_args(rng, c):
    if c['kind'].endswith('custom'):
        mu = float(sum(d * x for d, x in enumerate(c['pmf'])))
        c['ig_mean'] = rng.choice([mu, mu, gen_mean(rng), float(rng.randint(0, 12))])
    else:
        u = rng.random()
        if u < 0.15:
            c['ig_hi'] = rng.randint(0, 30)                         # demand_hi alone
            return
        if u < 0.6:                                                  # the same Poisson distribution, truncated and renormalised
            from scipy.stats import poisson
            hi = max(1, int(c['mean'] + rng.choice([0, 1, 2, 4]) * math.sqrt(c['mean'])) + rng.randint(0, 3))
            q = [float(x) for x in poisson.pmf(range(hi + 1), c['mean'])]
            t = sum(q)
            pmf = [F(x / t) for x in q]
        else:                                                        # an unrelated pmf
            pmf = gen_pmf(rng)
        c['ig_pmf'] = pmf; c['ig_hi'] = len(pmf) - 1


def has_ignored(c):
    return any(k in c for k in IG_KEYS)


def without_ignored(c):
    return {k: v for k, v in c.items() if k not in IG_KEYS}


def ignored_text(c):
    if 'ig_mean' in c: return 'demand_mean=%r' % c['ig_mean']
    if 'ig_pmf' in c: return 'demand_hi=%d, demand_pmf=[%d values]' % (c['ig_hi'], len(c['ig_pmf']))
    return 'demand_hi=%d' % c['ig_hi']


# ---- fixed costs next to a tie
# For a fixed demand distribution and fixed h, p the cost of every pair is a straight line in K: c(s,S;K) = a(s,S) + K b(s,S) (b = order frequency),
# so the optimal cost is the lower envelope of these lines and the optimal pair changes at its breakpoints K*. With K = K*(1 +- delta) two pairs
# (mostly neighbours: S and S+1 with the same s, or s and s-1) differ in cost by a chosen small relative amount, 1e-8..1e-4: the search has to
# tell them apart, and a comparison with any hidden tolerance does not. (Only the generator uses these formulas; the oracle does not.)
def pair_lines(pm, G, lo, hi):
    """a, b, pairs for all lo <= s < S <= hi (numpy arrays); renewal density of pm"""
    W = hi - lo
    m = np.zeros(W)
    m[0] = 1.0 / (1.0 - pm[0])
    for j in range(1, W):
        k = min(j, len(pm) - 1)
        m[j] = m[0] * float(np.dot(pm[1:k + 1], m[j - k:j][::-1]))
    M = np.cumsum(m)
    a, b, pairs = [], [], []
    for S in range(lo + 1, hi + 1):
        n = S - lo
        g = np.array([G(S - j) for j in range(n)])
        A = np.cumsum(m[:n] * g)
        a.append(A / M[:n]); b.append(1.0 / M[:n])
        pairs += [(S - k, S) for k in range(1, n + 1)]
    return np.concatenate(a), np.concatenate(b), pairs


def envelope_breakpoints(a, b, Klo, Khi):
    """breakpoints of min_i (a_i + K b_i) for K in (Klo, Khi]: [(K*, index before, index after)]"""
    i = int(np.argmin(a + Klo * b)); K = Klo; out = []
    for _ in range(400):
        cand = b < b[i] * (1 - 1e-12)
        if not cand.any(): break
        Kx = np.full(len(a), np.inf)
        Kx[cand] = (a[cand] - a[i]) / (b[i] - b[cand])
        j = int(np.argmin(Kx)); Kn = float(Kx[j])
        if not Kn <= Khi: break
        if Kn > K: out.append((Kn, i, j))
        i = j; K = max(K, Kn)
    return out


def near_tie_K(rng, c):
    """replace c['K'] by a value next to a breakpoint of the optimal policy (if one is found in [K/2, 2K]); records c['near_tie']"""
    h, p = float(c['h']), float(c['p'])
    pm = np.array([float(x) for x in c['pmf']]) if 'pmf' in c else poisson_table(c['mean'])
    G = GCache(h, p, pm)
    K0 = float(c['K']); Klo, Khi = max(K0 / 2, 0.125), max(2 * K0, 1.0)
    mu = float(np.sum(pm * np.arange(len(pm))))
    y0 = int(round(mu))
    ys = min(range(y0 - len(pm) - 3, y0 + len(pm) + 3), key=G)
    for W in (10, 20, 40, 70):
        lo, hi = ys - W, ys + W
        a, b, pairs = pair_lines(pm, G, lo, hi)
        U = float(np.min(a + Khi * b))
        if G(lo + 1) > U and G(hi - 1) > U: break          # every pair that is optimal for some K <= Khi lies inside the window
    else:
        return
    bps = envelope_breakpoints(a, b, Klo, Khi)
    if not bps: return
    Ks, i, j = rng.choice(bps)
    cost = float(a[i] + Ks * b[i])
    gap = 10.0 ** rng.uniform(-8, -4)                        # relative cost difference between the two pairs at the K handed over
    delta = gap * cost / (Ks * abs(float(b[i] - b[j])))
    if not delta < 0.05: return
    Kn = Ks * (1 + delta) if rng.random() < 0.6 else Ks * (1 - delta)
    Kn = round(Kn * 2.0 ** 36) / 2.0 ** 36
    if not Kn > 0: return
    c['K'] = F(Kn)
    c['near_tie'] = dict(pairs=[list(pairs[i]), list(pairs[j])], K_tie=Ks, rel_gap=gap)


def gen_malformed(rng):
    kind = rng.choice(['cost_custom', 'cost_custom', 'exact_custom', 'cost_poisson'])
    c = gen_case(rng, kind, 'quick', plain=True)
    what = rng.choice(['nonpos', 'nonpos', 's_ge_S', 'p0_one', 'pmf_len'])
    if what == 'nonpos':
        k = rng.choice(['h', 'p', 'K']); c[k] = Fraction(rng.choice([0, -1, -3]), 4)
    elif what == 's_ge_S':
        if kind == 'exact_custom': kind = c['kind'] = 'cost_custom'; c['s'] = 0
        c['S'] = c['s'] - rng.choice([0, 0, 1, 3])
    elif what == 'p0_one':
        if kind == 'cost_poisson': kind = c['kind'] = 'cost_custom'; c['s'], c['S'] = 1, 4
        c['pmf'] = [Fraction(1)] + [Fraction(0)] * rng.randint(0, 3)
    else:
        if kind == 'cost_poisson': kind = c['kind'] = 'cost_custom'; c['s'], c['S'] = 1, 4; c['pmf'] = gen_pmf(rng)
        c['demand_hi'] = len(c['pmf']) - 1 + rng.choice([-1, 1, 2])
    c['malformed'] = what
    return c


# ------------------------------------------------------------------------------------------------ implementation
def _ss():
    import stockpyl.ss as ss
    return ss


class _Timeout(BaseException):
    pass


def guarded(fn, limit=20):
    """run fn() under a watchdog (a search that does not terminate must become a finding, not a hang)"""
    import signal
    def onalarm(sig, frm): raise _Timeout()
    old = signal.signal(signal.SIGALRM, onalarm)
    signal.setitimer(signal.ITIMER_REAL, limit)
    try:
        return fn()
    except _Timeout:
        raise TimeoutError('no result within %d s' % limit)
    finally:
        signal.setitimer(signal.ITIMER_REAL, 0)
        signal.signal(signal.SIGALRM, old)


TIMEOUTS = {'n': 0}


def run_impl(c, limit=15):
    if TIMEOUTS['n'] >= 3 and c['kind'].startswith('exact'):
        return ('skipped',)          # the search already failed to terminate three times in this run: stop spending time on it
    try:
        return guarded(lambda: _run_impl(c), limit)
    except TimeoutError as e:
        TIMEOUTS['n'] += 1
        return ('err', 'TimeoutError', str(e))
    except OverflowError:            # F(inf) / F(nan): the implementation returned a non-finite cost
        return ('err', 'NonFiniteResult', 'the implementation returned inf or nan')


def _fin(x):
    x = float(x)
    if not math.isfinite(x): raise OverflowError('non-finite')
    return F(x)


def _ig_pmf(c):
    """(demand_hi, demand_pmf) handed over although use_poisson is True (documented as ignored), or (None, None)"""
    return c.get('ig_hi'), (None if c.get('ig_pmf') is None else [float(x) for x in c['ig_pmf']])


def _run_impl(c):
    ss = _ss()
    h, p, K = float(c['h']), float(c['p']), float(c['K'])
    try:
        if c['kind'] == 'cost_custom':
            pm = [float(x) for x in c['pmf']]
            return ('ok', _fin(ss.s_s_cost_discrete(c['s'], c['S'], h, p, K, False, c.get('ig_mean'), c.get('demand_hi', len(pm) - 1), pm)))
        if c['kind'] == 'cost_poisson':
            ihi, ipm = _ig_pmf(c)
            return ('ok', _fin(ss.s_s_cost_discrete(c['s'], c['S'], h, p, K, True, c['mean'], ihi, ipm)))
        if c['kind'] == 'exact_custom':
            pm = [float(x) for x in c['pmf']]
            s, S, g = ss.s_s_discrete_exact(h, p, K, False, c.get('ig_mean'), c.get('demand_hi', len(pm) - 1), pm)
            return ('ok', int(s), int(S), _fin(g))
        # Poisson exact: record which one-period costs the run asked for (range of the G table handed to the model)
        seen = []
        orig = ss.newsvendor_poisson_cost
        def rec(y, *a, **k):
            seen.append(int(y)); return orig(y, *a, **k)
        ss.newsvendor_poisson_cost = rec
        ihi, ipm = _ig_pmf(c)
        try:
            s, S, g = ss.s_s_discrete_exact(h, p, K, True, c['mean'], ihi, ipm)
        finally:
            ss.newsvendor_poisson_cost = orig
        if seen: c['_yrange'] = (min(seen), max(seen))
        return ('ok', int(s), int(S), _fin(g))
    except OverflowError:
        raise
    except Exception as e:
        return ('err', exc_kind(e), str(e)[:200])


# ------------------------------------------------------------------------------------------------ oracle
def G_direct(h, p, pmf, y):
    return sum(pd * (h * max(y - d, 0) + p * max(d - y, 0)) for d, pd in enumerate(pmf) if pd)


def chain_cost_exact(h, p, K, pmf, s, S):
    """long-run average cost of the (s,S) chain, exact: solve pi P = pi by Gaussian elimination over Fractions."""
    n = S - s
    P = [[Fraction(0)] * n for _ in range(n)]
    order = [Fraction(0)] * n
    for i in range(n):
        y = S - i
        for d, pd in enumerate(pmf):
            if not pd: continue
            y2 = y - d
            if y2 > s: P[i][S - y2] += pd
            else: P[i][0] += pd; order[i] += pd
    # unknown pi (row vector): sum_i pi_i (P_ij - delta_ij) = 0 for j = 1..n-1 ; sum_i pi_i = 1
    A = [[P[i][j] - (1 if i == j else 0) for i in range(n)] + [Fraction(0)] for j in range(1, n)]
    A.append([Fraction(1)] * n + [Fraction(1)])
    for col in range(n):
        piv = next((r for r in range(col, n) if A[r][col] != 0), None)
        if piv is None:
            return None
        A[col], A[piv] = A[piv], A[col]
        inv = 1 / A[col][col]
        A[col] = [x * inv for x in A[col]]
        for r in range(n):
            if r != col and A[r][col] != 0:
                f = A[r][col]
                A[r] = [x - f * yv for x, yv in zip(A[r], A[col])]
    pi = [A[i][n] for i in range(n)]
    if any(x < 0 for x in pi) or sum(pi) != 1:
        return None
    return sum(pi[i] * (G_direct(h, p, pmf, S - i) + K * order[i]) for i in range(n))


def chain_cost_np(h, p, K, pm, Gfun, s, S):
    """the same in floating point (numpy linear solve); pm = numpy pmf on 0..len-1 (mass beyond is added to 'order')."""
    n = S - s
    P = np.zeros((n, n))
    for i in range(n):
        k = min(n - i, len(pm))
        P[i, i:i + k] = pm[:k]
    stay = P.sum(axis=1)
    order = 1.0 - stay
    P[:, 0] += order
    A = P.T - np.eye(n)
    A[0, :] = 1.0
    b = np.zeros(n); b[0] = 1.0
    pi = np.linalg.solve(A, b)
    g = np.array([Gfun(S - i) for i in range(n)])
    return float(pi @ (g + K * order))


def poisson_table(mean):
    from scipy.stats import poisson
    Dmax = int(mean + 12 * math.sqrt(mean) + 30)
    return poisson.pmf(np.arange(Dmax + 1), mean)


class GCache:
    def __init__(self, h, p, pm):
        self.h, self.p, self.pm, self.d = h, p, pm, np.arange(len(pm)); self.c = {}
    def __call__(self, y):
        v = self.c.get(y)
        if v is None:
            v = self.c[y] = float(np.sum(self.pm * (self.h * np.maximum(y - self.d, 0) + self.p * np.maximum(self.d - y, 0))))
        return v


def grid_best(h, p, K, pm, g_found, cap=90):
    """exhaustive search over all integer pairs s<S inside [ymin-2, ymax+2], {ymin..ymax} = {y: G(y) <= g_found}"""
    G = GCache(h, p, pm)
    mu = float(np.sum(pm * np.arange(len(pm))))
    y0 = int(round(mu))
    ys = min(range(y0 - 2 * len(pm) - 5, y0 + 2 * len(pm) + 5), key=G)
    lo = ys
    while G(lo - 1) <= g_found * (1 + 1e-9) and ys - lo < cap: lo -= 1
    hi = ys
    while G(hi + 1) <= g_found * (1 + 1e-9) and hi - ys < cap: hi += 1
    lo -= 2; hi += 2
    capped = (hi - lo) > cap
    if capped:
        hi = lo + cap
    best = None
    for S in range(lo + 1, hi + 1):
        for s in range(lo, S):
            v = chain_cost_np(h, p, K, pm, G, s, S)
            if best is None or v < best[0]: best = (v, s, S)
    return best, (lo, hi), capped


def oracle_cost(c, r):
    """cost reported for a given pair vs the long-run average cost of the chain"""
    bad = []
    h, p, K = c['h'], c['p'], c['K']
    s, S = c['s'], c['S']
    if c['kind'] == 'cost_custom':
        feat = 'S-s>D' if S - s > len(c['pmf']) - 1 else 'S-s<=D'
        ex = chain_cost_exact(h, p, K, c['pmf'], s, S)
        if ex is None:
            bad.append(('s_s_cost_discrete|custom|oracle-singular', 'stationary system singular', None))
        elif not close(r[1], ex, rel=1e-12, abs_=1e-12):
            bad.append(('s_s_cost_discrete|custom|%s' % feat, 'reported cost %r but the chain\'s long-run average cost is %r (= %s)' % (float(r[1]), float(ex), ex), None))
    else:
        pm = poisson_table(c['mean'])
        ex = chain_cost_np(float(h), float(p), float(K), pm, GCache(float(h), float(p), pm), s, S)
        if not close(r[1], ex):
            bad.append(('s_s_cost_discrete|poisson', 'reported cost %r but the chain\'s long-run average cost is %r' % (float(r[1]), ex), None))
    return bad


def oracle_exact(c, r, chk=None):
    bad = []
    h, p, K = c['h'], c['p'], c['K']
    _, s, S, g = r
    custom = c['kind'] == 'exact_custom'
    name = 's_s_discrete_exact|%s' % ('custom' if custom else 'poisson')
    if not s < S:
        return [(name + '|s>=S', 'returned s=%d >= S=%d' % (s, S), None)]
    if S - s > 400:
        return [(name + '|absurd-pair', 'returned (%d,%d): S-s = %d' % (s, S, S - s), None)]
    if custom and S - s <= 40:
        pm = np.array([float(x) for x in c['pmf']])
        ex = chain_cost_exact(h, p, K, c['pmf'], s, S)
        ok = ex is not None and close(g, ex, rel=1e-12, abs_=1e-12)
    elif custom:
        pm = np.array([float(x) for x in c['pmf']])
        ex = chain_cost_np(float(h), float(p), float(K), pm, GCache(float(h), float(p), pm), s, S)
        ok = close(g, ex)
    else:
        pm = poisson_table(c['mean'])
        ex = chain_cost_np(float(h), float(p), float(K), pm, GCache(float(h), float(p), pm), s, S)
        ok = close(g, ex)
        if chk is not None and '_yrange' in c:     # hypothesis of C13_zf_optimal_anyG on SciPy's numbers: unimodal at y* on the visited range
            from stockpyl.newsvendor import newsvendor_poisson_cost, newsvendor_poisson
            ys = int(newsvendor_poisson(float(h), float(p), c['mean'])[0]); lo, hi = c['_yrange']
            v = {y: newsvendor_poisson_cost(y, float(h), float(p), c['mean']) for y in range(lo - 1, hi + 2)}
            uni = all((v[y + 1] <= v[y] * (1 + 1e-12)) if y < ys else (v[y] <= v[y + 1] * (1 + 1e-12)) for y in range(lo - 1, hi + 1))
            chk.extra['poisson_G_unimodal_on_visited_range'] = chk.extra.get('poisson_G_unimodal_on_visited_range', 0) + (1 if uni else 0)
            if not uni: chk.extra['poisson_G_not_unimodal'] = chk.extra.get('poisson_G_not_unimodal', 0) + 1
    if not ok:
        bad.append((name + '|cost-of-returned-pair', 'reported cost %r for (%d,%d) but that pair\'s long-run average cost is %r' % (float(g), s, S, None if ex is None else float(ex)), None))
    best, win, capped = grid_best(float(h), float(p), float(K), pm, float(g))
    if chk is not None:
        chk.extra['grid_pairs_searched'] = chk.extra.get('grid_pairs_searched', 0) + (win[1] - win[0]) * (win[1] - win[0] + 1) // 2
        if capped: chk.extra['grid_window_capped'] = chk.extra.get('grid_window_capped', 0) + 1
    if best[0] < float(g) * (1 - 1e-9) - 1e-12:
        confirmed = True
        if custom and S - s <= 40 and best[2] - best[1] <= 40:   # confirm exactly before reporting
            exb = chain_cost_exact(h, p, K, c['pmf'], best[1], best[2])
            exr = chain_cost_exact(h, p, K, c['pmf'], s, S)
            confirmed = exb is not None and exr is not None and exb < exr
        if confirmed:
            bad.append((name + '|not-optimal', 'returned (%d,%d) with cost %r, but (%d,%d) costs %r' % (s, S, float(g), best[1], best[2], best[0]), None))
    return bad


def oracle_entry_agreement(c, r):
    """Poisson entry point vs custom-pmf entry point fed with the truncated, renormalised Poisson pmf"""
    ss = _ss()
    bad = []
    mean = c['mean']
    pm = poisson_table(mean)
    tailmass = max(0.0, 1.0 - float(pm.sum()))
    pmn = [float(x) for x in (pm / pm.sum())]
    h, p, K = float(c['h']), float(c['p']), float(c['K'])
    try:
        if c['kind'] == 'cost_poisson':
            v = guarded(lambda: ss.s_s_cost_discrete(c['s'], c['S'], h, p, K, False, None, len(pmn) - 1, pmn))
            if not close(v, r[1], rel=1e-9 + 100 * tailmass):
                bad.append(('s_s_cost_discrete|poisson-vs-custom', 'Poisson entry gives %r, custom entry with the Poisson pmf gives %r' % (float(r[1]), float(v)), None))
        else:
            s2, S2, g2 = guarded(lambda: ss.s_s_discrete_exact(h, p, K, False, None, len(pmn) - 1, pmn), 60)
            if (int(s2), int(S2)) != (r[1], r[2]) and not close(g2, r[3], rel=1e-7):
                bad.append(('s_s_discrete_exact|poisson-vs-custom', 'Poisson entry returns (%d,%d,%r), custom entry with the Poisson pmf returns (%d,%d,%r)' % (r[1], r[2], float(r[3]), s2, S2, float(g2)), None))
            elif (int(s2), int(S2)) != (r[1], r[2]):
                return bad, 1
            elif not close(g2, r[3], rel=1e-9 + 100 * tailmass):
                bad.append(('s_s_discrete_exact|poisson-vs-custom', 'same pair, costs %r vs %r' % (float(r[3]), float(g2)), None))
    except Exception as e:
        if isinstance(e, TimeoutError): TIMEOUTS['n'] += 1
        bad.append(('%s|custom-entry-raises-%s' % ('s_s_cost_discrete' if c['kind'] == 'cost_poisson' else 's_s_discrete_exact', exc_kind(e)),
                    'custom entry point with the Poisson pmf raises: %s' % str(e)[:150], None))
    return bad, 0


# ------------------------------------------------------------------------------------------------ model
def model_expr(c):
    """Gallina expression for the case, or None when the exact evaluation would be too slow (large Poisson instances)."""
    k = c['kind']
    if k == 'cost_custom':
        return 'rmap qobs (s_s_cost_discrete %s %s %s %s %s %s)' % (cq(c['h']), cq(c['p']), cq(c['K']), cqlist(c['pmf']), cz(c['s']), cz(c['S']))
    if k == 'exact_custom':
        return 'rmap obs3 (s_s_discrete_exact %s %s %s %s %s)' % (cq(c['h']), cq(c['p']), cq(c['K']), cqlist(c['pmf']), cnat(FUEL))
    from scipy.stats import poisson
    from stockpyl.newsvendor import newsvendor_poisson_cost, newsvendor_poisson
    h, p = float(c['h']), float(c['p'])
    if k == 'cost_poisson':
        n = c['S'] - c['s']
        if c['malformed'] == 'nonpos': return None      # the Poisson model entry has no h/p parameters (G is an input)
        if n > 7 and not c['malformed']: return None
        n = max(n, 1)
        pm = [F(x) for x in poisson.pmf(range(n), c['mean'])]
        glo = c['s']
        try: g = [F(newsvendor_poisson_cost(y, h, p, c['mean'])) for y in range(glo, glo + n + 1)]
        except Exception: return None
        return 'rmap qobs (s_s_cost_poisson %s %s %s %s %s %s)' % (cq(c['K']), cqlist(pm), cz(glo), cqlist(g), cz(c['s']), cz(c['S']))
    if '_yrange' not in c or c['mean'] > 2.0 or c['K'] > 6: return None
    lo, hi = c['_yrange']
    if hi - lo > 14: return None
    pm = [F(x) for x in poisson.pmf(range(hi - lo + 1), c['mean'])]
    g = [F(newsvendor_poisson_cost(y, h, p, c['mean'])) for y in range(lo, hi + 1)]
    ystar = int(newsvendor_poisson(h, p, c['mean'])[0])
    return 'rmap obs3 (s_s_exact_poisson %s %s %s %s %s %s)' % (cq(c['K']), cqlist(pm), cz(lo), cqlist(g), cnat(hi - lo + 3), cz(ystar))


def compare_model(chk, c, r, m):
    """m: parsed model value. Returns nothing; reports chk.mismatch."""
    custom = c['kind'].endswith('custom')
    rel = 1e-12 if custom else 1e-9
    if isinstance(m, str):       # an error constructor
        if m == 'NoFuel':
            chk.mismatch('model ran out of fuel', public(c)); return
        if r[0] != 'err' or r[1] != m:
            chk.mismatch('model raises %s but implementation gives %r' % (m, jsonable(r[:3])), c)
        return
    if r[0] == 'err':
        chk.mismatch('implementation raises %s (%s) but the model returns %r' % (r[1], r[2], jsonable(m)), c); return
    val = m[1]
    if c['kind'].startswith('cost'):
        mv = qv(val)
        if mv == r[1]: chk.extra['exactly_equal'] = chk.extra.get('exactly_equal', 0) + 1
        if not close(mv, r[1], rel=rel, abs_=rel):
            chk.mismatch('cost: model %r vs implementation %r' % (float(mv), float(r[1])), c)
    else:
        ms, mS, mg = val[0], val[1], qv(val[2])
        if (ms, mS) != (r[1], r[2]):
            if close(mg, r[3], rel=1e-7):
                chk.extra['near_tie_skipped'] = chk.extra.get('near_tie_skipped', 0) + 1
            else:
                chk.mismatch('exact algorithm: model returns (%d,%d,%r), implementation (%d,%d,%r)' % (ms, mS, float(mg), r[1], r[2], float(r[3])), c)
        else:
            if mg == r[3]: chk.extra['exactly_equal'] = chk.extra.get('exactly_equal', 0) + 1
            if not close(mg, r[3], rel=rel, abs_=rel):
                chk.mismatch('exact algorithm: same pair (%d,%d) but cost model %r vs implementation %r' % (ms, mS, float(mg), float(r[3])), c)


# ------------------------------------------------------------------------------------------------ call sequences
# The property speaks about "the cost reported for a given (s,S) pair": a function of the arguments' VALUES. A library that keeps state
# between calls (memo tables keyed on the identity of the caller's list or on a subset of the parameters, defaults filled in on first use,
# writes into the caller's list) answers correctly once and wrongly later. This stream runs several calls in a row the way callers do:
# one forecast list updated in place, a helper that builds a temporary list per scenario, or a list per scenario kept around.
SEQ_MODES = ['inplace', 'inplace', 'fresh', 'fresh', 'held']
FRESH_HUNT = 300


def gen_seq(rng):
    D = rng.choice([1, 2, 2, 3, 3, 4, 4, 5, 6, 8])
    h, p, K = gen_costs(rng, 64)
    steps, pairs, pmfs = [], [], []
    for i in range(rng.randint(3, 6)):
        st = dict(h=h, p=p, K=K)
        u = rng.random()
        if steps and u < 0.12:
            st['K'] = Fraction(rng.randint(1, 64), 4)
        elif steps and u < 0.22:
            st['h'], st['p'], _ = gen_costs(rng)
        if steps and rng.random() < 0.08:          # a Poisson evaluation between two custom ones
            mu = st['mean'] = rng.choice([0.5, 1.0, 1.5, 2.0, 3.0, 4.5])
            st['fn'] = 'cost_poisson'
            if pairs and rng.random() < 0.5:
                st['s'], st['S'] = rng.choice(pairs)
            else:
                st['s'] = rng.randint(-2, int(mu) + 2); st['S'] = st['s'] + rng.randint(1, 8)
            if pmfs and rng.random() < 0.5:                      # the wrapper forwards the pmf of the previous scenario as well (documented: ignored)
                st['ig_pmf'] = pmfs[-1]; st['ig_hi'] = len(pmfs[-1]) - 1
            steps.append(st); continue
        st['fn'] = 'exact' if rng.random() < 0.25 else 'cost'
        v = rng.random()
        if pmfs and v < 0.2: pmf = rng.choice(pmfs)              # the same contents once more
        elif pmfs and v < 0.3: pmf = gen_pmf(rng)                # another length
        else: pmf = gen_pmf(rng, D)
        pmfs.append(pmf); st['pmf'] = pmf
        if rng.random() < 0.15:                                  # a demand_mean handed over with a custom pmf (documented: ignored)
            st['ig_mean'] = rng.choice([float(sum(d * x for d, x in enumerate(pmf))), gen_mean(rng)])
        if st['fn'] == 'cost':
            if pairs and rng.random() < 0.6:
                st['s'], st['S'] = rng.choice(pairs)             # the same pair (the same one-period cost arguments y) as an earlier step
            else:
                Dl = len(pmf) - 1
                n = rng.randint(Dl + 1, Dl + 6) if rng.random() < 0.4 else rng.randint(1, max(1, Dl))
                st['s'] = rng.randint(-3, Dl + 2); st['S'] = st['s'] + n
            pairs.append((st['s'], st['S']))
        steps.append(st)
    return dict(kind='seq_custom', mode=rng.choice(SEQ_MODES), steps=steps, malformed=None)


def step_case(st):
    """the single-call case (as used by the other streams, the oracle and the model) that a step of a sequence amounts to"""
    kind = {'cost': 'cost_custom', 'exact': 'exact_custom', 'cost_poisson': 'cost_poisson'}[st['fn']]
    c = dict(kind=kind, h=st['h'], p=st['p'], K=st['K'], malformed=None)
    for k in ('pmf', 'mean', 's', 'S') + IG_KEYS:
        if k in st: c[k] = st[k]
    return c


def _call_step(ss, st, pm):
    h, p, K = float(st['h']), float(st['p']), float(st['K'])
    try:
        if st['fn'] == 'cost_poisson':
            ihi, ipm = _ig_pmf(st)
            return ('ok', _fin(ss.s_s_cost_discrete(st['s'], st['S'], h, p, K, True, st['mean'], ihi, ipm)))
        if st['fn'] == 'cost':
            return ('ok', _fin(ss.s_s_cost_discrete(st['s'], st['S'], h, p, K, False, st.get('ig_mean'), len(pm) - 1, pm)))
        s, S, g = ss.s_s_discrete_exact(h, p, K, False, st.get('ig_mean'), len(pm) - 1, pm)
        return ('ok', int(s), int(S), _fin(g))
    except OverflowError:
        return ('err', 'NonFiniteResult', 'the implementation returned inf or nan')
    except Exception as e:
        return ('err', exc_kind(e), str(e)[:200])


def _run_seq(c, info):
    ss = _ss()
    mode = c['mode']
    res, touched = [], []
    own = None            # 'inplace': the caller's one list
    held = []             # 'held': every list stays alive; 'fresh': parking place for blocks that are not the one looked for
    last_id = None
    steps = list(c['steps']) + [dict(c['steps'][0], _again=True)]       # the first call once more at the end
    allvals = [tuple(float(x) for x in st['pmf']) if 'pmf' in st else None for st in steps]    # built beforehand: nothing is allocated between two calls
    for st, vals in zip(steps, allvals):
        if st['fn'] == 'cost_poisson':
            res.append(_call_step(ss, st, None)); touched.append(False); continue
        if mode == 'inplace':
            if own is None: own = list(vals)
            else: own[:] = vals                    # a new forecast written into the same list object
            pm = own
        elif mode == 'held':
            pm = list(vals); held.append(pm)
        else:                                      # 'fresh': the previous list is gone; look for the block it occupied
            pm = list(vals)
            if last_id is not None:
                info['fresh_calls'] += 1
                tries = 0
                while id(pm) != last_id and tries < FRESH_HUNT:
                    held.append(pm); pm = list(vals); tries += 1
                if id(pm) == last_id: info['fresh_same_id'] += 1
                del held[:]
        res.append(_call_step(ss, st, pm))
        touched.append(tuple(pm) != vals)
        if mode == 'fresh':
            last_id = id(pm)
        del pm                                     # 'fresh': this was the only reference
    return res, touched


def run_seq(c, info):
    n = len(c['steps']) + 1
    try:
        return guarded(lambda: _run_seq(c, info), 10 * n)
    except TimeoutError as e:
        TIMEOUTS['n'] += 1
        return [('err', 'TimeoutError', str(e))] * n, [False] * n


ISOLATED = {'n': 0}


def isolated_value(st):
    """the same single call in a new interpreter (nothing evaluated before it); only used to word a report. Returns text."""
    if ISOLATED['n'] >= 2: return None
    ISOLATED['n'] += 1
    import subprocess, sys
    code = ('import json,sys,warnings; warnings.filterwarnings("ignore"); import stockpyl.ss as ss\n'
            'a=json.loads(sys.argv[1])\n'
            'pm=a.get("pmf"); hi=None if pm is None else len(pm)-1; po=pm is None\n'
            'if po: pm=a.get("ig_pmf"); hi=a.get("ig_hi")\n'
            'if a["fn"]=="exact": r=ss.s_s_discrete_exact(a["h"],a["p"],a["K"],False,a.get("ig_mean"),hi,pm); print(repr((int(r[0]),int(r[1]),float(r[2]))))\n'
            'else: print(repr(float(ss.s_s_cost_discrete(a["s"],a["S"],a["h"],a["p"],a["K"],po,a.get("mean") if po else a.get("ig_mean"),hi,pm))))\n')
    arg = {k: (float(v) if isinstance(v, Fraction) else [float(x) for x in v] if k in ('pmf', 'ig_pmf') else v) for k, v in st.items() if not k.startswith('_')}
    try:
        out = subprocess.run([sys.executable, '-c', code, json.dumps(arg)], stdout=subprocess.PIPE, stderr=subprocess.DEVNULL, text=True, timeout=120)
        return out.stdout.strip().split('\n')[-1] if out.returncode == 0 else None
    except Exception:
        return None


def check_seq(chk, c, res, touched):
    """every step on its own against the oracle; returns (nontrivial flag, [(pseudo-case, result)] for the model comparison)"""
    steps = c['steps']
    mode = c['mode']
    pairs = []
    nontriv_pair = False
    for i, st in enumerate(steps + [steps[0]]):
        again = i == len(steps)
        r = res[i]
        pc = step_case(st)
        fn = 's_s_cost_discrete' if st['fn'].startswith('cost') else 's_s_discrete_exact'
        feat = 'poisson' if st['fn'] == 'cost_poisson' else 'custom'
        where = 'call %d of %d (%s%s)' % (i + 1, len(steps) + 1, 'pmf handed over: ' + mode if feat == 'custom' else 'Poisson', ', the first call once more' if again else '')
        if touched[i]:
            chk.fail('%s|custom|call-sequence|caller-pmf-modified' % fn, '%s: the caller\'s demand_pmf list is not the same after the call' % where, public(c))
        if again:
            if r != res[0] and not (r[0] == 'err' and r[1] == 'TimeoutError'):
                chk.fail('%s|%s|call-sequence|%s|same-call-different-result' % (fn, feat, mode),
                         '%s: the identical call returned %r at the start and %r at the end of the sequence' % (where, jsonable(res[0]), jsonable(r)), public(c))
            continue
        if r[0] == 'err':
            chk.fail('%s|%s|call-sequence|%s|raises-%s' % (fn, feat, mode, r[1]), '%s: valid input raises %s: %s' % (where, r[1], r[2]), public(c))
            continue
        bad = oracle_cost(pc, r) if st['fn'].startswith('cost') else oracle_exact(pc, r, chk)
        iso = None
        if bad:
            iso = isolated_value(st)
        for sig, what, _ in bad:
            first = i == 0
            chk.fail('%s|call-sequence|%s%s' % (sig, mode, '' if first else '|after-earlier-calls'),
                     '%s: %s%s' % (where, what, '' if iso is None else ' [the same call as the only call of a new interpreter returns %s]' % iso), public(c))
        pairs.append((pc, r))
        if (st['fn'].startswith('cost') and st['S'] - st['s'] >= 2) or (st['fn'] == 'exact' and r[2] - r[1] >= 2): nontriv_pair = True
    npmf = len(set(tuple(st['pmf']) for st in steps if 'pmf' in st))
    return nontriv_pair and npmf >= 2, pairs


def seq_key(c):
    return json.dumps(jsonable(['seq', c['mode'], [[st['fn'], st['h'], st['p'], st['K'], st.get('pmf'), st.get('mean'), st.get('s'), st.get('S')] + [st.get(k) for k in IG_KEYS if k in st]
                                                   for st in c['steps']]]))


def explore_seq(chk, n, do_model=True):
    rng = chk.rng
    info = {'fresh_calls': 0, 'fresh_same_id': 0}
    cases = [gen_seq(rng) for _ in range(n)]
    runs = [run_seq(c, info) for c in cases]          # all library calls first, back to back; the oracle runs afterwards
    todo = []
    for c, (res, touched) in zip(cases, runs):
        chk.count('kind=seq_custom'); chk.count('seq_mode=%s' % c['mode']); chk.count('seq_steps=%d' % len(c['steps']))
        for st in c['steps']: chk.count('seq_step=%s' % st['fn'])
        same_len = len(set(len(st['pmf']) for st in c['steps'] if 'pmf' in st)) == 1
        chk.count('seq_all_pmfs_same_length=%s' % same_len)
        nontriv, pairs = check_seq(chk, c, res, touched)
        chk.case(public(c), nontriv, seq_key(c))
        if do_model:
            for pc, r in pairs:
                if pc['kind'] == 'cost_poisson': continue
                todo.append((dict(pc, in_call_sequence=public(c)), r, model_expr(pc)))
    for k, v in info.items():
        chk.extra['seq_' + k] = chk.extra.get('seq_' + k, 0) + v
    if do_model and todo:
        out = coq_eval_sharded('c13s', 'Alg.SS', DEFS, [e for _, _, e in todo])
        for (pc, r, _), m in zip(todo, out):
            chk.traces += 1
            chk.count('model_evaluated=seq_step_%s' % pc['kind'])
            compare_model(chk, pc, r, m)


# ------------------------------------------------------------------------------------------------ driver
def case_key(c):
    return json.dumps(jsonable([c['kind'], c['h'], c['p'], c['K'], c.get('pmf'), c.get('mean'), c.get('s'), c.get('S')] + [c.get(k) for k in IG_KEYS if k in c]))


def public(c):
    return {k: v for k, v in c.items() if not k.startswith('_')}


def check_one(chk, c, r, do_agreement=True):
    """oracle part for one case; returns nontrivial flag"""
    if c['malformed']:
        if c['malformed'] in ('nonpos', 'pmf_len'):
            if r[0] != 'err' or r[1] != 'ValueError':
                chk.fail('%s|malformed-%s-accepted' % ('s_s_cost_discrete' if c['kind'].startswith('cost') else 's_s_discrete_exact', c['malformed']),
                         'documented ValueError not raised: %r' % (jsonable(r[:2]),), public(c))
        return False
    fn = 's_s_cost_discrete' if c['kind'].startswith('cost') else 's_s_discrete_exact'
    if r[0] == 'err':
        feat = c['kind'].split('_')[1]
        if c['kind'] == 'cost_custom' and c['S'] - c['s'] > len(c['pmf']) - 1: feat += '|S-s>D'
        if has_ignored(c): feat += '|ignored-argument-supplied'
        chk.fail('%s|%s|raises-%s' % (fn, feat, r[1]), 'valid input%s raises %s: %s' % (' (with %s, documented as ignored)' % ignored_text(c) if has_ignored(c) else '', r[1], r[2]), public(c))
        return False
    bad = oracle_cost(c, r) if c['kind'].startswith('cost') else oracle_exact(c, r, chk)
    if do_agreement and c['kind'].endswith('poisson') and TIMEOUTS['n'] < 3:
        b2, tie = oracle_entry_agreement(c, r)
        bad += b2
        if tie: chk.extra['near_tie_skipped'] = chk.extra.get('near_tie_skipped', 0) + 1
    if has_ignored(c) and (bad or c['kind'].startswith('cost')):
        # an argument documented as ignored must not change the answer (cost calls: always compared; search: compared to word a report)
        r0 = run_impl(without_ignored(c))
        if r0[0] != 'skipped' and r0 != r and not (r0[0] == 'err' and r0[1] == 'TimeoutError'):
            bad.append(('%s|%s|ignored-argument-changes-result' % (fn, c['kind'].split('_')[1]),
                        'with %s (documented as ignored when use_poisson is %s) the call returns %r, without it %r' % (ignored_text(c), c['kind'].endswith('poisson'), jsonable(r), jsonable(r0)), None))
    for sig, what, _ in bad:
        chk.fail(sig, what, public(c))
    return (c['S'] - c['s'] >= 2) if c['kind'].startswith('cost') else (r[2] - r[1] >= 2)


def explore(chk, plan, do_model=True):
    rng = chk.rng
    cases = []
    for kind, n in plan:
        for _ in range(n):
            cases.append(gen_malformed(rng) if kind == 'malformed' else gen_case(rng, kind, chk.tier))
    impl = [run_impl(c) for c in cases]
    model, model_failed = {}, {}
    if do_model:
        light, heavy = [], []          # (case index, expression); Poisson expressions are heavy (big rationals)
        for i, c in enumerate(cases):
            if c['malformed'] == 'pmf_len': continue      # demand_hi is not a parameter of the model
            e = model_expr(c)
            if e is not None:
                (heavy if c['kind'].endswith('poisson') else light).append((i, e))
        res = coq_eval_sharded('c13', 'Alg.SS', DEFS, [e for _, e in light])
        model.update({i: v for (i, _), v in zip(light, res)})
        # heavy ones: few per shard, bounded time; a model evaluation that does not finish is reported as a disagreement
        for k in range(0, len(heavy), 8):
            grp = heavy[k:k + 8]
            from concurrent.futures import ThreadPoolExecutor
            def one(ie):
                try: return coq_eval('c13h_%d' % ie[0], 'Alg.SS', DEFS, [ie[1]], timeout=240)[0]
                except RuntimeError as ex: return ('FAILED', str(ex)[-300:])
            with ThreadPoolExecutor(max_workers=8) as ex:
                for (i, _), v in zip(grp, ex.map(one, grp)):
                    if isinstance(v, tuple) and v and v[0] == 'FAILED': model_failed[i] = v[1]
                    else: model[i] = v
    for i, (c, r) in enumerate(zip(cases, impl)):
        chk.count('kind=%s' % c['kind']); chk.count('malformed=%s' % c['malformed'])
        if not c['malformed']:
            chk.count('ignored_argument_supplied=%s' % ('+'.join(k[3:] for k in IG_KEYS if k in c) or 'none'))
            if c['kind'].startswith('exact'):
                nt = c.get('near_tie')
                chk.count('K_next_to_policy_change=%s' % ('no' if nt is None else 'rel_gap<1e-6' if nt['rel_gap'] < 1e-6 else 'rel_gap<1e-4'))
        if 'pmf' in c and not c['malformed']:
            D = len(c['pmf']) - 1
            chk.count('D=%d' % D); chk.count('zero_points=%d' % sum(1 for x in c['pmf'] if x == 0))
            if c['kind'] == 'cost_custom': chk.count('S-s>D=%s' % (c['S'] - c['s'] > D))
        if 'mean' in c and not c['malformed']:
            chk.count('mean_bucket=%s' % ('<=3' if c['mean'] <= 3 else '<=10' if c['mean'] <= 10 else '<=20'))
        if r[0] == 'skipped':
            chk.count('skipped_after_timeouts'); continue
        nontriv = check_one(chk, c, r)
        if i in model_failed:
            chk.mismatch('model evaluation did not finish (tables taken from the implementation run do not fit the model\'s run): %s' % model_failed[i][-160:], public(c))
        if i in model:
            chk.traces += 1
            chk.count('model_evaluated=%s' % c['kind'])
            compare_model(chk, public(c), r, model[i])
        chk.case(public(c), nontriv, case_key(c))


def run(chk):
    chk.rule = RULE
    chk.trusted += ['model Alg/SS.v is hand-written; tied to /repo by comparing the cost / the returned (s,S,cost) with the implementation on generated instances '
                    '(custom pmfs: every case, relative 1e-12; Poisson: only small instances (S-s<=7 for costs; mean<=2, K<=6 for the search) because exact rational arithmetic on '
                    'SciPy\'s 53-bit pmf values is slow in vm_compute, relative 1e-9; larger Poisson instances are covered by the oracle only)',
                    'Poisson entry point: the pmf table, the one-period costs newsvendor_poisson_cost(y) and y* = poisson.ppf are inputs of the model taken from the implementation run (SciPy is not modelled)',
                    'oracle: numpy.linalg.solve for the Poisson chains and for the grid search; exact Fractions for custom-pmf chains']
    chk.assume += ['floating-point rounding is not modelled: theorems are over exact rationals',
                   'long-run average = Cesaro limit of EXPECTED period costs from every initial distribution (C13_long_run_average, explicit O(1/T) rate, finite-support pmf); pathwise '
                   '(almost-sure) convergence and infinite-support demand (Poisson itself) are not proved; the oracle solves the stationary equations with the normalisation',
                   'global optimality of the pair returned by s_s_discrete_exact is a Coq theorem for the model of the custom-pmf entry point (C13_zf_optimal); for the Poisson entry point it is '
                   'conditional on SciPy\'s one-period costs being unimodal at y* and on the untruncated pmf (C13_zf_optimal_anyG), hence checked by exhaustive window search per instance',
                   'termination of the search is not proved (explicit fuel in the model; watchdog on the implementation)']
    chk.proof()
    if chk.tier == 'quick':
        plan = [('cost_custom', 400), ('cost_poisson', 150), ('exact_custom', 180), ('exact_poisson', 50), ('exact_custom_tie', 90), ('exact_poisson_tie', 40), ('malformed', 60)]
    else:
        plan = [('cost_custom', 8000), ('cost_poisson', 2400), ('exact_custom', 4000), ('exact_poisson', 800), ('exact_custom_tie', 2000), ('exact_poisson_tie', 600), ('malformed', 500)]
    nseq = 80 if chk.tier == 'quick' else 1500
    explore_seq(chk, nseq)          # first: the library has evaluated nothing yet, as in a replay of one of these cases
    explore(chk, plan)
    # ergodic step (Alg/SSErgo*.v, C13_long_run_average*): the EXPECTED cost of the (s,S) system, propagated exactly period by period from several starts,
    # averages to the value the implementation returns within the proved bound B/T
    from props import c13_ergodic
    c13_ergodic.ergodic_stream(chk, 25 if chk.tier == 'quick' else 600)
    if (chk.broken or chk.mismatches) and not chk.fails:
        # directed search for a failing input: bigger budget, oracle only
        mult = 4 if chk.tier == 'quick' else 1
        explore_seq(chk, nseq * mult, do_model=False)
        explore(chk, [(k, n * mult) for k, n in plan if k != 'malformed'], do_model=False)


def replay(chk, rp):
    c = rp['case']
    if 'start_dist' in c:
        from props import c13_ergodic
        return c13_ergodic.replay_case(chk, c)
    if c.get('kind') == 'seq_custom':
        for st in c['steps']:
            for k in ('h', 'p', 'K'): st[k] = Fraction(st[k])
            if st.get('pmf') is not None: st['pmf'] = [Fraction(x) for x in st['pmf']]
            if st.get('ig_pmf') is not None: st['ig_pmf'] = [Fraction(x) for x in st['ig_pmf']]
        c.setdefault('malformed', None)
        info = {'fresh_calls': 0, 'fresh_same_id': 0}
        res, touched = run_seq(c, info)
        print('implementation:', jsonable(res), info)
        check_seq(chk, c, res, touched)
        chk.case(public(c))
        return
    for k in ('h', 'p', 'K'): c[k] = Fraction(c[k]) if not isinstance(c[k], str) else Fraction(c[k])
    if c.get('pmf') is not None: c['pmf'] = [Fraction(x) for x in c['pmf']]
    if c.get('ig_pmf') is not None: c['ig_pmf'] = [Fraction(x) for x in c['ig_pmf']]
    c.setdefault('malformed', None)
    r = run_impl(c)
    print('implementation:', jsonable(r))
    check_one(chk, c, r)
    chk.case(public(c))
