"""C12 — finite-horizon DP: correspondence of Alg/FH.v with stockpyl.finite_horizon.finite_horizon_dp
(tolerance regime: the probability vectors and one-period costs are SciPy floats) + an independent
Python implementation of the documented recursion, evaluation-vs-optimisation, K=0 => s=S, T=1,
myopic bounds (Python oracle + tie of the theorems C12_myopic_* about the model's own myopic levels to myopic_bounds' outputs and to
the implementation's S_t: myopic_model_compare), and a check that the one-period cost is the one of the *specified* demand distribution.
Oracle-only streams beside the first (model-compared) one: period-varying fixed costs (gen_myopic_case), call sequences on shared argument
objects (gen_seq_case, call_case, sequence_oracle), discrete demand with mass outside the demand-truncation range (gen_lumpy_case), tiny fixed
cost relative to the cost level with a flat myopic cost (gen_flat_case)."""
import math, warnings
from fractions import Fraction
import numpy as np
from vlib import *

RULE = ('T in 1..4 (quick) / 1..8 (thorough); h, p, c, K, gamma, demand mean/sd each drawn as scalar, length-T or length-(T+1) '
        'list, stationary or period-varying; K = 0 in ~35% of the cases; K lists that jump up in a later period with cheap holding in ~12%; gamma in {1, 0.9, 0.95}; terminal costs zero / equal / '
        'random; demand = normal mean 3..12, sd 1..3, or DemandSource objects of type N, P, UD, CD, UC, NB (one for all periods or '
        'one per period, incl. lists whose consecutive periods have bit-identical mean and sd but different distributions: X next to '
        'the normal with the moments of X, mirror-image custom-discrete pmfs); initial inventory level integer / fractional / occasionally outside the grid; modes: optimisation on the '
        'default grid (incl. range-doubling restarts, forced by large K in ~10%), optimisation on a user x_range, evaluation of a '
        'user policy matrix (base-stock, (s,S), never-order); plus a malformed stream (ValueError cases). Every optimisation case is '
        'also fed back in evaluation mode. Second stream (24 quick / 120 thorough cases, oracles only, not compared with the model): T in 2..5, normal demand mean 8..20, '
        'default spreads, optimisation mode (25% on a user x_range that must be doubled), period-varying fixed cost with profile rise / spike / zig-zag '
        '(a fixed cost worth 1.5..4 periods of holding one period\'s demand after periods with K = 0..10, so that K_t < gamma_t K_{t+1} and s_t lies far above '
        'S_underbar_t), falling, flat, or within 0.25 of gamma_t K_{t+1}; h and the demand mean mildly period-varying in 30%; myopic_bounds is held against the DP '
        'period by period also where Veinott\'s conditions fail (S_overbar always, s_overbar wherever a number is reported, the lower bounds on condition-satisfying tails). '
        'In stream 1, 15% of the cases with T >= 2 that are not of the fixed-cost-jump / myopic-friendly kind give the demand as a per-period list mixing None (normal period, demand_mean / demand_sd lists) with DemandSource objects '
        '(lists of T or T+1 elements, None or an ignored number in demand_mean / demand_sd at the periods that have a source). '
        'Third stream (8 quick / 60 thorough, oracles only): CALL SEQUENCES on shared argument objects -- a stream-1 case with T in 2..3 (60% with a mixed None/DemandSource list, 75% of them T+1 elements) is '
        'preceded by a call in which one to three numeric arguments (demand_mean, demand_sd, costs, discount factor) have other values and every other argument object (lists, arrays, DemandSource '
        'objects) is the same object; the result of the last call is held against all oracles and must equal bit for bit the result of a single call on freshly built objects; argument objects changed by a call are counted. '
        'Fourth stream (10 quick / 80 thorough, oracles only): discrete demand whose support is not covered by the demand-truncation range [d_min, d_max] with d_min > 0 -- custom-discrete demand around 10..38 with a rare '
        '(0.5..4%) low outlier, a rare high outlier or both; Poisson mean 16..40 / negative binomial with d_spread 2 or 3 -- T in 1..3, evaluation mode (never-order, (s,S) with s <= d_min, base-stock below d_min; 45%), '
        'optimisation on the default grid with fixed costs worth 0.8..3 periods of lost demand (reorder point below d_min) or small, optimisation on a user x_range. '
        'Fifth stream (4 quick / 16 thorough, oracles only; K / G stratified): expensive item with a tiny fixed cost, K = 3e-6 .. 3e-5 of the myopic cost level G_t(S_underbar_t) ~ c mu, and a flat myopic cost '
        '(p/(p+h) = 0.995 .. 0.999, sd 8..31, mu = 5..6 sd, d_spread 5) so that this K still separates s_underbar, S_underbar and S_overbar by 4..6 grid units; T = 2, gamma = 1, stationary; myopic_bounds against the DP. '
        'non-trivial = T >= 2 and (some s_t < S_t or the S_t are not all equal); '
        'distinct = distinct (normalised parameters, demand, grid, mode).')

SIG_PRICING = 'finite_horizon_dp|one-period-cost-uses-normal_loss-for-non-normal-demand_source'

# ------------------------------------------------------------------------------------------------
# generator

def _r(rng, lo, hi, q=4):
    return rng.randint(int(lo * q), int(hi * q)) / q


def gen_source(rng, small=False):
    k = rng.choice(['P', 'P', 'UD', 'UD', 'CD', 'CD', 'N', 'UC'] + ([] if small else ['NB']))
    if k == 'P': return dict(type='P', mean=_r(rng, 3, 6 if small else 12, 2))
    if k == 'UD':
        lo = rng.randint(0, 6); return dict(type='UD', lo=lo, hi=lo + rng.randint(2, 6 if small else 10))
    if k == 'CD':
        m = rng.randint(2, 5); pts = sorted(rng.sample(range(0, 10 if small else 16), m))
        w = [rng.randint(1, 8) for _ in pts]; s = sum(w)
        pr = [x / s for x in w]; pr[-1] = 1.0 - sum(pr[:-1])
        return dict(type='CD', demand_list=pts, probabilities=pr)
    if k == 'N': return dict(type='N', mean=_r(rng, 3, 8 if small else 12, 2), standard_deviation=_r(rng, 1, 1.5 if small else 3, 2))
    if k == 'UC':
        lo = _r(rng, 0, 6, 2); return dict(type='UC', lo=lo, hi=lo + _r(rng, 2, 6 if small else 10, 2))
    return dict(type='NB', n=rng.randint(2, 8), p=rng.choice([0.4, 0.5, 0.6]))


def _moments(spec):
    """(mean, sd) exactly as finite_horizon_dp obtains them from a DemandSource"""
    ds = mk_source(spec)
    return (float(ds.mean or ds.demand_distribution.mean()), float(ds.standard_deviation or ds.demand_distribution.std()))


def gen_matched_pair(rng, small=False):
    """two DIFFERENT demand sources with bit-identical mean and standard deviation (moment-matched): a distribution next to
    the normal with its moments, or two custom-discrete pmfs that are mirror images of each other"""
    k = rng.choice(['P-N', 'UD-N', 'UC-N', 'CD-N', 'CD-mirror', 'CD-mirror'])
    if k == 'CD-mirror':
        while True:
            top = rng.randint(3, 6); w = [rng.randint(0, 6) for _ in range(top + 1)]
            w[0] = max(w[0], 1); w[-1] = max(w[-1], 1)
            tot = sum(w)
            if tot not in (8, 16, 32) or w == w[::-1]: continue          # dyadic probabilities: moments are exact in floats
            mu2 = Fraction(2 * sum(i * x for i, x in enumerate(w)), tot)
            if mu2.denominator != 1: continue
            sh = int(mu2) - top                                           # mirror image about the mean: x -> 2 mu - x
            if sh < 0: w = w[::-1]; sh = -sh
            pts = [i for i in range(top + 1) if w[i]]
            a = dict(type='CD', demand_list=pts, probabilities=[w[i] / tot for i in pts])
            mp = sorted((sh + top - i, w[i] / tot) for i in pts)
            b = dict(type='CD', demand_list=[x for x, _ in mp], probabilities=[q for _, q in mp])
            if _moments(a) == _moments(b) and _moments(a)[1] > 0: return a, b
    while True:
        kind = k.split('-')[0]
        if kind == 'P': a = dict(type='P', mean=float(rng.choice([4, 9] if small else [4, 9, 6.25, 12.25])))
        elif kind == 'UD':
            lo = rng.randint(0, 5); a = dict(type='UD', lo=lo, hi=lo + rng.randint(3, 6 if small else 10))
        elif kind == 'UC':
            lo = _r(rng, 0, 5, 2); a = dict(type='UC', lo=lo, hi=lo + _r(rng, 3, 6 if small else 10, 2))
        else: a = gen_source(rng, small); 
        if a['type'] != kind and kind == 'CD': continue
        m, sd = _moments(a)
        if sd <= 0: continue
        b = dict(type='N', mean=m, standard_deviation=sd)
        if _moments(b) == (m, sd): return a, b


def gen_mixed_demand(rng, T, small=False, t1=None):
    """per-period list in which some periods are given as DemandSource objects and the others as None + demand_mean / demand_sd
    (finite_horizon.py builds a normal source for every period whose demand_source entry is None); the three lists have
    independent shapes (T or T+1 elements); at the periods that have a source, demand_mean / demand_sd hold None or a number
    that is documented as ignored"""
    while True:
        src = [gen_source(rng, small) if rng.random() < 0.5 else None for _ in range(T)]
        if any(x is None for x in src) and any(x is not None for x in src): break
    means = [(_r(rng, 3, 8 if small else 12, 2) if x is None else rng.choice([None, None, _r(rng, 3, 12, 2)])) for x in src]
    sds = [(_r(rng, 1, 1.5 if small else 3, 2) if x is None else rng.choice([None, None, _r(rng, 1, 3, 2)])) for x in src]
    sh = lambda l, z: ['list', ([z] + l) if (rng.random() < 0.6 if t1 is None else t1) else l]
    return dict(kind='mixed', sources=sh(src, None), mean=sh(means, rng.choice([None, 0.0])), sd=sh(sds, rng.choice([None, 0.0])))


NUMERIC_KW = dict(h='holding_cost', p='stockout_cost', c='purchase_cost', K='fixed_cost', gamma='discount_factor')


def gen_seq_case(rng, tmax, malformed_rate=0.0):
    """third stream: CALL SEQUENCES on the same argument objects (what a sensitivity analysis does): a first call, then the
    caller replaces one to three of the numeric arguments (demand_mean / demand_sd / costs) and calls again with every other
    argument object -- lists, arrays, DemandSource objects -- re-used.  The case describes the SECOND call; c['prior'] holds the
    values that the replaced arguments had in the first one.  Demand: 60% mixed None/DemandSource lists, else as in stream 1."""
    while True:
        c = gen_case(rng, min(tmax, 3), 0.0)
        if c['T'] >= 2 and not c.get('K_jump') and c['IL'] in range(-3, 13): break
    c.pop('myopic_friendly', None)
    T = c['T']
    if rng.random() < 0.6:
        c.pop('matched', None); c['demand'] = gen_mixed_demand(rng, T, False, t1=rng.random() < 0.75)
    d = c['demand']; prior = {}
    def perturb(a, f):
        return ['scalar', f(a[1])] if a[0] == 'scalar' else ['list', [v if v is None else f(v) for v in a[1]]]
    if d['kind'] != 'source' and rng.random() < 0.85:
        dm = rng.choice([-2.0, 2.0, 3.0, 5.0]); prior['demand_mean'] = perturb(d['mean'], lambda v: max(1.0, v + dm))
        if rng.random() < 0.4: prior['demand_sd'] = perturb(d['sd'], lambda v: v + 0.5)
    for k in rng.sample(sorted(NUMERIC_KW), rng.choice([0, 1, 1, 2]) if prior else rng.choice([1, 2])):
        if k == 'gamma': prior[NUMERIC_KW[k]] = perturb(c[k], lambda v: 1.0 if v != 1.0 else 0.9)
        else: prior[NUMERIC_KW[k]] = perturb(c[k], lambda v: v + rng.choice([0.5, 1.0, 4.0]))
    c['prior'] = prior; c['seq_stream'] = True
    return c


def gen_lumpy_case(rng, tmax, malformed_rate=0.0):
    """fourth stream: DISCRETE demand whose support is NOT covered by the demand-truncation range [d_min, d_max] =
    [mean - d_spread sd, mean + d_spread sd] with d_min > 0: custom-discrete demand with a rare low outlier (an occasional
    period with almost no demand), a rare high outlier (a spike), or both; Poisson / negative binomial with mean 16..40 and
    d_spread 2 or 3.  The one-period cost is the expectation under the WHOLE specified distribution also for y <= d_min and
    y >= d_max.  States at or below d_min in which nothing is ordered are reached through evaluation mode (never-order,
    (s,S) with s <= d_min, base-stock below d_min) and through fixed costs worth 0.8..3 periods of lost demand."""
    T = rng.randint(1, max(1, min(tmax, 3)))
    fam = rng.choice(['CD-low', 'CD-low', 'CD-low', 'CD-high', 'CD-both', 'P', 'NB'])
    base = rng.randint(10, 30)
    def one():
        if fam == 'P': return dict(type='P', mean=float(base + rng.randint(6, 10)))
        if fam == 'NB': return dict(type='NB', n=base + rng.randint(0, 4), p=0.5)
        m = rng.randint(2, 4); pts = sorted(rng.sample(range(base, base + rng.randint(3, 8) + 1), m)); w = [rng.randint(1, 8) for _ in pts]
        out = []
        if fam in ('CD-low', 'CD-both'): out.append((rng.randint(0, base // 3), rng.choice([0.005, 0.01, 0.015, 0.02, 0.03, 0.04])))
        if fam in ('CD-high', 'CD-both'): out.append((rng.randint(2 * base, 3 * base), rng.choice([0.005, 0.01, 0.015, 0.02])))
        rest = 1.0 - sum(q for _, q in out); tot = sum(w)
        pq = sorted(out + [(x, rest * v / tot) for x, v in zip(pts, w)])
        pr = [q for _, q in pq]
        i = max(range(len(pr)), key=lambda j: pr[j]); pr[i] = 1.0 - sum(q for j, q in enumerate(pr) if j != i)
        return dict(type='CD', demand_list=[x for x, _ in pq], probabilities=pr)
    u = rng.random()
    if u < 0.5 or T == 1: src = ['scalar', one()]
    else:
        l = [one()] * T if u < 0.7 else [one() for _ in range(T)]
        src = ['list', ([None] + l) if rng.random() < 0.5 else l]
    def arg(draw, stationary_p=0.6):
        shape = rng.choice(['scalar', 'scalar', 'T', 'T1'])
        if shape == 'scalar': return ['scalar', draw()]
        v0 = draw(); vals = [v0] * T if rng.random() < stationary_p else [draw() for _ in range(T)]
        return ['list', ([0.0] + vals) if shape == 'T1' else vals]
    c = dict(T=T, h=arg(lambda: _r(rng, 0.25, 3)), p=arg(lambda: _r(rng, 2, 20)), c=(['scalar', 0.0] if rng.random() < 0.3 else arg(lambda: _r(rng, 0, 3))),
             K=['scalar', 0.0], gamma=arg(lambda: rng.choice([1.0, 0.9, 0.95]), 0.8), malformed=None, s_spread=5,
             d_spread=(rng.choice([2, 3]) if fam in ('P', 'NB') else rng.choice([4, 4, 4, 3])), demand=dict(kind='source', sources=src),
             IL=float(rng.randint(-3, 12)), lumpy_stream=fam)
    if fam == 'NB': c['d_spread'] = 2
    tm = rng.random()
    if tm < 0.4: c['hT'], c['pT'] = 0.0, 0.0
    else: c['hT'], c['pT'] = _r(rng, 0, 3), _r(rng, 0, 20)
    ms = [_moments(spec_of(c, t)) for t in range(1, T + 1)]
    mean = min(m for m, _ in ms); sd = max(s for _, s in ms); d_min = int(max(0, round(mean - c['d_spread'] * sd)))
    c['lumpy_d_min'] = d_min
    pbar = max(norm_list(c['p'], T)[1:])
    um = rng.random()
    c['mode'] = 'eval' if um < 0.45 else ('opt' if um < 0.85 else 'optgrid')
    if c['mode'] == 'eval':
        lo = -rng.randint(5, 20); hi = int(max(a for a, _ in ms) * rng.choice([2, 2.5, 3])); c['xr'] = [lo, hi]
        def pol():
            k = rng.random()
            if k < 0.35: return dict(type='never')
            if k < 0.75:
                s_ = rng.randint(lo + 1, max(lo + 2, d_min)); return dict(type='sS', s=s_, S=rng.randint(max(s_ + 1, int(mean)), hi - 1))
            return dict(type='basestock', S=rng.randint(1, max(2, int(mean + sd))))
        c['policy'] = [pol() for _ in range(T)] if rng.random() < 0.5 else [pol()] * T
        c['K'] = arg(lambda: rng.choice([0.0, _r(rng, 1, 40)]))
    else:
        hmin = min(norm_list(c['h'], T)[1:]); kcap = 160.0 ** 2 * hmin * pbar / (2 * mean * (hmin + pbar))                # EOQB <= 160: keeps the default grid small
        if rng.random() < 0.65: c['K'] = arg(lambda: float(round(min(kcap, pbar * mean * rng.choice([0.8, 1, 1.5, 2, 3])))), 0.8)     # reorder point far below the usual demand
        else: c['K'] = arg(lambda: rng.choice([0.0, _r(rng, 1, 40)]))
        if c['mode'] == 'optgrid': c['xr'] = [-rng.randint(10, 30), rng.randint(int(1.5 * mean), int(3 * mean))]
    return c


def gen_flat_case(rng, tmax, malformed_rate=0.0, stratum=None):
    """fifth stream: an expensive item with a TINY fixed cost -- K_t a fraction 3e-6 .. 3e-5 of the myopic cost level
    G_t(S_underbar_t) ~ c mu -- and a flat myopic cost (high service level p/(p+h) = 0.995 .. 0.999), so that this K
    still separates s_underbar_t, S_underbar_t and S_overbar_t by delta = 4 .. 6 grid units (delta^2 = 2 K sd / ((h+p) phi(z*))).
    The DP's discretisation must stay benign in this regime, in which the minimiser reacts to relative cost changes of 1e-6:
    - the demand table must hold practically all the mass (d_spread = 5, mu >= 5 sd): a lost mass eps tilts the DP's
      c_t y + H_t(y) by c eps, i.e. moves its minimiser by c eps sd / ((h+p) phi(z*)) -- a grid unit already for eps = 3e-4;
    - 'never order in the lowest state' must not be attractive (the clamp at x_min makes demand vanish there):
      c mu < p (mu - x_min) = p (mu + (s_spread + d_spread) sd).
    Together with K / (c mu) = r this fixes sd ~ 1 / sqrt(r): fractions much below 3e-6 would need grids of several thousand
    points (not generated).  gamma = 1, stationary parameters (Veinott's conditions hold), T = 2, terminal stockout cost
    large enough that S_underbar_{T-1} <= S_overbar_T."""
    from statistics import NormalDist
    T = 2
    p = _r(rng, 5, 20); delta = rng.uniform(4, 6); k = rng.uniform(5, 6); slack = rng.uniform(0.6, 0.85)
    lo, hi = stratum if stratum else (3e-6, 3e-5)
    r = math.exp(rng.uniform(math.log(lo), math.log(hi)))
    ratios = [0.995, 0.998, 0.999]; ri = rng.randrange(3)
    while True:
        ratio = ratios[ri]; h = p * (1 - ratio) / ratio; z = NormalDist().inv_cdf(ratio); ph = phi(z)
        sigma = math.sqrt(delta ** 2 * ph * (h + p) / (2 * slack * r * p * (10 + k)))
        if (15 + k) * sigma <= 640: break
        if ri < 2: ri += 1                                   # a higher service level makes the myopic cost flatter: smaller sd for the same delta
        elif delta > 4: delta = max(4.0, delta * 0.95)
        else: r *= 1.1
    sigma = float(max(8, round(sigma))); mu = float(math.ceil(k * sigma))
    cpur = round(slack * p * (10 * sigma + mu) / mu, 2)
    K = r * (cpur * mu + (h + p) * ph * sigma)
    pT = float(math.ceil(cpur * (p + h) / h * rng.uniform(1.1, 2)))
    sc = lambda v: ['scalar', v] if rng.random() < 0.6 else ['list', ([0.0] + [v] * T) if rng.random() < 0.5 else [v] * T]
    return dict(T=T, h=sc(h), p=sc(p), c=sc(cpur), K=sc(K), gamma=['scalar', 1.0], hT=0.0, pT=pT, malformed=None, d_spread=5, s_spread=5,
                mode='opt', IL=float(rng.randint(0, int(mu))), demand=dict(kind='normal', mean=sc(mu), sd=sc(sigma)),
                flat_stream='K/G=%.0e' % r)


def flat_gen_stratified():
    """gen_flat_case with K / G cycling through four strata of [3e-6, 3e-5] (equal on the log scale), so that a handful of
    cases covers the range"""
    edges = [3e-6 * 10 ** (i / 4) for i in range(5)]; n = [0]
    def gen(rng, tmax, malformed_rate=0.0):
        i = n[0] % 4; n[0] += 1
        return gen_flat_case(rng, tmax, malformed_rate, stratum=(edges[i], edges[i + 1]))
    return gen


def gen_case(rng, tmax, malformed_rate=0.08):
    T = 1 if (rng.random() < 0.15 or tmax < 2) else rng.randint(2, tmax)
    def arg(draw, stationary_p=0.5):
        shape = rng.choice(['scalar', 'T', 'T1'])
        if shape == 'scalar': return ['scalar', draw()]
        v0 = draw()
        vals = [v0] * T if rng.random() < stationary_p else [draw() for _ in range(T)]
        return ['list', ([0.0] + vals) if shape == 'T1' else vals]
    small = T >= 5          # long horizons: narrower demand and spreads keep the exact-rational model evaluation affordable
    kmode = rng.random()
    bigK = 0.35 <= kmode < 0.45 and not small
    if kmode < 0.35: Kd = lambda: 0.0
    elif bigK: Kd = lambda: float(rng.randint(60, 150))       # big K, small h: wide (s,S) band
    else: Kd = lambda: _r(rng, 1, 15 if small else 40)
    c = dict(T=T, h=arg(lambda: _r(rng, 0.5, 1) if bigK else _r(rng, 0.25, 3)), p=arg(lambda: _r(rng, 2, 20)),
             c=(['scalar', 0.0] if rng.random() < 0.25 else arg(lambda: _r(rng, 0, 3))), K=arg(Kd, 0.6),
             gamma=arg(lambda: rng.choice([1.0, 0.9, 0.95]), 0.7), malformed=None, d_spread=4, s_spread=5)
    if T >= 2 and rng.random() < 0.18:
        # fixed cost that jumps up in a later period with cheap holding: c_t y + H_t(y) is not K_t-convex and has a second,
        # deeper dip at a large y (order now for several periods)
        while True:
            Kl = [((0.0 if rng.random() < 0.7 else _r(rng, 0, 1)) if rng.random() < 0.5 else _r(rng, 10, 35)) for _ in range(T)]
            if any(Kl[i] <= 1 and Kl[i + 1] >= 10 for i in range(T - 1)): break
        c['K'] = ['list', ([0.0] + Kl) if rng.random() < 0.5 else Kl]
        c['h'] = ['scalar', _r(rng, 0.75, 1.5)]; c['p'] = ['scalar', _r(rng, 12, 20)]; c['c'] = ['scalar', _r(rng, 0, 0.75)]; c['K_jump'] = True
    tm = rng.random()
    if tm < 0.3: c['hT'], c['pT'] = 0.0, 0.0
    elif tm < 0.6: c['hT'], c['pT'] = _r(rng, 0.25, 3), _r(rng, 2, 20)
    else: c['hT'], c['pT'] = _r(rng, 0, 3), _r(rng, 0, 20)
    dk = rng.random()
    if dk < 0.48:
        c['demand'] = dict(kind='normal', mean=arg(lambda: _r(rng, 3, 8 if small else 12, 2), 0.6), sd=arg(lambda: _r(rng, 1, 1.5 if small else 3, 2), 0.7))
    elif dk < 0.64 or (T == 1 and dk >= 0.78):
        c['demand'] = dict(kind='source', sources=['scalar', gen_source(rng, small)])
    else:
        shape = rng.choice(['T', 'T1'])
        if dk < 0.78: l = [gen_source(rng, small) for _ in range(T)]
        else:
            # period-varying list in which consecutive periods have the SAME mean and sd but a different distribution
            a, b = gen_matched_pair(rng, small)
            while True:
                l = [rng.choice([a, b]) for _ in range(T)]
                if any(l[i] != l[i + 1] for i in range(T - 1)): break
            c['matched'] = True
        c['demand'] = dict(kind='source', sources=['list', ([None] + l) if shape == 'T1' else l])
    if c.get('K_jump') and rng.random() < 0.75:
        c.pop('matched', None)
        c['demand'] = dict(kind='normal', mean=arg(lambda: _r(rng, 6, 8, 2) if small else _r(rng, 8, 12, 2), 0.7), sd=['scalar', rng.choice([1.0, 1.0, 1.25, 1.5])])
    if rng.random() < 0.15: c['d_spread'] = rng.choice([3, 5])
    if rng.random() < 0.15: c['s_spread'] = rng.choice([3, 4, 6])
    if small: c['d_spread'] = 3; c['s_spread'] = rng.choice([3, 4])
    u = rng.random()
    c['IL'] = float(rng.randint(-3, 12)) if u < 0.7 else (_r(rng, -4, 12, 10) if u < 0.93 else float(rng.choice([-60, -45, 400])))
    m = rng.random()
    c['mode'] = 'opt' if m < 0.42 else ('optgrid' if m < 0.70 else 'eval')
    if rng.random() < 0.18:
        # stationary normal instance on which Veinott's conditions for the myopic bounds hold and no truncation binds
        sc = lambda v: ['scalar', v] if rng.random() < 0.5 else ['list', [v] * T]
        c.update(h=sc(_r(rng, 0.25, 3)), p=sc(_r(rng, 4, 20)), c=sc(_r(rng, 0, 2)), K=sc(rng.choice([0.0, _r(rng, 1, 30), _r(rng, 1, 30)])),
                 gamma=sc(rng.choice([1.0, 0.9, 0.95])), mode='opt', d_spread=3 if small else 4, s_spread=4 if small else 5)
        c['demand'] = dict(kind='normal', mean=sc(_r(rng, 6, 8, 2) if small else _r(rng, 8, 12, 2)), sd=sc(_r(rng, 1, 1.5 if small else 2, 2)))
        if norm_list(c['gamma'], T)[T] != 1.0: c['hT'], c['pT'] = 0.0, 0.0
        c['myopic_friendly'] = True; c.pop('matched', None); c.pop('K_jump', None)
    if c.get('K_jump') and c['mode'] == 'eval': c['mode'] = rng.choice(['opt', 'optgrid'])
    if c['mode'] != 'opt':
        lo = -rng.randint(8, 20 if small else 30); c['xr'] = [lo, rng.randint(25, 35 if small else 60)]
        if c['mode'] == 'optgrid' and rng.random() < 0.7: c['xr'][1] = rng.randint(4, 14)     # too small: forces the range doubling
    if c['mode'] == 'eval':
        lo, hi = c['xr']
        def pol():
            k = rng.random()
            if k < 0.4: return dict(type='basestock', S=rng.randint(3, min(24, hi - 1)))
            if k < 0.85:
                S = rng.randint(6, min(24, hi - 1)); return dict(type='sS', s=rng.randint(lo + 2, S - 1), S=S)
            return dict(type='never')
        c['policy'] = [pol() for _ in range(T)] if rng.random() < 0.5 else [pol()] * T
    if rng.random() < malformed_rate:
        k = rng.choice(['T0', 'neg', 'gamma', 'length', 'oul_no_xr', 'oul_outside', 'termneg'])
        c['malformed'] = k
        if k == 'T0': c['T'] = 0
        elif k == 'neg':
            w = rng.choice(['h', 'p', 'c', 'K']); a = c[w]
            c[w] = ['scalar', -1.0] if a[0] == 'scalar' else ['list', a[1][:-1] + [-0.5]]
        elif k == 'gamma': c['gamma'] = ['scalar', rng.choice([0.0, 1.5, -0.5])]
        elif k == 'length': c[rng.choice(['h', 'p', 'c', 'K', 'gamma'])] = ['list', [1.0] * (T + 2)]
        elif k == 'termneg': c[rng.choice(['hT', 'pT'])] = -1.0
        else:
            if c['mode'] != 'eval':
                c['mode'] = 'eval'; c['xr'] = [-15, 35]; c['policy'] = [dict(type='basestock', S=9)] * T
            if k == 'oul_no_xr': c['drop_xr'] = True
            else: c['policy'] = list(c['policy']); c['policy'][rng.randrange(T)] = dict(type='basestock', S=c['xr'][1] + rng.randint(1, 5))
    if T >= 2 and not c['malformed'] and not c.get('K_jump') and not c.get('myopic_friendly'):
        # ~15% of these: demand given as a per-period list mixing None (normal period, mean / sd lists) with DemandSource objects.
        # Drawn from a generator seeded by the case built so far, so that the main sequence of cases of a seed does not depend on it.
        import random
        sub = random.Random(json.dumps(jsonable(c), sort_keys=True))
        if sub.random() < 0.15:
            c.pop('matched', None); c['demand'] = gen_mixed_demand(sub, T, small)
    return c


def gen_myopic_case(rng, tmax, malformed_rate=0.0):
    """second stream: instances on which myopic_bounds makes claims that the DP can test sharply -- normal demand, benign
    discretisation (default spreads, optimisation mode, no terminal cost unless undiscounted), and a PERIOD-VARYING fixed cost:
    rising (K_t < gamma_t K_{t+1}: the optimal policy orders early to dodge the next fixed cost, s_t far above S_underbar_t, and
    s_overbar_t is documented as invalid/None), a single spike, zig-zag, falling, or stationary; rises from barely above
    gamma_t K_{t+1} - K_t = 0 to several periods' worth of holding cost"""
    T = rng.randint(2, max(2, min(tmax, 5)))
    sc = lambda v: ['scalar', v] if rng.random() < 0.5 else ['list', ([0.0] + [v] * T) if rng.random() < 0.4 else [v] * T]
    ls = lambda vals: ['list', ([0.0] + vals) if rng.random() < 0.4 else vals]
    h = _r(rng, 0.5, 2); mean = _r(rng, 8, 20, 2); sd = _r(rng, 1, max(1, min(3, mean / 4)), 2)
    prof = rng.choice(['rise', 'rise', 'rise', 'spike', 'spike', 'zigzag', 'zigzag', 'fall', 'flat', 'barely'])
    big = lambda: _r(rng, 1.5, 4) * h * mean          # a fixed cost worth 1.5 .. 4 periods of holding one period's demand
    if prof == 'rise':
        k0 = rng.choice([0.0, 0.0, _r(rng, 1, 10)]); j = rng.randint(1, T - 1); kb = big()
        Kl = [k0 if t < j else kb + (t - j) * rng.choice([0.0, 0.0, 5.0]) for t in range(T)]
    elif prof == 'spike':
        k0 = rng.choice([0.0, 0.0, _r(rng, 1, 10)]); j = rng.randint(1, T - 1); Kl = [k0] * T; Kl[j] = big()
    elif prof == 'zigzag':
        a, b = rng.choice([0.0, _r(rng, 1, 10)]), big(); f = rng.randint(0, 1); Kl = [b if (t + f) % 2 else a for t in range(T)]
    elif prof == 'fall':
        Kl = sorted([_r(rng, 0, 60) for _ in range(T)], reverse=True)
    elif prof == 'flat':
        Kl = [rng.choice([0.0, _r(rng, 1, 40)])] * T
    else:                                                    # K_t within a hair of gamma_t K_{t+1}, either side
        k0 = _r(rng, 8, 40); Kl = [k0 + t * rng.choice([-0.25, 0.0, 0.25, 1.0]) for t in range(T)]
    gam = rng.choice([1.0, 1.0, 0.9, 0.95])
    c = dict(T=T, h=sc(h), p=sc(_r(rng, 6, 20)), c=sc(rng.choice([0.0, _r(rng, 0, 2)])), K=ls([float(v) for v in Kl]),
             gamma=sc(gam) if rng.random() < 0.7 else ls([rng.choice([1.0, 0.9, 0.95]) for _ in range(T)]),
             malformed=None, d_spread=4, s_spread=5, mode='opt', IL=float(rng.randint(-3, 12)), myopic_stream=prof)
    if rng.random() < 0.3:                                    # mildly period-varying holding / stockout cost
        c['h'] = ls([max(0.25, h + rng.choice([-0.25, 0.0, 0.25])) for _ in range(T)])
    if norm_list(c['gamma'], T)[T] != 1.0 or rng.random() < 0.5: c['hT'], c['pT'] = 0.0, 0.0
    else: c['hT'], c['pT'] = _r(rng, 0, 2), _r(rng, 0, 10)
    if rng.random() < 0.3:                                    # mean drifting by a fraction of a standard deviation
        c['demand'] = dict(kind='normal', mean=ls([mean + rng.choice([-0.5, 0.0, 0.5]) for _ in range(T)]), sd=sc(sd))
    else:
        c['demand'] = dict(kind='normal', mean=sc(mean), sd=sc(sd))
    if rng.random() < 0.25:
        c['mode'] = 'optgrid'; c['xr'] = [-rng.randint(15, 30), rng.randint(10, 40)]      # user range, usually doubled at least once
    return c


# ------------------------------------------------------------------------------------------------
# implementation adapter

def mk_source(spec):
    from stockpyl.demand_source import DemandSource
    return None if spec is None else DemandSource(**spec)


def policy_matrix(c):
    lo, hi = c['xr']; T = c['T']
    m = np.zeros((T + 1, hi - lo + 1))
    for t in range(1, T + 1):
        pol = c['policy'][t - 1]
        for x in range(lo, hi + 1):
            if pol['type'] == 'basestock': y = max(x, pol['S'])
            elif pol['type'] == 'sS': y = pol['S'] if x <= pol['s'] else x
            else: y = x
            m[t, x - lo] = y
    return m


def py_arg(a):
    return a[1] if a[0] == 'scalar' else list(a[1])


def impl_kwargs(c):
    kw = dict(num_periods=c['T'], holding_cost=py_arg(c['h']), stockout_cost=py_arg(c['p']),
              terminal_holding_cost=c['hT'], terminal_stockout_cost=c['pT'], purchase_cost=py_arg(c['c']),
              fixed_cost=py_arg(c['K']), discount_factor=py_arg(c['gamma']), initial_inventory_level=c['IL'],
              d_spread=c['d_spread'], s_spread=c['s_spread'])
    d = c['demand']
    if d['kind'] == 'normal':
        kw['demand_mean'] = py_arg(d['mean']); kw['demand_sd'] = py_arg(d['sd'])
    elif d['kind'] == 'mixed':
        kw['demand_mean'] = py_arg(d['mean']); kw['demand_sd'] = py_arg(d['sd'])
        kw['demand_source'] = [mk_source(x) for x in d['sources'][1]]          # None stays None: a normal period given by mean / sd
    else:
        s = d['sources']
        kw['demand_source'] = mk_source(s[1]) if s[0] == 'scalar' else [mk_source(x) if x is not None else 0 for x in s[1]]
    if c['mode'] in ('optgrid', 'eval') and not c.get('drop_xr'):
        kw['x_range'] = np.array(range(c['xr'][0], c['xr'][1] + 1))
    if c['mode'] == 'eval':
        kw['oul_matrix'] = policy_matrix(c)
    return kw


def call_impl(kw):
    from stockpyl.finite_horizon import finite_horizon_dp
    with warnings.catch_warnings(record=True) as w:
        warnings.simplefilter('always')
        try:
            s, S, tc, cm, om, xr = finite_horizon_dp(**kw)
        except Exception as e:
            return dict(ok=False, kind=exc_kind(e), msg=str(e)[:200])
    return dict(ok=True, s=[int(v) for v in s], S=[float(v) for v in S], total=float(tc), cm=np.array(cm, dtype=float),
                om=np.array(om, dtype=float), xr=[int(v) for v in xr],
                warn=sorted({str(x.message)[:40] for x in w}))


def _snap(v):
    """value snapshot of an argument object (to detect that a call modified what the caller passed in)"""
    if isinstance(v, (list, tuple)): return ('list', tuple(_snap(x) for x in v))
    if isinstance(v, np.ndarray): return ('nd', v.shape, str(v.dtype), v.tobytes() if v.dtype != object else tuple(_snap(x) for x in v.ravel()))
    if hasattr(v, '__dict__'): return ('obj', id(v), repr(sorted((k, repr(x)) for k, x in vars(v).items())))
    return ('val', repr(v))


def call_case(c):
    """the implementation run that the case describes: one call of finite_horizon_dp, or -- when c['prior'] is present -- a call
    SEQUENCE: first a call in which the arguments named in c['prior'] have the prior values, then the call described by the case
    itself with every other argument object (lists, arrays, DemandSource objects) re-used from the first call.  The returned
    record is that of the LAST call; 'modified' lists the arguments whose objects were changed by a call."""
    kw = impl_kwargs(c); modified = []
    def run_(k):
        before = {a: _snap(v) for a, v in k.items()}
        r_ = call_impl(k)
        for a, v in k.items():
            if _snap(v) != before[a] and a not in modified: modified.append(a)
        return r_
    if c.get('prior'):
        kw0 = dict(kw)
        for a, v in c['prior'].items(): kw0[a] = py_arg(v)
        r0 = run_(kw0)
    r = run_(kw)
    r['modified'] = sorted(modified)
    if c.get('prior'): r['prior_ok'] = r0['ok']
    return r


def sequence_oracle(c, r, chk):
    """the result of a call is a function of the arguments of THAT call: the last call of a sequence on shared argument
    objects must equal a single call on freshly built objects (bit for bit: same code, same inputs)"""
    if r.get('modified'): chk.count('caller-argument-object-modified-by-call')
    if not c.get('prior'): return []
    f = call_impl(impl_kwargs(c))
    how = None
    if f['ok'] != r['ok']: how = 'the call after a prior call %s, the same call on fresh objects %s' % tuple('returns' if x['ok'] else 'raises ' + x['kind'] for x in (r, f))
    elif not r['ok']: how = None if f['kind'] == r['kind'] else 'raises %s after a prior call, %s on fresh objects' % (r['kind'], f['kind'])
    elif r['xr'] != f['xr'] or r['cm'].shape != f['cm'].shape: how = 'x_range %d..%d after a prior call, %d..%d on fresh objects' % (r['xr'][0], r['xr'][-1], f['xr'][0], f['xr'][-1])
    elif not (np.array_equal(r['cm'], f['cm']) and np.array_equal(r['om'], f['om']) and r['s'] == f['s'] and r['S'] == f['S'] and r['total'] == f['total']):
        e = np.abs(r['cm'] - f['cm']); i = np.unravel_index(int(e.argmax()), e.shape)
        how = ('(s,S) = (%r, %r), total cost %r after a prior call; (%r, %r), %r on fresh objects; cost_matrix[%d, x=%d] = %r vs %r'
               % (r['s'][1:], r['S'][1:], r['total'], f['s'][1:], f['S'][1:], f['total'], i[0], r['xr'][i[1]], float(r['cm'][i]), float(f['cm'][i])))
    if how is None: return []
    return [('result-depends-on-earlier-call-sharing-argument-objects',
             'a first call with %s = %r, then the call of the case with all other argument objects re-used: %s%s'
             % (', '.join(sorted(c['prior'])), {a: py_arg(v) for a, v in sorted(c['prior'].items())}, how,
                ('; argument objects modified by the calls: %s' % ', '.join(r['modified'])) if r.get('modified') else ''))]


def norm_list(a, T):
    if a[0] == 'scalar': return [0.0] + [a[1]] * T
    l = list(a[1])
    return l if len(l) == T + 1 else [0.0] + l


def tables(c, xr):
    """the implementation's internal tables, recomputed with the same library calls it uses
    (finite_horizon.py:283-299, 315-317, 352-353, 379-380, 416-420, 430-439)"""
    from stockpyl.helpers import ensure_list_for_time_periods
    from stockpyl.demand_source import DemandSource
    from stockpyl.eoq import economic_order_quantity_with_backorders
    import stockpyl.loss_functions as lf
    kw = impl_kwargs(c); T = c['T']
    el = lambda key, default=None: np.array(ensure_list_for_time_periods(kw.get(key, default), T))
    h = el('holding_cost'); p = el('stockout_cost'); cc = el('purchase_cost'); K = el('fixed_cost'); g = el('discount_factor')
    mean = el('demand_mean'); sd = el('demand_sd'); ds = el('demand_source')
    for t in range(1, T + 1):
        if ds[t] is None:
            ds[t] = DemandSource(type='N', mean=mean[t], standard_deviation=sd[t])
        else:
            mean[t] = ds[t].mean or ds[t].demand_distribution.mean()
            sd[t] = ds[t].standard_deviation or ds[t].demand_distribution.std()
    d_spread, s_spread = c['d_spread'], c['s_spread']
    d_min = int(max(0, round(np.min(mean[1:]) - d_spread * np.max(sd[1:]))))
    d_max = int(round(np.max(mean[1:]) + d_spread * np.max(sd[1:])))
    d_range = list(range(d_min, d_max + 1))
    Q = [economic_order_quantity_with_backorders(K[t], h[t], p[t], mean[t])[0] for t in range(1, T + 1)]
    if c['mode'] == 'opt':
        x_min0 = int(round(np.min(mean[1:]) - np.max(mean[1:]) - np.max(sd[1:]) * (s_spread + d_spread)))
        x_max0 = int(round(np.max(mean[1:]) + np.max(Q) + np.max(sd[1:]) * s_spread))
    else:
        x_min0, x_max0 = c['xr']
    prob = [None]; L = [None]
    for t in range(1, T + 1):
        dist = ds[t].demand_distribution
        if ds[t].is_discrete: pr = [dist.pmf(d) for d in d_range]
        else: pr = [dist.cdf(d + 0.5) - dist.cdf(d - 0.5) for d in d_range]
        prob.append([float(v) for v in pr])
        row = []
        for y in range(xr[0], xr[-1] + 1):
            if ds[t].type == 'N': n, n_bar = lf.normal_loss(y, mean[t], sd[t])
            elif ds[t].is_discrete: n, n_bar = lf.discrete_loss(y, ds[t].demand_distribution)
            else: n, n_bar = lf.continuous_loss(y, ds[t].demand_distribution)
            row.append(float(h[t] * n_bar + p[t] * n))
        L.append(row)
    return dict(h=[float(v) for v in h], p=[float(v) for v in p], c=[float(v) for v in cc], K=[float(v) for v in K],
                g=[float(v) for v in g], mean=[float(v) if v is not None else 0.0 for v in mean], sd=[float(v) if v is not None else 0.0 for v in sd], d_min=d_min, d_max=d_max,
                x_min0=x_min0, x_max0=x_max0, prob=prob, L=L, kinds=[None] + [ds[t].type for t in range(1, T + 1)])


# ------------------------------------------------------------------------------------------------
# independent oracle (own distributions, own loss functions, own recursion)

SQ2 = math.sqrt(2.0)
def Phi(z): return 0.5 * math.erfc(-z / SQ2)
def phi(z): return math.exp(-0.5 * z * z) / math.sqrt(2 * math.pi)


def normal_losses(y, m, s):
    z = (y - m) / s
    n = s * (phi(z) - z * (1 - Phi(z))) if z < 5 else s * (phi(z) - z * Phi(-z))
    return n, n + (y - m)            # n(y) = E(D-y)+ ,  nbar(y) = E(y-D)+ = n(y) + y - mean


def spec_of(c, t):
    """('N', mean, sd) or the DemandSource spec of period t"""
    d = c['demand']; T = c['T']
    if d['kind'] == 'normal':
        return dict(type='N', mean=norm_list(d['mean'], T)[t], standard_deviation=norm_list(d['sd'], T)[t])
    s = d['sources']
    if s[0] == 'scalar': return s[1]
    l = s[1]; at = lambda v: v[t] if len(v) == T + 1 else v[t - 1]
    if d['kind'] == 'mixed' and at(l) is None:
        return dict(type='N', mean=at(d['mean'][1]), standard_deviation=at(d['sd'][1]))
    return at(l)


def _pois_pmf(k, m): return math.exp(-m + k * math.log(m) - math.lgamma(k + 1)) if m > 0 else (1.0 if k == 0 else 0.0)
def _nb_pmf(k, n, p): return math.exp(math.lgamma(k + n) - math.lgamma(n) - math.lgamma(k + 1) + n * math.log(p) + k * math.log(1 - p))


class Dist:
    """mean, sd, pmf over the integers used by the DP (pmf for discrete types, cdf(d+.5)-cdf(d-.5) otherwise),
    and the exact one-period expectations E(y-D)+, E(D-y)+ under the specified distribution"""
    def __init__(self, spec):
        self.spec = spec; k = spec['type']; self.kind = k
        if k == 'N': self.mean, self.sd = spec['mean'], spec['standard_deviation']
        elif k == 'P': self.mean, self.sd = spec['mean'], math.sqrt(spec['mean'])
        elif k == 'UD':
            lo, hi = spec['lo'], spec['hi']; self.mean = (lo + hi) / 2; self.sd = math.sqrt(((hi - lo + 1) ** 2 - 1) / 12)
        elif k == 'UC':
            lo, hi = spec['lo'], spec['hi']; self.mean = (lo + hi) / 2; self.sd = (hi - lo) / math.sqrt(12)
        elif k == 'CD':
            xs, ps = spec['demand_list'], spec['probabilities']
            self.mean = sum(x * q for x, q in zip(xs, ps)); self.sd = math.sqrt(sum(q * (x - self.mean) ** 2 for x, q in zip(xs, ps)))
        elif k == 'NB':
            n, p = spec['n'], spec['p']; self.mean = n * (1 - p) / p; self.sd = math.sqrt(n * (1 - p)) / p

    def cell(self, d):
        k, s = self.kind, self.spec
        if k == 'N': return Phi((d + 0.5 - self.mean) / self.sd) - Phi((d - 0.5 - self.mean) / self.sd)
        if k == 'P': return _pois_pmf(d, s['mean']) if d >= 0 else 0.0
        if k == 'UD': return 1.0 / (s['hi'] - s['lo'] + 1) if s['lo'] <= d <= s['hi'] else 0.0
        if k == 'UC':
            lo, hi = s['lo'], s['hi']; cdf = lambda x: min(1.0, max(0.0, (x - lo) / (hi - lo)))
            return cdf(d + 0.5) - cdf(d - 0.5)
        if k == 'CD': return sum(q for x, q in zip(s['demand_list'], s['probabilities']) if x == d)
        if k == 'NB': return _nb_pmf(d, s['n'], s['p']) if d >= 0 else 0.0

    def losses(self, y):
        """(E(D-y)+, E(y-D)+) under the specified distribution (not its normal approximation)"""
        k, s = self.kind, self.spec
        if k == 'N': return normal_losses(y, self.mean, self.sd)
        if k == 'UC':
            lo, hi = s['lo'], s['hi']; w = hi - lo
            n = w / 2 + lo - y if y <= lo else (0.0 if y >= hi else (hi - y) ** 2 / (2 * w))
            return n, n + y - self.mean
        if k in ('P', 'NB'): top = int(self.mean + 14 * self.sd + 20); sup = range(0, top + 1)
        elif k == 'UD': sup = range(s['lo'], s['hi'] + 1)
        else: sup = s['demand_list']
        n = sum(self.cell(d) * (d - y) for d in sup if d > y)
        nb = sum(self.cell(d) * (y - d) for d in sup if d < y)
        return n, nb


def oracle_tables(c, xr):
    T = c['T']; dists = [None] + [Dist(spec_of(c, t)) for t in range(1, T + 1)]
    h = norm_list(c['h'], T); p = norm_list(c['p'], T)
    means = [d.mean for d in dists[1:]]; sds = [d.sd for d in dists[1:]]
    d_min = int(max(0, round(min(means) - c['d_spread'] * max(sds))))
    d_max = int(round(max(means) + c['d_spread'] * max(sds)))
    ys = range(xr[0], xr[-1] + 1)
    g_norm = [None]; g_true = [None]
    for t in range(1, T + 1):
        d = dists[t]
        g_norm.append(np.array([(lambda nn: h[t] * nn[1] + p[t] * nn[0])(normal_losses(y, d.mean, d.sd)) for y in ys]))
        if d.kind == 'N': g_true.append(g_norm[t])
        else: g_true.append(np.array([(lambda nn: h[t] * nn[1] + p[t] * nn[0])(d.losses(y)) for y in ys]))
    return dict(dists=dists, d_min=d_min, d_max=d_max, g_norm=g_norm, g_true=g_true)


def cand_matrix(x_min, n, nextrow, prob, d_min, g, gamma, cpur, Kfix):
    """cand[i, j] = K 1(j>i) + c (j-i) + g(y_j) + gamma sum_d prob(d) next[clamp(y_j - d)]  (inf for j < i); also returns H"""
    nd = len(prob); ys = np.arange(n) + x_min
    idx = np.clip(ys[:, None] - (d_min + np.arange(nd))[None, :], x_min, x_min + n - 1) - x_min
    H = g + gamma * (np.asarray(nextrow)[idx] @ np.asarray(prob))
    diff = np.arange(n)[None, :] - np.arange(n)[:, None]
    cand = np.where(diff > 0, Kfix + cpur * diff, 0.0) + H[None, :]
    cand[diff < 0] = np.inf
    return cand, H


def relgap(a, b):
    return abs(a - b) / max(1e-9, abs(a), abs(b))


def oracle(c, r, chk, extra_eval=True):
    """property monitors on the implementation's own output; returns list of (signature, what)"""
    bad = []; T = c['T']; xr = r['xr']; x_min, x_max = xr[0], xr[-1]; n = len(xr)
    if xr != list(range(x_min, x_max + 1)): return [('x_range-not-contiguous', 'returned x_range %r' % (xr[:5],))]
    cm, om = r['cm'], r['om']
    if cm.shape != (T + 2, n) or om.shape != (T + 1, n):
        return [('shape', 'cost_matrix %r / oul_matrix %r for T=%d, |x_range|=%d' % (cm.shape, om.shape, T, n))]
    ot = oracle_tables(c, xr)
    cc = norm_list(c['c'], T); K = norm_list(c['K'], T); g = norm_list(c['gamma'], T)
    xs = np.arange(x_min, x_max + 1)
    term = c['hT'] * np.maximum(xs, 0) + c['pT'] * np.maximum(-xs, 0)
    if not np.allclose(cm[T + 1], term, rtol=1e-12, atol=1e-12): bad.append(('terminal-row', 'cost_matrix[T+1] is not hT x+ + pT x-'))
    evalmode = c['mode'] == 'eval'
    own = term.copy()          # the oracle's own full recursion
    pricing = None; near = 0
    for t in range(T, 0, -1):
        d = ot['dists'][t]; prob = [d.cell(k) for k in range(ot['d_min'], ot['d_max'] + 1)]
        tol = 1e-7 if d.kind == 'UC' else 1e-9      # continuous_loss integrates numerically between the 1e-10 quantiles
        def bellman_err(gg):
            cand, H = cand_matrix(x_min, n, cm[t + 1], prob, ot['d_min'], gg, g[t], cc[t], K[t])
            if evalmode:
                pol = policy_matrix(c)[t]; j = (pol - x_min).astype(int)
                want = cand[np.arange(n), j]; want = np.where(pol < xs, H[j], want)
            else:
                want = cand.min(axis=1)
            return cand, H, want, np.abs(cm[t] - want) / np.maximum(1e-9, np.abs(want))
        cand, H, want, err = bellman_err(ot['g_true'][t])
        ok = err.max() <= tol
        if not ok:
            i = int(err.argmax())
            if d.kind != 'N' and bellman_err(ot['g_norm'][t])[3].max() <= 1e-9:
                if pricing is None:
                    y = int(np.argmax(np.abs(ot['g_norm'][t] - ot['g_true'][t])))
                    pricing = ('period %d, demand source %s: the cost matrix satisfies the recursion only with the one-period cost h*nbar+p*n of a NORMAL '
                               'distribution (normal_loss(y, mean, sd)); under the specified distribution g(%d) = %.6g, the implementation used %.6g'
                               % (t, d.spec, xs[y], float(ot['g_true'][t][y]), float(ot['g_norm'][t][y])))
            else:
                bad.append(('recursion', 'cost_matrix[%d, x=%d] = %r but the recursion under the specified demand distribution gives %r (max rel err %.3g)'
                            % (t, xs[i], float(cm[t, i]), float(want[i]), float(err.max()))))
        # oul attains the minimum and is the first minimiser
        y = om[t]
        if np.any(y != np.round(y)) or np.any(y > x_max) or np.any(y < x_min) or (not evalmode and np.any(y < xs)):
            bad.append(('oul-range', 'oul_matrix[%d] has an entry that is not an integer in [x, x_max]' % t))
        elif not evalmode and ok:
            j = (y - x_min).astype(int); v = cand[np.arange(n), j]
            if np.max(np.abs(v - cm[t]) / np.maximum(1e-9, np.abs(cm[t]))) > tol:
                i = int(np.argmax(np.abs(v - cm[t])))
                bad.append(('oul-does-not-attain', 'oul_matrix[%d, x=%d] = %d has cost %r, cost_matrix says %r' % (t, xs[i], int(y[i]), float(v[i]), float(cm[t, i]))))
            for i in range(n):
                if j[i] > i:
                    e = cand[i, i:j[i]]; k = int(e.argmin())
                    if e[k] <= v[i]:
                        if relgap(e[k], v[i]) <= 1e-7: near += 1
                        else: bad.append(('oul-not-first-minimiser', 't=%d x=%d: y=%d costs %r <= cost %r of reported y=%d' % (t, xs[i], xs[i + k], float(e[k]), float(v[i]), int(y[i]))))
            if np.any((y == x_max) & (xs < x_max)):
                bad.append(('boundary-not-expanded', 't=%d: optimal order-up-to level equals x_max=%d for some x < x_max but the range was not doubled' % (t, x_max)))
        # (s,S) are those of the matrix
        S_want = float(om[t, 0]); i = 0
        while i + 1 < n and om[t, i + 1] == S_want: i += 1
        s_want = x_min + i
        if r['S'][t] != S_want or r['s'][t] != s_want:
            bad.append(('sS-extraction', 't=%d: reported (s,S)=(%r,%r), matrix gives (%r,%r)' % (t, r['s'][t], r['S'][t], s_want, S_want)))
        # K_t = 0 => s_t = S_t
        if not evalmode and K[t] == 0 and r['s'][t] != r['S'][t] and ok:
            xi = [i for i in range(n) if xs[i] <= r['S'][t] and om[t, i] != r['S'][t]]
            jS = int(r['S'][t] - x_min)
            if xi and all(relgap(cand[i, int(om[t, i] - x_min)], cand[i, jS]) <= 1e-7 for i in xi): near += 1
            else: bad.append(('K=0-but-s<S', 't=%d: fixed cost 0 but s=%r != S=%r' % (t, r['s'][t], r['S'][t])))
        # own recursion (own rows) under the specified distribution
        candO, HO = cand_matrix(x_min, n, own, prob, ot['d_min'], ot['g_true'][t], g[t], cc[t], K[t])
        if evalmode:
            pol = policy_matrix(c)[t]; j = (pol - x_min).astype(int); own = np.where(pol < xs, HO[j], candO[np.arange(n), j])
        else: own = candO.min(axis=1)
        if ok and np.max(np.abs(own - cm[t]) / np.maximum(1e-9, np.abs(own))) > max(1e-8, 10 * tol):
            bad.append(('recursion-compounded', 'period %d: independent full recursion differs from cost_matrix' % t))
    if near:
        with NEAR_LOCK: chk.extra['near_tie_skipped'] = chk.extra.get('near_tie_skipped', 0) + near
    if pricing: bad.append((SIG_PRICING.split('|', 1)[1], pricing))
    # total cost
    il = int(c['IL'])
    if x_min <= il <= x_max:
        if r['total'] != cm[1, il - x_min]: bad.append(('total_cost', 'total_cost %r != cost_matrix[1, IL=%d] %r' % (r['total'], il, float(cm[1, il - x_min]))))
    else:
        chk.count('IL_outside_grid')
    # evaluation mode reproduces optimisation
    if extra_eval and not evalmode and x_min <= 0 <= x_max:
        kw = impl_kwargs(c); kw['oul_matrix'] = om.copy(); kw['x_range'] = np.array(xr)
        r2 = call_impl(kw)
        if not r2['ok']: bad.append(('eval-of-returned-policy-raises-' + r2['kind'], r2['msg']))
        else:
            e = np.abs(r2['cm'] - cm) / np.maximum(1e-9, np.abs(cm))
            if e.max() > 1e-9: bad.append(('eval-does-not-reproduce', 'evaluation of the returned oul_matrix: cost matrix differs (max rel %.3g)' % e.max()))
            if r2['s'] != r['s'] or r2['S'] != r['S']: bad.append(('eval-does-not-reproduce-sS', 'evaluation mode reports other (s,S): %r %r' % (r2['s'], r2['S'])))
    return bad


def myopic_oracle(c, r, tb, chk):
    """every bound that myopic_bounds CLAIMS brackets the optimal level of the DP (to within the grid slack).
    * Veinott's conditions hold on the whole horizon (K_t >= gamma_t K_{t+1}, S_underbar_t <= S_overbar_{t+1}) and the DP's
      discretisation is benign: S_underbar - 1 <= S_t <= S_overbar + 1 and s_underbar - 2 <= s_t <= s_overbar + 2 in every period.
    * They fail in some period (fixed cost that rises, K_t < gamma_t K_{t+1}; demand that drops): what remains a claim is
      checked period by period:
        - S_t <= S_overbar_t + 1 in every period: ordering above S_overbar_t costs G_t(y) - G_t(S_underbar_t) > gamma_t K_{t+1}
          more now and saves at most K_{t+1} later (f_{t+1}(x) <= K_{t+1} + f_{t+1}(y) for x <= y holds with no hypothesis);
        - s_t <= s_overbar_t + 2 in every period in which myopic_bounds REPORTS an s_overbar_t. Documented: None (nan) exactly
          in the periods with K_t - gamma_t K_{t+1} < 0 ("invalid in these cases"), and where K_t >= gamma_t K_{t+1} holds in
          period t the same one-step argument proves the bound, whatever the other periods look like. A number reported in a
          period where the fixed cost rises is a claim like any other and is held against the DP;
        - the lower bounds S_underbar_t - 1 <= S_t, s_underbar_t - 2 <= s_t in the periods t whose tail t..T satisfies
          Veinott's conditions (rows t..T of the DP do not depend on the earlier periods)."""
    from stockpyl.finite_horizon import myopic_bounds
    T = c['T']; bad = []
    if c['mode'] == 'eval' or c['demand']['kind'] != 'normal' or r['warn']: return bad
    g = tb['g']; K = tb['K'] + [0.0]
    if not (g[T] == 1.0 or (c['hT'] == 0 and c['pT'] == 0)): chk.count('myopic=skipped-terminal-discount'); return bad
    d = c['demand']
    try:
        with warnings.catch_warnings():
            warnings.simplefilter('ignore')
            Su, So, su, so = myopic_bounds(T, py_arg(c['h']), py_arg(c['p']), c['hT'], c['pT'], py_arg(c['c']), py_arg(c['K']),
                                           py_arg(d['mean']), py_arg(d['sd']), py_arg(c['gamma']))
    except ValueError as e:
        if 'cost < G_t(S_underbar)' in str(e):
            # every target cost myopic_bounds asks for is G_t(S_underbar) + (a non-negative amount): this message can only be a rounding artefact
            return [('myopic_bounds|spurious-ValueError-cost-below-minimum', 'myopic_bounds raises %r on a valid instance (target costs are G_t(S_underbar) + K_t, + gamma_t K_{t+1}, + K_t - gamma_t K_{t+1} >= 0)' % str(e)[:120])]
        chk.count('myopic=not-applicable-ValueError'); return bad
    except Exception as e:
        return [('myopic_bounds-raises-' + exc_kind(e), str(e)[:200])]
    if any(len(v) != T + 1 for v in (Su, So, su, so)):
        return [('myopic_bounds-shape', 'output arrays of lengths %r for T=%d' % ([len(v) for v in (Su, So, su, so)], T))]
    k_rises = [t for t in range(1, T + 1) if K[t] < g[t] * K[t + 1]]
    unreach = [t for t in range(1, T) if Su[t] > So[t + 1]]
    full = not k_rises and not unreach
    if full: chk.count('myopic=checked'); tag = ''
    elif k_rises: chk.count('myopic=checked-per-period(K_t<gamma_t*K_t+1 in some period)'); tag = '|fixed-cost-rises'
    else: chk.count('myopic=checked-per-period(S_underbar>S_overbar_next)'); tag = '|S_underbar>S_overbar_next'
    for t in range(1, T + 1):
        tail_ok = full or not any(u >= t for u in k_rises + unreach)
        if tail_ok and not (Su[t] - 1 <= r['S'][t]):
            bad.append(('myopic-S-bounds' + tag, 't=%d: S_t=%r outside [S_underbar-1, S_overbar+1] = [%r, %r]' % (t, r['S'][t], float(Su[t] - 1), float(So[t] + 1))))
        elif not (r['S'][t] <= So[t] + 1):
            bad.append(('myopic-S-bounds' + tag, 't=%d: S_t=%r outside [S_underbar-1, S_overbar+1] = [%r, %r]' % (t, r['S'][t], float(Su[t] - 1), float(So[t] + 1))))
        if K[t] == 0 and r['s'][t] != r['S'][t]: continue     # float near-tie artefact, handled (margin rule) by the K=0 monitor
        # s_t is a floor of a level defined through G(S_t) + K with S_t itself rounded to the grid: allow two grid units
        if tail_ok and not (su[t] - 2 <= r['s'][t]):
            bad.append(('myopic-s-bounds' + tag, 't=%d: s_t=%r outside [s_underbar-2, s_overbar+2] = [%r, %r]' % (t, r['s'][t], float(su[t] - 2), float(so[t] + 2))))
        elif not np.isnan(so[t]) and not (r['s'][t] <= so[t] + 2):
            rise = ' (K_t=%r < gamma_t K_{t+1}=%r: documented as None/invalid in such a period, yet a number is reported)' % (K[t], g[t] * K[t + 1]) if t in k_rises else ''
            bad.append(('myopic-s-bounds' + ('|s_overbar-claimed-where-fixed-cost-rises' if t in k_rises else tag),
                        't=%d: s_t=%r outside [s_underbar-2, s_overbar+2] = [%r, %r]%s' % (t, r['s'][t], float(su[t] - 2), float(so[t] + 2), rise)))
        if not full and t in k_rises and np.isnan(so[t]): chk.count('myopic=s_overbar-not-claimed(K rises in t)')
    return bad


# ------------------------------------------------------------------------------------------------
# model side

def model_expr(c, tb, xr):
    T = c['T']; n_final = len(xr); x_min = xr[0]
    ql = lambda rows: clist([cqlist(r if r is not None else []) for r in rows])
    common = '%s %s %s %s %s %s %s %s' % (cz(tb['d_min']), ql(tb['prob']), ql(tb['L']), cqlist(tb['c']), cqlist(tb['K']), cqlist(tb['g']),
                                          cq(c['hT']), cq(c['pT']))
    il = cq(c['IL'])
    if c['mode'] == 'eval':
        um = clist([clist([cz(int(v)) for v in row]) for row in policy_matrix(c)])
        return 'obs_res %s %s %s (fh_dp_eval %s %s %s %s %s)' % (cz(x_min), cnat(n_final), il, cnat(T), cz(x_min), cnat(n_final), common, um)
    n0 = tb['x_max0'] - tb['x_min0'] + 1
    return 'obs_final %s %s (fh_dp_opt 8 %s %s %s %s)' % (cz(x_min), il, cnat(T), cz(tb['x_min0']), cnat(n0), common)


def compare_model(c, r, m, tb, chk):
    """m = parsed model observation"""
    T = c['T']; xr = r['xr']; n = len(xr); x_min = xr[0]
    code, body = m
    if code != 0 or body is None:
        chk.mismatch('model ends with code %r (1 = fuel/abort, 2 = IndexError, 3 = ValueError) but the implementation returned a result' % (code,), c); return
    body = body[1] if (isinstance(body, tuple) and body[0] == 'Some') else body
    if c['mode'] != 'eval':
        mn, body = body
        if mn != n:
            chk.mismatch('model stops the range doubling at |x_range| = %d, implementation at %d' % (mn, n), c); return
    mcost, moul, ms, mS, mtot = body
    for t in range(1, T + 2):
        row = [float(qv(x)) for x in mcost[t - 1]]
        e = np.abs(np.array(row) - r['cm'][t]) / np.maximum(1e-9, np.abs(r['cm'][t]))
        if e.max() > 1e-9:
            i = int(e.argmax())
            chk.mismatch('cost_matrix[%d, x=%d]: model %r vs implementation %r' % (t, xr[i], row[i], float(r['cm'][t, i])), c); return
    for t in range(1, T + 1):
        mo = [int(v) for v in moul[t - 1]]; io = [int(v) for v in r['om'][t]]
        if mo != io:
            # margin rule: a decision may differ when the two candidates are within 1e-7 relative
            cand, _ = cand_matrix(x_min, n, r['cm'][t + 1], tb['prob'][t], tb['d_min'], np.array(tb['L'][t]), tb['g'][t], tb['c'][t], tb['K'][t])
            for i in range(n):
                if mo[i] != io[i]:
                    if relgap(cand[i, mo[i] - x_min], cand[i, io[i] - x_min]) <= 1e-7:
                        with NEAR_LOCK: chk.extra['near_tie_skipped'] = chk.extra.get('near_tie_skipped', 0) + 1
                    else:
                        chk.mismatch('oul_matrix[%d, x=%d]: model %d vs implementation %d' % (t, xr[i], mo[i], io[i]), c); return
        elif [int(v) for v in ms][t - 1] != r['s'][t] or [int(v) for v in mS][t - 1] != int(r['S'][t]):
            chk.mismatch('(s,S) of period %d: model (%r,%r) vs implementation (%r,%r)' % (t, ms[t - 1], mS[t - 1], r['s'][t], r['S'][t]), c); return
    mt = mtot[1] if (isinstance(mtot, tuple) and mtot[0] == 'Some') else mtot
    if mt is None: chk.mismatch('model: IndexError for initial_inventory_level %r, implementation returned %r' % (c['IL'], r['total']), c)
    elif not close(float(qv(mt)), r['total']): chk.mismatch('total_cost: model %r vs implementation %r' % (float(qv(mt)), r['total']), c)


# ------------------------------------------------------------------------------------------------
# myopic bounds: tie of the theorems C12_myopic_* (Alg/FHMyopic_proofs.v) to the implementation
#
# The theorems speak about  fh_opt T xmin n dmin pr L c K g term  on ONE grid.  fh_dp_opt (what model_expr evaluates) is
# fh_restart on (tbll prl) (tbll Ll) (tblq cl) (tblq Kl) (tblq gl) (fh_terminal hT pT), and C12_restart_sound says that its
# result FinOk n' o is a completed pass  fh_opt T xmin n' ... = FHOk o  on the FINAL grid with the same x_min and the same
# tables.  So the arguments of the myopic definitions are: T, xmin = x_range[0], n = |final x_range| (compare_model checks
# that the model ends on the implementation's grid), dmin = d_min, pr = tbll prob, L = tbll L (rows over the final grid),
# c, K, g = tblq of the per-period lists, term = fh_terminal hT pT -- literally the tables `tb` sent to fh_dp_opt.

MY_DEFS = '''Open Scope Z_scope.
Definition my_obs (T : nat) (xmin : Z) (n : nat) (dmin : Z) (prl Ll : list (list Q)) (cl Kl gl : list Q) (hT pT : Q) :=
  let pr := tbll prl in let L := tbll Ll in let c := tblq cl in let K := tblq Kl in let g := tblq gl in
  let term := fh_terminal hT pT in
  (nonneg_okb T pr K g,
   map (fun t => (lower_okb T xmin n dmin pr L c g term t,
                  qobs (SunderQ T xmin n dmin pr L c g term t), qobs (SoverQ T xmin n dmin pr L c K g term t))) (seq 1 T)).
'''
ROOT_TOL = 1e-9       # brentq / norm.ppf are iterative (xtol 2e-12): guard on the float side of the one-grid-unit comparison
TRUNC_WARN = 'Total probability of demand outside dema'      # first 40 characters of finite_horizon_dp's demand-truncation warning


def myopic_model_eligible(c, r):
    """optimisation mode, normal demand, the implementation returned a result: the cases of the first stream on which the
    model's myopic levels are evaluated"""
    return (not c['malformed']) and r.get('ok') and c['mode'] != 'eval' and c['demand']['kind'] == 'normal'


def myopic_model_expr(c, tb, xr):
    ql = lambda rows: clist([cqlist(r if r is not None else []) for r in rows])
    return 'my_obs %s %s %s %s %s %s %s %s %s %s %s' % (cnat(c['T']), cz(xr[0]), cnat(len(xr)), cz(tb['d_min']), ql(tb['prob']), ql(tb['L']),
                                                        cqlist(tb['c']), cqlist(tb['K']), cqlist(tb['g']), cq(c['hT']), cq(c['pT']))


def eval_myopic(items, jobs=8):
    """items: list of (c, r, tb); returns the parsed my_obs values, evaluated in `jobs` coqc processes balanced by estimated cost
    (each Gmy is a sum over the demand table in unreduced rationals: ~ n * nd^2 per scan of the grid, ~ T (T+1) / 2 scans)"""
    from concurrent.futures import ThreadPoolExecutor
    def cost(it):
        c, r, tb = it; nd = tb['d_max'] - tb['d_min'] + 1
        return len(r['xr']) * nd * nd * c['T'] * (c['T'] + 3)
    order = sorted(range(len(items)), key=lambda i: -cost(items[i]))
    bins = [[] for _ in range(min(jobs, len(items)))]; load = [0] * len(bins)
    for i in order:
        b = load.index(min(load)); bins[b].append(i); load[b] += cost(items[i])
    exprs = [myopic_model_expr(c, tb, r['xr']) for c, r, tb in items]
    with ThreadPoolExecutor(max_workers=len(bins)) as ex:
        futs = [ex.submit(coq_eval, 'c12_my%d' % k, 'Alg.FH Alg.FHMyopic_proofs', MY_DEFS, [exprs[i] for i in b], 1700) for k, b in enumerate(bins)]
        out = [None] * len(items)
        for b, fu in zip(bins, futs):
            for i, v in zip(b, fu.result()): out[i] = v
    return out


def impl_myopic_bounds(c):
    """(S_underbar, S_overbar) of stockpyl.finite_horizon.myopic_bounds for the case, or None if it raises / has the wrong shape
    (both are reported / counted by myopic_oracle)"""
    from stockpyl.finite_horizon import myopic_bounds
    d = c['demand']
    try:
        with warnings.catch_warnings():
            warnings.simplefilter('ignore')
            Su, So, _, _ = myopic_bounds(c['T'], py_arg(c['h']), py_arg(c['p']), c['hT'], c['pT'], py_arg(c['c']), py_arg(c['K']),
                                         py_arg(d['mean']), py_arg(d['sd']), py_arg(c['gamma']))
    except Exception:
        return None
    if len(Su) != c['T'] + 1 or len(So) != c['T'] + 1: return None
    return [float(v) for v in Su], [float(v) for v in So]


def myopic_model_compare(c, r, tb, m, mv, chk):
    """m = parsed observation of the DP model (as in compare_model), mv = parsed my_obs = (nonneg_okb, [(lower_okb t, SunderQ t, SoverQ t)]).
    Per period t = 1..T, with SunderQ / SoverQ the MODEL's myopic levels on the final grid:
    (a) hypotheses of the theorems, counted: nonneg_okb && lower_okb t (C12_myopic_lower_bound applies), S_t <> x_min (the DP orders
        in its lowest state), all three (C12_myopic_bracket applies);
    (b) the conclusions of the theorems on the IMPLEMENTATION's S_t, no slack:  S_t <= SoverQ t wherever nonneg_okb (C12_myopic_upper_bound),
        S_t = x_min or SunderQ t <= S_t wherever also lower_okb t (C12_myopic_lower_bound; together C12_myopic_bracket and, when the two
        levels coincide, C12_myopic_policy_exact).  A violation cannot come from the model (theorem): model and implementation differ;
    (c) the outputs S_underbar_t / S_overbar_t of myopic_bounds (continuous roots for the exact normal: an oracle) against the model's
        grid levels:  |S_underbar_t - SunderQ t| <= 1  and  SoverQ t <= S_overbar_t + 1.  The directions S_underbar_t - 1 <= SunderQ t and
        SoverQ t <= S_overbar_t + 1 are exactly the numeric hypothesis of C12_myopic_bracket_for_given_bounds / _upper_half_; the tolerance
        is one grid unit and no more: for a convex G_t sampled on the integers the first grid minimiser is floor or ceil of the continuous
        minimiser y*, and every grid y >= S_overbar_t + 1 has G(y) - G(grid minimum) >= G(S_overbar_t + 1) - G(ceil y*) >=
        G(S_overbar_t) - G(y*) = gamma_t K_{t+1} (increasing differences), so the last grid point under the model's threshold is
        <= S_overbar_t + 1; the model's deviations from the exact normal only help (the table's mass <= 1 lowers the threshold; for
        t < T Gmy differs from G_t on the grid by the linear term gamma_t c_{t+1} ((1 - mass) y - const) with non-negative slope) or
        are far below the half unit of margin left by the rounding while the table holds all but trunc_tol of the mass.
        Compared as a mismatch in the periods where the comparison is meaningful:
          - not period T when the terminal cost is discounted (gamma_T < 1 and hT or pT > 0): myopic_bounds folds the terminal cost
            UNdiscounted into h_T, p_T, the DP (and Gmy T) discounts it -- same exclusion as myopic_oracle, but for period T only;
          - not when finite_horizon_dp itself warned that the demand table loses more than trunc_tol of the mass (d_min = 0 cuts the
            normal): then Gmy (truncated table) and G_t (exact normal) are different functions; the outcome is counted, not judged.
        The reverse direction for the upper level, SoverQ t >= min(S_overbar_t, x_max) - 1, is counted only: a SMALLER model level makes
        the proved bracket sharper, and it legitimately falls short by more than a unit when the table's mass is < 1 and G_t is flat."""
    T = c['T']; xr = r['xr']; x_min, x_max = xr[0], xr[-1]
    code, body = m
    if code != 0 or body is None: return                       # reported by compare_model
    body = body[1] if (isinstance(body, tuple) and body[0] == 'Some') else body
    mn, body = body
    if mn != len(xr): return                                    # reported by compare_model: the theorems are about the model's final grid
    mS = [int(v) for v in body[3]]
    nonneg, rows = mv
    if len(rows) != T:
        chk.mismatch('model: my_obs returns %d periods for T=%d' % (len(rows), T), c); return
    cnt = lambda k: chk.count('myopic_model:' + k)
    cnt('cases'); cnt('cases:nonneg_okb' if nonneg else 'cases:nonneg_okb-false')
    bounds = impl_myopic_bounds(c)
    if bounds is None: cnt('cases:myopic_bounds-raises(levels-not-compared)')
    trunc = TRUNC_WARN in r['warn']
    term_discounted = not (tb['g'][T] == 1.0 or (c['hT'] == 0 and c['pT'] == 0))
    all_hyp = bool(nonneg) and bounds is not None; all_upper = bool(nonneg) and bounds is not None
    for t in range(1, T + 1):
        low, a, b = rows[t - 1]; SuQ, SoQ = qv(a), qv(b); S = r['S'][t]
        cnt('periods')
        orders = mS[t - 1] != x_min
        if nonneg and low: cnt('periods:nonneg_okb&lower_okb(lower-bound-theorem-applies)')
        if orders: cnt('periods:DP-orders-in-lowest-state(S_t!=x_min)')
        bracket_hyp = bool(nonneg and low and orders)
        if bracket_hyp: cnt('periods:all-hypotheses-of-C12_myopic_bracket')
        # (b) conclusions of the theorems, on the implementation's S_t
        if int(S) != mS[t - 1] or S != int(S):
            cnt('periods:S_t-differs-from-model(decided-by-compare_model)')
        elif nonneg:
            if not (S <= SoQ):
                chk.mismatch('period %d: implementation S_t = %r > SoverQ = %s, the model\'s upper myopic level (C12_myopic_upper_bound holds for the model)' % (t, S, SoQ), c)
            if low and not (S == x_min or SuQ <= S):
                chk.mismatch('period %d: implementation S_t = %r < SunderQ = %s although nonneg_okb, lower_okb %d hold and S_t != x_min (C12_myopic_lower_bound holds for the model)' % (t, S, SuQ, t), c)
            if bracket_hyp and SuQ <= S <= SoQ:
                cnt('periods:bracket-SunderQ<=S_t<=SoverQ-confirmed-on-implementation')
                if SuQ == SoQ: cnt('periods:myopic-policy-exact(SunderQ=S_t=SoverQ)')
        # (c) the implementation's myopic_bounds against the model's levels
        if bounds is None: continue
        Su, So = bounds[0][t], bounds[1][t]
        if t == T and term_discounted:
            cnt('periods:levels-not-compared(period-T,terminal-cost-discounted-by-DP-only)'); all_hyp = all_upper = False; continue
        lo_ok = abs(Su - float(SuQ)) <= 1 + ROOT_TOL
        up_ok = float(SoQ) <= So + 1 + ROOT_TOL
        if trunc:
            cnt('periods:demand-table-truncated(warned):levels-' + ('within-one-unit' if lo_ok and up_ok else 'NOT-within-one-unit(counted-only)'))
            if not (Su - 1 - ROOT_TOL <= float(SuQ) and up_ok): all_hyp = False
            if not up_ok: all_upper = False
        else:
            cnt('periods:levels-compared')
            if not lo_ok:
                chk.mismatch('period %d: myopic_bounds S_underbar = %r is not within one grid unit of the model\'s myopic level SunderQ = %s' % (t, Su, SuQ), c); all_hyp = False
            if not up_ok:
                chk.mismatch('period %d: the model\'s upper myopic level SoverQ = %s exceeds myopic_bounds S_overbar + 1 = %r' % (t, SoQ, So + 1), c); all_hyp = all_upper = False
            if lo_ok and up_ok: cnt('periods:levels-within-one-unit')
        cnt('periods:SoverQ>=min(S_overbar,x_max)-1' if float(SoQ) >= min(So, x_max) - 1 - ROOT_TOL else 'periods:SoverQ<min(S_overbar,x_max)-1(counted-only)')
        if not bracket_hyp: all_hyp = False
    if all_upper: cnt('cases:C12_myopic_upper_half_for_given_bounds-applies-to-myopic_bounds-outputs')
    if all_hyp: cnt('cases:C12_myopic_bracket_for_given_bounds-applies-to-myopic_bounds-outputs')


# ------------------------------------------------------------------------------------------------

def eval_balanced(todo, jobs=8):
    """coq_eval over the cases, spread over `jobs` coqc processes by estimated cost (longest-processing-time first)"""
    from concurrent.futures import ThreadPoolExecutor
    def cost(item):
        c, r, tb, _ = item; n = len(r['xr']) if r.get('ok') else c['xr'][1] - c['xr'][0] + 1
        return (n * (tb['d_max'] - tb['d_min'] + 1) * 10 + n * n) * max(1, c['T']) ** 2
    order = sorted(range(len(todo)), key=lambda i: -cost(todo[i]))
    bins = [[] for _ in range(min(jobs, len(todo)))]; load = [0] * len(bins)
    for i in order:
        b = load.index(min(load)); bins[b].append(i); load[b] += cost(todo[i])
    with ThreadPoolExecutor(max_workers=len(bins)) as ex:
        futs = [ex.submit(coq_eval, 'c12_b%d' % k, 'Alg.FH', 'Open Scope Z_scope.', [todo[i][3] for i in b], 1700) for k, b in enumerate(bins)]
        out = [None] * len(todo)
        for b, fu in zip(bins, futs):
            for i, v in zip(b, fu.result()): out[i] = v
    return out


def case_key(c, r):
    return json.dumps(jsonable([c['T'], norm_list(c['h'], c['T'])[1:], norm_list(c['p'], c['T'])[1:], norm_list(c['c'], c['T'])[1:],
                                norm_list(c['K'], c['T'])[1:], norm_list(c['gamma'], c['T'])[1:], c['hT'], c['pT'],
                                [spec_of(c, t) for t in range(1, c['T'] + 1)], r['xr'][0], r['xr'][-1], c['mode'], c.get('policy')]), sort_keys=True)


NEAR_LOCK = __import__('threading').Lock()      # chk.extra['near_tie_skipped'] is updated by the oracle and by the (possibly concurrent) model comparison


def explore(chk, n, tmax, do_model=True, malformed_rate=0.08, gen=None, defer=False):
    """defer=True: the implementation runs and oracles are done on return; the evaluation of the Coq model and its comparison
    (which only wait for coqc processes) are returned as a function to be run by the caller, e.g. in a thread beside the oracle-only streams"""
    cases = [(gen or gen_case)(chk.rng, tmax, malformed_rate) for _ in range(n)]
    todo = []
    for c in cases:
        T = c['T']
        chk.count('T=%d' % T); chk.count('mode=%s' % c['mode']); chk.count('malformed=%s' % c['malformed'])
        r = call_case(c)
        if c['malformed']:
            if r['ok'] or r['kind'] != 'ValueError':
                chk.fail('finite_horizon_dp|malformed-%s-not-ValueError' % c['malformed'], 'malformed input (%s): %r' % (c['malformed'], r.get('kind', 'returned a result')), c)
            if do_model and c['malformed'] == 'oul_outside' and not r['ok']:
                try:
                    xr = list(range(c['xr'][0], c['xr'][1] + 1)); tb = tables(c, xr)
                    todo.append((c, r, tb, model_expr(c, tb, xr)))
                except Exception as e:
                    chk.broken.append(('harness-tables', '%s: %s' % (type(e).__name__, e)))
            chk.case(c, False); continue
        chk.count('demand=%s' % (c['demand']['kind'] if c['demand']['kind'] == 'normal' else ('mixed-None/source:' if c['demand']['kind'] == 'mixed' else '') + '+'.join(sorted({spec_of(c, t)['type'] for t in range(1, T + 1)}))))
        if c['demand']['kind'] == 'mixed': chk.count('demand_list=mixed-None-and-DemandSource(shape %s)' % ('T1' if len(c['demand']['sources'][1]) == T + 1 else 'T'))
        if c.get('prior'): chk.count('call_sequence=prior-call-differs-in:' + '+'.join(sorted(c['prior'])))
        if c.get('lumpy_stream'): chk.count('lumpy_stream=%s,d_min%s0' % (c['lumpy_stream'], '>' if c['lumpy_d_min'] > 0 else '='))
        if c.get('flat_stream'): chk.count('flat_stream:' + c['flat_stream'])
        for k in ('h', 'p', 'c', 'K', 'gamma'):
            chk.count('shape_%s=%s' % (k, c[k][0] if c[k][0] == 'scalar' else ('T1' if len(c[k][1]) == T + 1 else 'T')))
        chk.count('K=0' if all(v == 0 for v in norm_list(c['K'], T)[1:]) else 'K>0')
        if c.get('matched'): chk.count('demand_list=moment-matched-neighbours')
        if c.get('K_jump'): chk.count('K=jump-up-with-cheap-holding')
        if c.get('myopic_stream'): chk.count('myopic_stream_K_profile=%s' % c['myopic_stream'])
        if not r['ok'] and r['kind'] == 'IndexError' and c['IL'] != 0.0:
            # initial_inventory_level outside the grid: cost_matrix[1, int(IL) - x_min] does not exist; the property speaks about the grid only
            c0 = dict(c, IL=0.0); r0 = call_case(c0)
            if r0['ok'] and not (r0['xr'][0] <= int(c['IL']) <= r0['xr'][-1]):
                chk.count('IL_outside_grid_IndexError'); c, r = c0, r0
        for sig, what in sequence_oracle(c, r, chk):
            chk.fail('finite_horizon_dp|' + sig, what, c)
        if not r['ok']:
            sig = 'finite_horizon_dp|raises-%s' % r['kind'] + ('|T=1' if T == 1 else '')
            chk.fail(sig, 'valid input raises %s: %s' % (r['kind'], r['msg']), c); chk.case(c, False); continue
        tb = tables(c, r['xr'])
        if c['mode'] != 'eval' and len(r['xr']) != tb['x_max0'] - tb['x_min0'] + 1: chk.count('range_doubled')
        for sig, what in oracle(c, r, chk) + myopic_oracle(c, r, tb, chk):
            chk.fail('finite_horizon_dp|' + sig, what, c)
        nontriv = T >= 2 and (any(r['s'][t] < r['S'][t] for t in range(1, T + 1)) or len(set(r['S'][1:])) > 1)
        if do_model: todo.append((c, r, tb, model_expr(c, tb, r['xr'])))
        chk.case(c, nontriv, case_key(c, r))
    def model_phase():
        if not (do_model and todo): return
        # the model's myopic levels (Alg/FHMyopic_proofs.v) of the optimisation-mode, normal-demand cases: evaluated concurrently with the DP model
        from concurrent.futures import ThreadPoolExecutor
        my_idx = [i for i, (c, r, tb, _) in enumerate(todo) if myopic_model_eligible(c, r)]
        my_pool = ThreadPoolExecutor(max_workers=1)
        my_fut = my_pool.submit(eval_myopic, [todo[i][:3] for i in my_idx]) if my_idx else None
        res = eval_balanced(todo)
        for (c, r, tb, _), m in zip(todo, res):
            chk.traces += 1
            if c['malformed']:
                if m[0] != 3: chk.mismatch('oul_matrix outside x_range: implementation raises ValueError, model code %r' % (m[0],), c)
                continue
            compare_model(c, r, m, tb, chk)
        if my_fut is not None:
            try:
                my_res = my_fut.result()
            except Exception as e:
                chk.broken.append(('harness-myopic-model-eval', '%s: %s' % (type(e).__name__, str(e)[-600:]))); my_res = None
            if my_res is not None:
                for i, mv in zip(my_idx, my_res):
                    c, r, tb, _ = todo[i]
                    myopic_model_compare(c, r, tb, res[i], mv, chk)
        my_pool.shutdown()
    if defer: return model_phase
    model_phase()


def run(chk):
    chk.rule = RULE
    chk.trusted += ['model Alg/FH.v is hand-written; tied to /repo by comparing cost matrix (1e-9 relative), oul matrix (margin rule), (s,S), total cost and the '
                    'final x-range after range doubling on generated instances',
                    'SciPy distributions (pmf/cdf), loss_functions.normal_loss / discrete_loss / continuous_loss and the EOQB formula enter the model only as input tables recomputed by the harness '
                    'with the same library calls as finite_horizon.py (oracles)',
                    'myopic_bounds (norm.ppf, brentq) is an oracle for the theorems C12_myopic_*: they are about the model\'s own levels SunderQ / SoverQ '
                    '(evaluated in Coq with nonneg_okb, lower_okb t on the tables of the final grid, optimisation-mode normal-demand cases of the first stream); '
                    'the tie is numeric: |S_underbar_t - SunderQ t| <= 1 and SoverQ t <= S_overbar_t + 1 (one grid unit, periods without demand-truncation warning '
                    'and without a discounted terminal cost in period T), and the theorems\' conclusions are re-checked without slack on the implementation\'s S_t '
                    '(input_distribution keys myopic_model:*)']
    chk.assume += ['floating-point rounding is not modelled: theorems are over exact rationals; the model is evaluated on the exact rational values of the '
                   "implementation's float tables and compared within 1e-9 relative",
                   'x_range is a contiguous ascending integer range and user oul_matrix entries are integers (what the function itself returns)']
    chk.extra['near_tie_skipped'] = 0
    chk.proof()
    n, tmax = (40, 4) if chk.tier == 'quick' else (240, 8)
    # first stream: implementation runs and oracles now; the Coq evaluation of the model (coqc processes) and its comparison run in a
    # thread beside the oracle-only streams (which draw from chk.rng after the first stream has drawn all its cases: same cases as sequentially)
    import threading
    model_phase = explore(chk, n, tmax, defer=True); err = []
    def guarded():
        try: model_phase()
        except BaseException as e: err.append(e)
    th = threading.Thread(target=guarded); th.start()
    try:
        run_oracle_streams(chk, tmax)
    finally:
        th.join()
    if err: raise err[0]
    if (chk.broken or chk.mismatches) and not chk.fails:
        explore(chk, 6 * n if chk.tier == 'quick' else n, tmax, do_model=False, malformed_rate=0.03)


def run_oracle_streams(chk, tmax):
    # second stream (oracles only, not compared with the model): period-varying fixed costs on which myopic_bounds' claims are sharp
    explore(chk, 24 if chk.tier == 'quick' else 120, tmax, do_model=False, malformed_rate=0.0, gen=gen_myopic_case)
    q = chk.tier == 'quick'
    # third stream (oracles only): call sequences on shared argument objects
    explore(chk, 8 if q else 60, tmax, do_model=False, malformed_rate=0.0, gen=gen_seq_case)
    # fourth stream (oracles only): discrete demand with mass outside the demand-truncation range, d_min > 0
    explore(chk, 10 if q else 80, tmax, do_model=False, malformed_rate=0.0, gen=gen_lumpy_case)
    # fifth stream (oracles only): tiny fixed cost relative to the cost level, flat myopic cost -- myopic_bounds against the DP
    explore(chk, 4 if q else 16, tmax, do_model=False, malformed_rate=0.0, gen=flat_gen_stratified())


def replay(chk, rp):
    c = rp['case']
    r = call_case(c)
    print('implementation:', jsonable({k: v for k, v in r.items() if k not in ('cm', 'om')}))
    if not c.get('malformed'):
        for sig, what in sequence_oracle(c, r, chk):
            chk.fail('finite_horizon_dp|' + sig, what, c)
    if c.get('malformed'):
        if r['ok'] or r['kind'] != 'ValueError':
            chk.fail('finite_horizon_dp|malformed-%s-not-ValueError' % c['malformed'], 'malformed input not rejected with ValueError', c)
    elif not r['ok']:
        chk.fail('finite_horizon_dp|raises-%s' % r['kind'] + ('|T=1' if c['T'] == 1 else ''), r['msg'], c)
    else:
        tb = tables(c, r['xr'])
        for sig, what in oracle(c, r, chk) + myopic_oracle(c, r, tb, chk):
            chk.fail('finite_horizon_dp|' + sig, what, c)
    chk.case(c)
