"""C11 — Wagner-Whitin: correspondence of Alg/WW.v with stockpyl.wagner_whitin + brute-force oracle."""
import itertools, copy
from fractions import Fraction
import numpy as np
from vlib import *

RULE = ('T in 1..Tmax; holding/fixed/purchase costs as scalar, length-T or length-(T+1) lists with values k/4; integer demands, '
        'first-period demand > 0, later demands zero with prob. 0.25; plus a malformed stream (wrong lengths, negative entries). '
        'non-trivial = the optimal plan places more than one and fewer than T orders; distinct = distinct (T, normalised parameter lists).')


def gen_case(rng, tmax):
    T = rng.randint(1, tmax)
    fractional = rng.random() < 0.4
    def arg(kind, lo, hi, first_pos=False):
        shape = rng.choice(['scalar', 'T', 'T1'])
        def val(i):
            if kind == 'd':
                if i == 0 and first_pos: return rng.randint(1, hi)
                if rng.random() < 0.25: return 0
                # fractional demands (multiples of 1/4, exact in binary64) exercise the order-quantity reconstruction
                return Fraction(rng.randint(1, 4 * hi), 4) if fractional else rng.randint(lo, hi)
            return Fraction(rng.randint(lo, hi), 4)
        if shape == 'scalar' and not (kind == 'd'):
            return ['scalar', val(0)]
        vals = [val(i) for i in range(T)]
        if shape == 'T1':
            return ['list', [Fraction(rng.randint(0, 9))] + vals]
        return ['list', vals]
    c = dict(T=T, h=arg('h', 0, 12), K=arg('K', 0, 2000 if rng.random() < 0.8 else 8), d=arg('d', 0, 60, True),
             c=(['scalar', Fraction(0)] if rng.random() < 0.4 else arg('c', 0, 20)), malformed=None)
    if rng.random() < 0.12:
        which = rng.choice(['h', 'K', 'd', 'c'])
        if rng.random() < 0.5:
            c[which] = ['list', [Fraction(1)] * (T + rng.choice([2, 3]) if T > 1 or rng.random() < .5 else 3)]
            c['malformed'] = 'length'
        else:
            a = c[which]
            if a[0] == 'scalar': c[which] = ['scalar', Fraction(-1, 4)]
            else: a[1][-1] = Fraction(-3)
            c['malformed'] = 'negative'
    return c


def py_arg(a):
    return float(a[1]) if a[0] == 'scalar' else [float(x) for x in a[1]]


def coq_arg(a):
    return '(TPScalar %s)' % cq(a[1]) if a[0] == 'scalar' else '(TPList %s)' % cqlist(a[1])


def run_impl(c):
    from stockpyl.wagner_whitin import wagner_whitin
    try:
        args = [py_arg(c['h']), py_arg(c['K']), py_arg(c['d']), py_arg(c['c'])]
        before = copy.deepcopy(args)
        oq, cost, theta, nxt = wagner_whitin(c['T'], *args)
        r = ('ok', [F(x) for x in oq], F(cost), [F(x) for x in theta], [int(x) for x in nxt])
        # the caller's arguments are inputs, not scratch space: unchanged after the call, and a second call with the SAME objects gives the same answer
        if args != before:
            return ('mutated', 'arguments (h, K, d, c) before the call %r, after the call %r' % (before, args))
        oq2, cost2, theta2, nxt2 = wagner_whitin(c['T'], *args)
        r2 = ('ok', [F(x) for x in oq2], F(cost2), [F(x) for x in theta2], [int(x) for x in nxt2])
        if r2 != r:
            return ('unstable', 'first call %r, second call with the same argument objects %r' % (jsonable(r[1:3]), jsonable(r2[1:3])))
        return r
    except Exception as e:
        return ('err', exc_kind(e), str(e)[:200])


def norm(a, T):
    if a[0] == 'scalar': return [Fraction(0)] + [a[1]] * T
    l = list(a[1])
    return l if len(l) == T + 1 else [Fraction(0)] + l


def oracle(c, r):
    """property monitors on the implementation's own output; returns list of (signature, what)"""
    T = c['T']; h = norm(c['h'], T); K = norm(c['K'], T); d = norm(c['d'], T); cc = norm(c['c'], T)
    _, oq, cost, theta, nxt = r
    bad = []
    def seg(t, s):
        return K[t] + sum(cc[t] * d[i] + h[t] * (i - t) * d[i] for i in range(t, s))
    # feasibility
    cum_o = cum_d = Fraction(0)
    for t in range(1, T + 1):
        cum_o += oq[t]; cum_d += d[t]
        if cum_o < cum_d: bad.append(('backorder', 'cumulative orders %s < cumulative demand %s in period %d' % (cum_o, cum_d, t)))
    if cum_o != cum_d: bad.append(('leftover', 'total ordered %s != total demand %s' % (cum_o, cum_d)))
    # orders only at pointer-chain periods, cost of exactly that plan
    chain = []; t = 1
    while t <= T and len(chain) <= T:
        chain.append(t)
        if not (t < nxt[t] <= T + 1):
            bad.append(('pointer', 'next_order_periods[%d]=%s not in (t, T+1]' % (t, nxt[t]))); break
        t = nxt[t]
    for t in range(1, T + 1):
        if oq[t] != 0 and t not in chain: bad.append(('off-chain-order', 'order %s in period %d which is not on the pointer chain' % (oq[t], t)))
    if not bad:
        pc = sum(seg(t, nxt[t]) for t in chain)
        if pc != cost: bad.append(('cost-of-plan', 'reported cost %s != cost %s of the returned plan' % (cost, pc)))
        for t in chain:
            if oq[t] != sum(d[t:nxt[t]]): bad.append(('order-qty', 'order in %d is %s, plan needs %s' % (t, oq[t], sum(d[t:nxt[t]]))))
    # DP recursion
    if theta[T + 1] != 0: bad.append(('theta-terminal', 'theta[T+1] = %s' % theta[T + 1]))
    for t in range(1, T + 1):
        m = min(seg(t, s) + theta[s] for s in range(t + 1, T + 2))
        if theta[t] != m: bad.append(('recursion', 'theta[%d]=%s but min over s is %s' % (t, theta[t], m)))
    # optimality vs every subset of ordering periods containing 1
    if T <= 13:
        best = None
        for mask in range(1 << (T - 1)):
            per = [1] + [i + 2 for i in range(T - 1) if mask >> i & 1] + [T + 1]
            v = sum(seg(per[i], per[i + 1]) for i in range(len(per) - 1))
            if best is None or v < best: best = v
        if best != cost: bad.append(('not-optimal', 'reported cost %s, cheapest plan costs %s' % (cost, best)))
    return bad


def explore(chk, n, tmax, do_model=True):
    cases = [gen_case(chk.rng, tmax) for _ in range(n)]
    impl = [run_impl(c) for c in cases]
    exprs = []
    for c in cases:
        exprs.append('option_map (fun o => (map qobs (ww_oq o), qobs (ww_cost o), map qobs (ww_theta o), ww_next o)) '
                     '(wagner_whitin %s %s %s %s %s)' % (cnat(c['T']), coq_arg(c['h']), coq_arg(c['K']), coq_arg(c['d']), coq_arg(c['c'])))
    model = coq_eval_sharded('c11', 'Alg.WW', '', exprs) if do_model else [None] * n
    for c, r, m in zip(cases, impl, model):
        T = c['T']
        key = json.dumps(jsonable([T, norm(c['h'], T)[1:], norm(c['K'], T)[1:], norm(c['d'], T)[1:], norm(c['c'], T)[1:]])) if not c['malformed'] else None
        nontriv = False
        chk.count('T=%d' % T); chk.count('malformed=%s' % c['malformed'])
        for k in 'hKdc': chk.count('shape_%s=%s' % (k, c[k][0] if c[k][0] == 'scalar' else ('T1' if len(c[k][1]) == T + 1 else 'T')))
        if c['malformed']:
            # documented: ValueError
            if r[0] != 'err' or r[1] != 'ValueError':
                chk.fail('wagner_whitin|malformed-%s-accepted' % c['malformed'], 'malformed input (%s) not rejected with ValueError: %r' % (c['malformed'], r[:2]), c)
            if do_model and m is not None:
                chk.mismatch('model rejects (None) but got %r' % (m,), c)
            chk.case(c, False); continue
        if r[0] in ('mutated', 'unstable'):
            chk.fail('wagner_whitin|%s' % ('mutates-its-arguments' if r[0] == 'mutated' else 'second-call-differs'), r[1], c)
            chk.case(c, False); continue
        if r[0] == 'err':
            chk.fail('wagner_whitin|raises-%s' % r[1], 'valid input raises %s: %s' % (r[1], r[2]), c)
            chk.case(c, False); continue
        bad = oracle(c, r)
        for sig, what in bad:
            chk.fail('wagner_whitin|' + sig, what, c)
        norders = sum(1 for x in r[1][1:] if x != 0)
        nontriv = 1 < norders < T
        if do_model:
            chk.traces += 1
            if m is None:
                chk.mismatch('model returns None (ValueError) but implementation returned a plan', c)
            else:
                mo = ('Some',) if False else m
                moq, mcost, mth, mnx = mo[1] if (isinstance(mo, tuple) and mo[0] == 'Some') else mo
                moq = [qv(x) for x in moq]; mth = [qv(x) for x in mth]; mcost = qv(mcost)
                if moq != r[1] or mcost != r[2] or mth != r[3] or list(mnx) != r[4]:
                    chk.mismatch('model %r vs implementation %r' % (jsonable((moq, mcost, mth, mnx)), jsonable(r[1:])), c)
        chk.case(c, nontriv, key)


def run(chk):
    chk.rule = RULE
    chk.trusted += ['model Alg/WW.v is hand-written; tied to /repo by exact comparison of all four outputs (order quantities, cost, theta, next pointers) on generated instances']
    chk.assume += ['floating-point rounding is not modelled: theorems are over exact rationals; generated inputs are integers or multiples of 1/4 so that every float operation of the implementation is exact']
    chk.proof()
    n, tmax = (150, 8) if chk.tier == 'quick' else (3000, 12)
    explore(chk, n, tmax)
    if (chk.broken or chk.mismatches) and not chk.fails:
        # directed search for a failing input: larger budget, oracle only
        explore(chk, 10 * n if chk.tier == 'quick' else 2 * n, min(tmax + 2, 12), do_model=False)


def replay(chk, rp):
    c = rp['case']
    def fix(a): return [a[0], Fraction(a[1]) if a[0] == 'scalar' else [Fraction(x) for x in a[1]]]
    for k in 'hKdc': c[k] = fix(c[k])
    r = run_impl(c)
    print('implementation:', jsonable(r))
    if r[0] in ('mutated', 'unstable'):
        chk.fail('wagner_whitin|%s' % ('mutates-its-arguments' if r[0] == 'mutated' else 'second-call-differs'), r[1], c)
    elif r[0] == 'ok':
        for sig, what in oracle(c, r):
            chk.fail('wagner_whitin|' + sig, what, c)
    elif not c.get('malformed'):
        chk.fail('wagner_whitin|raises-%s' % r[1], r[2], c)
    chk.case(c)
