"""C11 — Wagner-Whitin: correspondence of Alg/WW.v with stockpyl.wagner_whitin + brute-force oracle."""
import itertools, copy, random
from fractions import Fraction
import numpy as np
from vlib import *

RULE = ('T in 1..Tmax; holding/fixed/purchase costs as scalar, length-T or length-(T+1) lists with values k/4; integer demands, '
        'first-period demand > 0, later demands zero with prob. 0.25; plus a malformed stream (wrong lengths, negative entries). '
        'Regimes (independent flags): "integer" = all data integer-valued (prob. 0.4); "expensive" = a purchase cost B or B + k/4 with '
        'B = m*10^e, e in 3..10, the same (up to k/4) in every period, so that plans differ by a tiny FRACTION of the total cost (prob. 0.2); '
        '"bulk" = demands multiplied by 100 or 500 (prob. 0.25). Every argument is passed in one of the accepted number forms: python '
        'float(s), python int(s) (integer-valued data only), or for lists a numpy array of dtype float64/float32/int8/uint8/int16/uint16/'
        'int32/int64 (only dtypes that hold every entry exactly). All magnitudes stay below 2^53/16 so that the implementation computes exactly. '
        'non-trivial = the optimal plan places more than one and fewer than T orders; distinct = distinct (T, normalised parameter lists). '
        'CALL SEQUENCES (every well-formed case, choices drawn from a per-case seed taken from the run\'s generator): the raw returned objects of a call '
        'are kept by the caller; (1) a call on another horizon (one period appended / dropped) is interleaved; (2) 2-3 rounds of: the caller edits '
        'the list/array objects of its latest result IN PLACE (round lots up to packs of 24 / zero / +1 / reverse / scale; fill / += / negate / '
        'overwrite theta[1]), then calls again with the SAME data handed over as the same argument objects, as fresh objects in a re-drawn parameter '
        'form (scalar where all periods agree, length-T, length-(T+1) with another slot 0, another number form), or as length-(T+1) float lists: '
        'all four outputs must equal those of the first call; (3) the caller edits one of its ARGUMENT containers in place (swap two periods, +1 in '
        'one period, or another value in the ignored slot 0 of a length-(T+1) list) and calls with the same objects: the result must satisfy every '
        'clause of the property for the edited data. After every call and every edit all results obtained earlier must still hold what the caller '
        'left in them, the arguments must be unchanged by edits of results, and the containers of one result must not change together.')

INT_DTYPES = {'i8': (-2**7, 2**7 - 1), 'u8': (0, 2**8 - 1), 'i16': (-2**15, 2**15 - 1), 'u16': (0, 2**16 - 1),
              'i32': (-2**31, 2**31 - 1), 'i64': (-2**63, 2**63 - 1)}
NP_DTYPE = {'i8': np.int8, 'u8': np.uint8, 'i16': np.int16, 'u16': np.uint16, 'i32': np.int32, 'i64': np.int64, 'f32': np.float32, 'f64': np.float64}


def allowed_forms(a):
    """number forms in which the argument can be passed without changing any value: (float-like forms, int-like forms)"""
    vals = [a[1]] if a[0] == 'scalar' else list(a[1])
    fl = ['float']; it = []
    if a[0] == 'list':
        fl.append('f64')
        if all(F(float(np.float32(float(v)))) == v for v in vals): fl.append('f32')
    if all(v.denominator == 1 for v in vals):
        it.append('int')
        if a[0] == 'list':
            it += [k for k, (lo, hi) in INT_DTYPES.items() if all(lo <= v <= hi for v in vals)]
    return fl, it


def gen_case(rng, tmax):
    T = rng.randint(1, tmax)
    fractional = rng.random() < 0.4
    integer = rng.random() < 0.4          # all data integer-valued: python ints and integer numpy dtypes become possible forms
    expensive = rng.random() < 0.2        # an expensive item: every plan's cost is dominated by the same purchase amount
    bulk = rng.choice([100, 500]) if rng.random() < 0.25 else 1
    if integer: fractional = False
    def arg(kind, lo, hi, first_pos=False):
        shape = rng.choice(['scalar', 'T', 'T1'])
        def val(i):
            if kind == 'd':
                if i == 0 and first_pos: return bulk * rng.randint(1, hi)
                if rng.random() < 0.25: return 0
                # fractional demands (multiples of 1/4, exact in binary64) exercise the order-quantity reconstruction
                return bulk * (Fraction(rng.randint(1, 4 * hi), 4) if fractional else rng.randint(lo, hi))
            if integer: return Fraction(rng.randint(lo, (hi + 3) // 4))
            return Fraction(rng.randint(lo, hi), 4)
        if shape == 'scalar' and not (kind == 'd'):
            return ['scalar', val(0)]
        vals = [val(i) for i in range(T)]
        if shape == 'T1':
            return ['list', [Fraction(rng.randint(0, 9))] + vals]
        return ['list', vals]
    c = dict(T=T, h=arg('h', 0, 12), K=arg('K', 0, 2000 if rng.random() < 0.8 else 8), d=arg('d', 0, 60, True),
             c=(['scalar', Fraction(0)] if rng.random() < 0.4 else arg('c', 0, 20)), malformed=None)
    if expensive:
        # total cost ~ B * total demand, differences between plans ~ K, h*d: relative gaps down to ~1e-12, all still exact
        # (B * sum(d) * 16 < 2^53: sum(d) <= 12*60*bulk)
        B = rng.randint(1, 9) * 10 ** rng.randint(3, 10 if bulk == 1 else 7)
        wobble = (lambda: Fraction(0)) if rng.random() < 0.5 else (lambda: Fraction(rng.randint(0, 8), 1 if integer else 4))
        shape = rng.choice(['scalar', 'T', 'T1'])
        if shape == 'scalar': c['c'] = ['scalar', Fraction(B)]
        else: c['c'] = ['list', ([Fraction(rng.randint(0, 9))] if shape == 'T1' else []) + [B + wobble() for _ in range(T)]]
    if rng.random() < 0.12:
        which = rng.choice(['h', 'K', 'd', 'c'])
        if rng.random() < 0.5:
            c[which] = ['list', [Fraction(1)] * (T + rng.choice([2, 3]) if T > 1 or rng.random() < .5 else 3)]
            c['malformed'] = 'length'
        else:
            a = c[which]
            if a[0] == 'scalar': c[which] = ['scalar', Fraction(-1, 4)]
            else: a[1][-1] = Fraction(-3)
            c['malformed'] = 'negative'
    # the form in which each argument is handed over (values unchanged)
    c['form'] = {}
    for k in 'hKdc':
        fl, it = allowed_forms(c[k])
        if it and rng.random() < 0.75: c['form'][k] = rng.choice(it)
        elif rng.random() < 0.5: c['form'][k] = 'float'
        else: c['form'][k] = rng.choice(fl)
    c['regime'] = dict(integer=integer, expensive=expensive, bulk=bulk)
    c['session'] = rng.getrandbits(32)    # seed of the call sequence played on this instance (see session())
    return c


def py_arg(a, form='float'):
    if form == 'float':
        return float(a[1]) if a[0] == 'scalar' else [float(x) for x in a[1]]
    if form == 'int':
        return int(a[1]) if a[0] == 'scalar' else [int(x) for x in a[1]]
    if form in ('f32', 'f64'):
        return np.array([float(x) for x in a[1]], dtype=NP_DTYPE[form])
    return np.array([int(x) for x in a[1]], dtype=NP_DTYPE[form])


def py_args(c, canonical=False):
    if canonical:
        return [[0.0] + [float(x) for x in norm(c[k], c['T'])[1:]] for k in 'hKdc']
    form = c.get('form') or {}
    return [py_arg(c[k], form.get(k, 'float')) for k in 'hKdc']


def same_args(a, b):
    for x, y in zip(a, b):
        if isinstance(x, np.ndarray) or isinstance(y, np.ndarray):
            if not (isinstance(x, np.ndarray) and isinstance(y, np.ndarray) and x.dtype == y.dtype and x.shape == y.shape and np.array_equal(x, y)): return False
        elif type(x) is not type(y) or x != y or (isinstance(x, list) and [type(v) for v in x] != [type(v) for v in y]):
            return False
    return True


def coq_arg(a):
    return '(TPScalar %s)' % cq(a[1]) if a[0] == 'scalar' else '(TPList %s)' % cqlist(a[1])


def call_impl(T, args):
    from stockpyl.wagner_whitin import wagner_whitin
    oq, cost, theta, nxt = wagner_whitin(T, *args)
    return ('ok', [F(x) for x in oq], F(cost), [F(x) for x in theta], [int(x) for x in nxt])


def run_impl(c):
    try:
        args = py_args(c)
        before = copy.deepcopy(args)
        r = call_impl(c['T'], args)
        # the caller's arguments are inputs, not scratch space: unchanged after the call, and a second call with the SAME objects gives the same answer
        if not same_args(args, before):
            return ('mutated', 'arguments (h, K, d, c) before the call %r, after the call %r' % (before, args))
        r2 = call_impl(c['T'], args)
        if r2 != r:
            return ('unstable', 'first call %r, second call with the same argument objects %r' % (jsonable(r[1:3]), jsonable(r2[1:3])))
        return r
    except Exception as e:
        return ('err', exc_kind(e), str(e)[:200])


def forms_oracle(c, r):
    """the same instance handed over as four length-(T+1) lists of python floats (slot 0 = 0) must give the same four outputs"""
    try:
        rc = call_impl(c['T'], py_args(c, canonical=True))
    except Exception as e:
        rc = ('err', exc_kind(e), str(e)[:200])
    if rc[0] == 'ok' and (rc[1][1:], rc[2], rc[3][1:], rc[4][1:]) == (r[1][1:], r[2], r[3][1:], r[4][1:]):
        return []
    form = c.get('form') or {}
    return [('parameter-forms-differ', 'passed as %s: Q=%r cost=%r next=%r; the same values passed as length-(T+1) float lists: %r' % (
        {k: (c[k][0] if c[k][0] == 'scalar' else 'list[%d]' % len(c[k][1])) + ':' + form.get(k, 'float') for k in 'hKdc'},
        jsonable(r[1]), jsonable(r[2]), r[4], jsonable(rc[1:3]) if rc[0] == 'ok' else rc))]


def norm(a, T):
    if a[0] == 'scalar': return [Fraction(0)] + [a[1]] * T
    l = list(a[1])
    return l if len(l) == T + 1 else [Fraction(0)] + l


def oracle(c, r):
    """property monitors on the implementation's own output; returns list of (signature, what)"""
    T = c['T']; h = norm(c['h'], T); K = norm(c['K'], T); d = norm(c['d'], T); cc = norm(c['c'], T)
    _, oq, cost, theta, nxt = r
    bad = []
    def seg(t, s):
        return K[t] + sum(cc[t] * d[i] + h[t] * (i - t) * d[i] for i in range(t, s))
    # feasibility
    cum_o = cum_d = Fraction(0)
    for t in range(1, T + 1):
        cum_o += oq[t]; cum_d += d[t]
        if cum_o < cum_d: bad.append(('backorder', 'cumulative orders %s < cumulative demand %s in period %d' % (cum_o, cum_d, t)))
    if cum_o != cum_d: bad.append(('leftover', 'total ordered %s != total demand %s' % (cum_o, cum_d)))
    # orders only at pointer-chain periods, cost of exactly that plan
    chain = []; t = 1
    while t <= T and len(chain) <= T:
        chain.append(t)
        if not (t < nxt[t] <= T + 1):
            bad.append(('pointer', 'next_order_periods[%d]=%s not in (t, T+1]' % (t, nxt[t]))); break
        t = nxt[t]
    for t in range(1, T + 1):
        if oq[t] != 0 and t not in chain: bad.append(('off-chain-order', 'order %s in period %d which is not on the pointer chain' % (oq[t], t)))
    if not bad:
        pc = sum(seg(t, nxt[t]) for t in chain)
        if pc != cost: bad.append(('cost-of-plan', 'reported cost %s != cost %s of the returned plan' % (cost, pc)))
        for t in chain:
            if oq[t] != sum(d[t:nxt[t]]): bad.append(('order-qty', 'order in %d is %s, plan needs %s' % (t, oq[t], sum(d[t:nxt[t]]))))
    # DP recursion
    if theta[T + 1] != 0: bad.append(('theta-terminal', 'theta[T+1] = %s' % theta[T + 1]))
    for t in range(1, T + 1):
        m = min(seg(t, s) + theta[s] for s in range(t + 1, T + 2))
        if theta[t] != m: bad.append(('recursion', 'theta[%d]=%s but min over s is %s' % (t, theta[t], m)))
    # optimality vs every subset of ordering periods containing 1
    if T <= 13:
        best = None
        for mask in range(1 << (T - 1)):
            per = [1] + [i + 2 for i in range(T - 1) if mask >> i & 1] + [T + 1]
            v = sum(seg(per[i], per[i + 1]) for i in range(len(per) - 1))
            if best is None or v < best: best = v
        if best != cost: bad.append(('not-optimal', 'reported cost %s, cheapest plan costs %s' % (cost, best)))
    return bad


# ---- call sequences: results are values owned by the caller --------------------------------------------------------------------
# Every clause of the property is about "the order quantities / cost / costs-to-go / pointers RETURNED" by a call. What the caller did
# with the objects it got from EARLIER calls (or with its own argument containers after a call returned) is not an input of a later
# call, and a later call is not allowed to reach back into what was returned before.

def raw_call(T, args):
    from stockpyl.wagner_whitin import wagner_whitin
    return wagner_whitin(T, *args)


def conv(res):
    """what the four returned objects hold right now, as python floats (the entries are binary64 values or integers below 2^53, so float() loses
    nothing; exact rationals are made from these only where an oracle needs them)"""
    oq, cost, theta, nxt = res
    return ([float(x) for x in oq], float(cost), [float(x) for x in theta], [float(x) for x in nxt])


def as_result(got):
    return ('ok', [F(x) for x in got[0]], F(got[1]), [F(x) for x in got[2]], [int(x) for x in got[3]])


def pick_form(a, rng):
    fl, it = allowed_forms(a)
    if it and rng.random() < 0.75: return rng.choice(it)
    if rng.random() < 0.5: return 'float'
    return rng.choice(fl)


def reform(c, rng):
    """the same instance (equal values in periods 1..T) in freshly drawn parameter shapes and number forms"""
    T = c['T']; c2 = dict(T=T, malformed=None, form={})
    for k in 'hKdc':
        vals = norm(c[k], T)[1:]
        shapes = ['T', 'T1'] + (['scalar'] if all(v == vals[0] for v in vals) else [])
        sh = rng.choice(shapes)
        c2[k] = ['scalar', vals[0]] if sh == 'scalar' else ['list', ([Fraction(rng.randint(0, 9))] if sh == 'T1' else []) + list(vals)]
        c2['form'][k] = pick_form(c2[k], rng)
    return c2


def other_horizon(c, rng):
    """another instance on a horizon one period longer or shorter (length-T float lists)"""
    T = c['T']
    kind = rng.choice(['longer', 'shorter'] if T >= 2 else ['longer'])
    v = dict(T=T + 1 if kind == 'longer' else T - 1, malformed=None, form={})
    for k in 'hKdc':
        vals = norm(c[k], T)[1:]
        vals = vals + [vals[rng.randrange(T)] + (1 if k == 'd' else 0)] if kind == 'longer' else vals[:-1]
        v[k] = ['list', vals]
    return kind, v


LIST_EDITS = ['packs-of-24', 'zero', 'plus-1', 'reverse', 'times-3']
ARRAY_EDITS = ['fill-0', 'plus-1', 'negate', 'slot-1:=0']

def edit_result_container(o, rng):
    """in-place edit of a list / ndarray the caller received; returns the name of the edit (None: not an editable container)"""
    if isinstance(o, np.ndarray):
        if not o.flags.writeable or o.size == 0: return None
        before = o.copy(); op = rng.choice(ARRAY_EDITS)
        if op == 'fill-0': o.fill(0)
        elif op == 'negate': np.negative(o, out=o)
        elif op == 'slot-1:=0' and o.size > 1: o[1] = 0
        else: op = 'plus-1'
        if op == 'plus-1' or np.array_equal(before, o):
            o += 1; op = op if op == 'plus-1' else op + ',plus-1'
        return op
    if isinstance(o, list):
        if not o: return None
        before = list(o); op = rng.choice(LIST_EDITS)
        if op == 'packs-of-24':
            for t in range(len(o)):
                if o[t] > 0: o[t] = -(-o[t] // 24) * 24
        elif op == 'zero':
            for t in range(len(o)): o[t] = 0
        elif op == 'reverse': o.reverse()
        elif op == 'times-3':
            for t in range(len(o)): o[t] = o[t] * 3
        if op == 'plus-1' or [float(x) for x in before] == [float(x) for x in o]:
            for t in range(len(o)): o[t] = o[t] + 1
            op = op if op == 'plus-1' else op + ',plus-1'
        return op
    return None


def edit_argument(c, args, rng):
    """in-place edit of one argument container; returns (description, the instance the arguments now describe) or None"""
    T = c['T']; form = c.get('form') or {}
    cand = [(k, j) for j, k in enumerate('hKdc') if c[k][0] == 'list']
    rng.shuffle(cand)
    for k, j in cand:
        l = c[k][1]; off = 1 if len(l) == T + 1 else 0       # period t lives in l[t - 1 + off]
        ops = ['swap', 'plus-1'] + (['slot-0'] if off else [])
        rng.shuffle(ops)
        for op in ops:
            c2 = copy.deepcopy(c); l2 = c2[k][1]
            if op == 'swap':
                pairs = [(a, b) for a in range(off, len(l)) for b in range(a + 1, len(l)) if l[a] != l[b]
                         and not (k == 'd' and a == off and l[b] == 0)]
                if not pairs: continue
                a, b = rng.choice(pairs)
                l2[a], l2[b] = l2[b], l2[a]
                if form.get(k, 'float') not in sum(allowed_forms(c2[k]), []): continue
                args[j][a], args[j][b] = args[j][b], args[j][a]
                return ('%s: periods %d and %d swapped' % (k, a + 1 - off, b + 1 - off), c2)
            a = 0 if op == 'slot-0' else rng.randrange(off, len(l))
            l2[a] = l2[a] + 1
            if form.get(k, 'float') not in sum(allowed_forms(c2[k]), []): continue
            args[j][a] = args[j][a] + 1
            return (('%s: ignored slot 0 of the length-(T+1) list +1' % k) if op == 'slot-0' else '%s: period %d +1' % (k, a + 1 - off), c2)
    return None


def session(c, r):
    """plays the call sequence described in RULE on a well-formed instance whose single call returned r; returns (findings, histogram labels)"""
    rng = random.Random(c['session'])
    T = c['T']; bad = []; labels = []; log = []
    def found(sig, what):
        bad.append((sig, '%s. Call sequence: %s' % (what, '; '.join(log))))
    held = []      # [name, raw result, what the caller left in it]
    def check_held(when, skip=None):
        for hd in held:
            if hd is skip: continue
            now = conv(hd[1])
            if now != hd[2]:
                found('earlier-result-changed', 'the objects returned by %s held %r and hold %r %s' % (hd[0], jsonable(hd[2]), jsonable(now), when))
                hd[2] = now
    def shapes(cx):
        form = cx.get('form') or {}
        return {k: (cx[k][0] if cx[k][0] == 'scalar' else 'list[%d]' % len(cx[k][1])) + ':' + form.get(k, 'float') for k in 'hKdc'}
    try:
        args = py_args(c); before = copy.deepcopy(args)
        res = raw_call(T, args); first = conv(res)
        log.append('call 1 with arguments %r -> Q=%r cost=%r' % (shapes(c), jsonable(first[0]), jsonable(first[1])))
        if as_result(first) != tuple(r):
            found('second-call-differs', 'a further call with equal arguments gives %r, the first gave %r' % (jsonable(first[:2]), jsonable(r[1:3])))
        held.append(['call 1', res, first]); last = held[-1]
        # (1) a call on another horizon in between
        kind, v = other_horizon(c, rng); labels.append('session_other_horizon=' + kind)
        rv = raw_call(v['T'], py_args(v, canonical=True))
        log.append('call on a %s horizon (T=%d)' % (kind, v['T']))
        held.append(['the call with T=%d' % v['T'], rv, conv(rv)])
        check_held('after a call on another horizon')
        # (2) the caller edits what it got, then asks again for the same data
        ncall = 1
        for rnd in range(rng.choice([2, 2, 3])):
            for idx, name in enumerate(['order_quantities', 'cost', 'costs_to_go', 'next_order_periods']):
                others = conv(last[1])
                op = edit_result_container(last[1][idx], rng)
                if op is None: continue
                labels.append('session_edit_%s=%s' % (name, op.split(',')[0]))
                log.append('caller edits %s of %s in place (%s)' % (name, last[0], op))
                now = conv(last[1])
                if any(now[i] != others[i] for i in range(4) if i != idx):
                    found('returned-containers-share-storage', 'editing %s of %s changed another object of the same result: %r -> %r' % (
                        name, last[0], jsonable(others), jsonable(now)))
                last[2] = now
                check_held('after the caller edited %s of %s' % (name, last[0]), skip=last)
                if not same_args(args, before):
                    found('result-aliases-arguments', 'editing the returned %s changed the caller\'s arguments: %r -> %r' % (name, before, args))
                    before = copy.deepcopy(args)
            how = rng.choice(['same-objects', 'redrawn-form', 'redrawn-form', 'float-lists'])
            labels.append('session_repeat=' + how)
            if how == 'same-objects': a2 = args; desc = 'the same argument objects'
            elif how == 'float-lists': a2 = py_args(c, canonical=True); desc = 'the same values as length-(T+1) float lists'
            else:
                c2 = reform(c, rng); a2 = py_args(c2); desc = 'the same values as fresh objects %r' % (shapes(c2),)
            ncall += 1
            res2 = raw_call(T, a2); got = conv(res2)
            log.append('call %d with %s -> Q=%r cost=%r' % (ncall, desc, jsonable(got[0]), jsonable(got[1])))
            cut = (lambda x: x) if how == 'same-objects' else (lambda x: (x[0][1:], x[1], x[2][1:], x[3][1:]))
            if cut(got) != cut(first):
                clauses = sorted({sg for sg, _ in oracle(c, as_result(got))}) if all(len(got[i]) == len(first[i]) for i in (0, 2, 3)) else ['shape']
                found('repeat-call-after-result-edited', 'call %d (same data, %s) returns Q=%r cost=%r theta=%r next=%r; call 1 returned Q=%r cost=%r theta=%r next=%r; '
                      'clauses broken by the later answer: %s' % (ncall, desc, jsonable(got[0]), jsonable(got[1]), jsonable(got[2]), jsonable(got[3]),
                                                                jsonable(first[0]), jsonable(first[1]), jsonable(first[2]), jsonable(first[3]), ', '.join(clauses) or 'none (another optimal plan)'))
            held.append(['call %d' % ncall, res2, got])
            check_held('after call %d' % ncall, skip=held[-1])
            last = held[-1]
        # (3) the caller reuses its argument containers for edited data
        ed = edit_argument(c, args, rng)
        if ed is not None:
            desc, c3 = ed; labels.append('session_argument_edit=' + desc.split(':')[0] + ':' + ('swap' if 'swapped' in desc else 'slot-0' if 'slot 0' in desc else 'plus-1'))
            log.append('caller edits its argument container in place (%s)' % desc)
            check_held('after the caller edited its own argument container (%s)' % desc)
            before = copy.deepcopy(args)
            ncall += 1
            got = conv(raw_call(T, args))
            log.append('call %d with the same (edited) argument objects -> Q=%r cost=%r' % (ncall, jsonable(got[0]), jsonable(got[1])))
            if not same_args(args, before):
                found('mutates-its-arguments', 'arguments before call %d %r, after %r' % (ncall, before, args))
            if not all(len(got[i]) == len(first[i]) for i in (0, 2, 3)):
                found('call-after-arguments-edited-in-place', 'outputs of call %d have the wrong lengths' % ncall)
            else:
                for sg, what in oracle(c3, as_result(got)):
                    found('call-after-arguments-edited-in-place', 'for the edited data %s: %s' % (sg, what))
            check_held('after call %d' % ncall)
        else:
            labels.append('session_argument_edit=none')
    except Exception as e:
        found('call-sequence-raises-%s' % exc_kind(e), 'valid call sequence raises %s: %s' % (exc_kind(e), str(e)[:200]))
    # one finding per signature is enough for a case
    seen = set(); out = []
    for sg, what in bad:
        if sg not in seen: seen.add(sg); out.append((sg, what))
    return out, labels


def explore(chk, n, tmax, do_model=True):
    cases = [gen_case(chk.rng, tmax) for _ in range(n)]
    impl = [run_impl(c) for c in cases]
    exprs = []
    for c in cases:
        exprs.append('option_map (fun o => (map qobs (ww_oq o), qobs (ww_cost o), map qobs (ww_theta o), ww_next o)) '
                     '(wagner_whitin %s %s %s %s %s)' % (cnat(c['T']), coq_arg(c['h']), coq_arg(c['K']), coq_arg(c['d']), coq_arg(c['c'])))
    model = coq_eval_sharded('c11', 'Alg.WW', '', exprs) if do_model else [None] * n
    for c, r, m in zip(cases, impl, model):
        T = c['T']
        key = json.dumps(jsonable([T, norm(c['h'], T)[1:], norm(c['K'], T)[1:], norm(c['d'], T)[1:], norm(c['c'], T)[1:]])) if not c['malformed'] else None
        nontriv = False
        chk.count('T=%d' % T); chk.count('malformed=%s' % c['malformed'])
        for k in 'hKdc': chk.count('shape_%s=%s' % (k, c[k][0] if c[k][0] == 'scalar' else ('T1' if len(c[k][1]) == T + 1 else 'T')))
        for k in 'hKdc': chk.count('form_%s=%s' % (k, c['form'][k]))
        for k, v in c['regime'].items(): chk.count('regime_%s=%s' % (k, v))
        if c['malformed']:
            # documented: ValueError
            if r[0] != 'err' or r[1] != 'ValueError':
                chk.fail('wagner_whitin|malformed-%s-accepted' % c['malformed'], 'malformed input (%s) not rejected with ValueError: %r' % (c['malformed'], r[:2]), c)
            if do_model and m is not None:
                chk.mismatch('model rejects (None) but got %r' % (m,), c)
            chk.case(c, False); continue
        if r[0] in ('mutated', 'unstable'):
            chk.fail('wagner_whitin|%s' % ('mutates-its-arguments' if r[0] == 'mutated' else 'second-call-differs'), r[1], c)
            chk.case(c, False); continue
        if r[0] == 'err':
            chk.fail('wagner_whitin|raises-%s' % r[1], 'valid input raises %s: %s' % (r[1], r[2]), c)
            chk.case(c, False); continue
        bad = oracle(c, r) + forms_oracle(c, r)
        sbad, labels = session(c, r)
        for lb in labels: chk.count(lb)
        for sig, what in bad + sbad:
            chk.fail('wagner_whitin|' + sig, what, c)
        norders = sum(1 for x in r[1][1:] if x != 0)
        nontriv = 1 < norders < T
        if do_model:
            chk.traces += 1
            if m is None:
                chk.mismatch('model returns None (ValueError) but implementation returned a plan', c)
            else:
                mo = ('Some',) if False else m
                moq, mcost, mth, mnx = mo[1] if (isinstance(mo, tuple) and mo[0] == 'Some') else mo
                moq = [qv(x) for x in moq]; mth = [qv(x) for x in mth]; mcost = qv(mcost)
                if moq != r[1] or mcost != r[2] or mth != r[3] or list(mnx) != r[4]:
                    chk.mismatch('model %r vs implementation %r' % (jsonable((moq, mcost, mth, mnx)), jsonable(r[1:])), c)
        chk.case(c, nontriv, key)


def run(chk):
    chk.rule = RULE
    chk.trusted += ['model Alg/WW.v is hand-written; tied to /repo by exact comparison of all four outputs (order quantities, cost, theta, next pointers) on generated instances']
    chk.assume += ['floating-point rounding is not modelled: theorems are over exact rationals; generated inputs are integers or multiples of 1/4 so that every float operation of the implementation is exact']
    chk.proof()
    n, tmax = (300, 8) if chk.tier == 'quick' else (3000, 12)
    explore(chk, n, tmax)
    if (chk.broken or chk.mismatches) and not chk.fails:
        # directed search for a failing input: larger budget, oracle only
        explore(chk, 10 * n if chk.tier == 'quick' else 2 * n, min(tmax + 2, 12), do_model=False)


def replay(chk, rp):
    c = rp['case']
    def fix(a): return [a[0], Fraction(a[1]) if a[0] == 'scalar' else [Fraction(x) for x in a[1]]]
    for k in 'hKdc': c[k] = fix(c[k])
    r = run_impl(c)
    print('implementation:', jsonable(r))
    if r[0] in ('mutated', 'unstable'):
        chk.fail('wagner_whitin|%s' % ('mutates-its-arguments' if r[0] == 'mutated' else 'second-call-differs'), r[1], c)
    elif r[0] == 'ok':
        for sig, what in oracle(c, r) + forms_oracle(c, r) + (session(c, r)[0] if 'session' in c else []):
            chk.fail('wagner_whitin|' + sig, what, c)
    elif not c.get('malformed'):
        chk.fail('wagner_whitin|raises-%s' % r[1], r[2], c)
    chk.case(c)
