"""C05 — Reported costs are exactly the cost of the reported state: correspondence of Sim/Model.v with stockpyl.sim on HC/SC/ITHC/REV/TC and
the returned total, the cost monitor of py/simmon.py (independent cost specification on the reported state), run_multiple_trials re-derived."""
import math, warnings
from fractions import Fraction
from vlib import *
import simlib, simmon

PID = 'C05'


def check_trials(chk, c):
    import numpy as np
    import stockpyl.sim as sim
    aux = c['aux']; T = c['T']; ntr = aux['ntr']; seed = aux['seed']
    try:
        with warnings.catch_warnings():
            warnings.simplefilter('ignore')
            sim.issued_backorder_warning = True        # silence the one-off consistency warning of the default mode
            net = simmon.randomize(simlib.build_impl(c), c, aux['rs'])
            mean, sem = sim.run_multiple_trials(net, ntr, T, rand_seed=seed, progress_bar=False)
            net2 = simmon.randomize(simlib.build_impl(c), c, aux['rs'])
            np.random.seed(seed); avgs = []; seeds = []
            for _ in range(ntr):
                sd = np.random.randint(1, 10000); seeds.append(int(sd))
                tot = sim.simulation(net2, T, rand_seed=sd, progress_bar=False)
                recs = simlib.extract_records(net2, T)
                s = sum((recs[t][i]['TC'] for t in range(T) for i in c['ids']), Fraction(0))
                if s != F(tot):
                    chk.fail('simulation|returned-total|random-demand', 'trial with seed %d: simulation() returned %s but the per-period totals add up to %s' % (sd, F(tot), s), c)
                avgs.append(F(tot) / T)
    except Exception as e:
        chk.fail('run_multiple_trials|raises-%s' % exc_kind(e), 'raises %s: %s' % (type(e).__name__, str(e)[:200]), c); return False
    m = sum(avgs, Fraction(0)) / ntr
    var = sum(((a - m) ** 2 for a in avgs), Fraction(0)) / ntr
    sem_want = math.sqrt(var / ntr)
    if not close(mean, m):
        chk.fail('run_multiple_trials|mean', '%d trials, seed %d: returned mean %r but the mean of the per-trial average costs (same seeds) is %r' % (ntr, seed, mean, float(m)), c)
    if not close(sem, sem_want, rel=1e-7, abs_=1e-9):
        chk.fail('run_multiple_trials|sem', '%d trials, seed %d: returned SEM %r but std(ddof=0)/sqrt(n) of the per-trial averages is %r' % (ntr, seed, sem, sem_want), c)
    # (each trial re-seeds the generator with its own seed, so the seed of the next trial is a function of it: after some 100 trials a seed repeats)
    chk.count('trials:a-trial-seed-repeats=%s' % (len(set(seeds)) < len(seeds)))
    return len(set(avgs)) > 1


def trials_stream(chk, n):
    for _ in range(n):
        c = simlib.gen_case(chk.rng, nmax=4, tmax=10)
        c['mode'] = 'trials'; c['malformed'] = None
        c['aux'] = dict(rs=simmon.gen_rng_spec(chk.rng, c), ntr=chk.rng.randint(2, 5), seed=chk.rng.randint(1, 10 ** 6))
        varied = check_trials(chk, c)
        chk.count('trials:n=%d' % c['aux']['ntr']); chk.count('trials:trial-costs-differ=%s' % bool(varied))
        chk.case(c, bool(varied), simlib.case_key(c) + json.dumps(c['aux'], sort_keys=True))
    # many trials (ordinary use is 10-1000 trials): 1-2 nodes, 4 periods, 150-300 trials, so that also trials with EQUAL seeds / equal costs occur
    for _ in range(max(3, n // 8)):
        c = simlib.gen_case(chk.rng, nmax=2, tmax=4)
        c['mode'] = 'trials'; c['malformed'] = None
        c['aux'] = dict(rs=simmon.gen_rng_spec(chk.rng, c), ntr=chk.rng.randint(150, 300), seed=chk.rng.randint(1, 10 ** 6))
        varied = check_trials(chk, c)
        chk.count('trials:n>=150'); chk.count('trials:trial-costs-differ=%s' % bool(varied))
        chk.case(c, bool(varied), simlib.case_key(c) + json.dumps(c['aux'], sort_keys=True))


def extra(chk, mult):
    trials_stream(chk, (25 if chk.tier == 'quick' else 300) * mult)


def run(chk):
    simmon.run_property(chk, PID, extra=extra)


def extra_replay(chk, c):
    if c['mode'] == 'trials': check_trials(chk, simlib.case_from_json(c))


def replay(chk, rp):
    simmon.replay_property(chk, PID, rp, extra_replay)
