"""C17 — networks survive serialisation unchanged.

Model tie:   the attribute tables (_DEFAULT_VALUES of every class, vars() of a NodeStateVars) are read from the CURRENT
             source on every run and turned into the schema of Ser/Codec.v; generated networks are converted into model
             objects; the model's to_dict JSON, from_dict(to_dict) and from_dict(json(to_dict)) are evaluated in Coq and
             compared with what the implementation produces.
Oracle:      deep comparison (written here, independent of deep_equal_to) of original vs reloaded network for
             to_dict->from_dict and save_instance->load_instance, each also repeated on the SAME dict object / file record and as a
             second-generation round trip; the dict handed to from_dict is not changed by it; simulation of original vs reloaded
             under the same seed; original not mutated; other instances in the file preserved over random save/replace/load sequences;
             write_results CSV cells vs the state variables their headers name.
"""
import contextlib, copy, csv, io, itertools, json, os, re, shutil, time, traceback
from fractions import Fraction
from concurrent.futures import ThreadPoolExecutor
import numpy as np
from vlib import *

SCRATCH = os.path.join(BUILD, 'c17_%d' % os.getpid())

RULE = ('networks with 1-5 nodes (serial / assembly / distribution / random DAG, arbitrary node indices), single-product (dummy products) or '
        'multi-product (1-3 products per node, shared products, BOM numbers, network-level local products); every numeric attribute '
        'unset / None / scalar / product-keyed dict (all or some of the node\'s products as keys; entries numbers, or explicit None for some / all keys '
        '= "no value for this product at this node", which get_attribute() returns in preference to the product-level value, then usually with a '
        'different value of the same attribute set on the product so that the entry decides what the simulator sees; or the empty dict); lead times; GSM attributes; inventory policy (BS, sS, rQ, FQ, EBS, BEBS, None type) as singleton, '
        'product-keyed dict or product-level object; demand source (N, P, UD, UC, NB, D, CD) likewise, product-keyed dicts also with explicit None entries '
        '(= no external demand for that product at the node; usually hiding a demand source set on the product); disruption process (default, None, Markov or '
        'explicit, OP/SP/TP/RP; product-keyed with None entries in non-simulated networks) ; with and without saved state variables (a short simulation is run first). For every network: '
        'to_dict->from_dict, to_dict->json->from_dict, save_instance->load_instance (with / without state variables); histories on one dict object '
        '(d = to_dict(); from_dict(d); simulate the result; from_dict(d) again: both results equal the original and simulate like it, d itself is '
        'unchanged by being read, a later to_dict() equals d) and on one file record (second load of the same file; the loaded network saved over '
        'the record and loaded again), second-generation round trips (from_dict(to_dict(from_dict(to_dict(n))))); simulation of original vs '
        'reloaded (from dict, from the second conversion of the same dict, from file) under one seed, CSV of write_results (real and tagged state variables); plus random save/replace/load sequences on one file. '
        'non-trivial = the network has a product-keyed attribute, a non-default object attribute or saved state variables; distinct = distinct spec.')

KNOWN_D1 = 'DemandSource.to_dict|derived-mean-sd-written'

# =================================================================================================
# generator

NUM_ATTRS = ['local_holding_cost', 'echelon_holding_cost', 'in_transit_holding_cost', 'stockout_cost', 'revenue',
             'initial_inventory_level', 'initial_orders', 'initial_shipments', 'order_capacity']
LT_ATTRS = ['shipment_lead_time', 'order_lead_time']
GSM_ATTRS = ['processing_time', 'external_inbound_cst', 'external_outbound_cst', 'demand_bound_constant', 'units_required',
             'net_demand_mean', 'net_demand_standard_deviation', 'larger_adjacent_node', 'larger_adjacent_node_is_downstream',
             'max_replenishment_time', 'original_label']
POLICY_TYPES = ['BS', 'sS', 'rQ', 'FQ', 'EBS', 'BEBS']
DEMAND_TYPES = ['N', 'P', 'UD', 'UC', 'NB', 'D', 'CD']


def gen_policy(rng, sim):
    t = rng.choice(['BS', 'BS', 'sS', 'rQ', 'FQ'] if sim else POLICY_TYPES + [None])
    p = {'type': t}
    if t in ('BS', 'EBS', 'BEBS'): p['base_stock_level'] = rng.choice([rng.randint(3, 30), rng.randint(6, 60) / 2])
    if t == 'sS': p['reorder_point'] = rng.randint(2, 10); p['order_up_to_level'] = p['reorder_point'] + rng.randint(1, 15)
    if t == 'rQ': p['reorder_point'] = rng.randint(2, 10); p['order_quantity'] = rng.randint(1, 12)
    if t == 'FQ': p['order_quantity'] = rng.randint(1, 8)
    return p


def gen_demand(rng, T):
    t = rng.choice(DEMAND_TYPES + ['N', 'D', 'D'])
    d = {'type': t}
    if t == 'N': d['mean'] = rng.randint(3, 12); d['standard_deviation'] = rng.choice([1, 2, 0.5])
    if t == 'P': d['mean'] = rng.choice([2, 5, 3.5])
    if t == 'UD': d['lo'] = rng.randint(0, 4); d['hi'] = d['lo'] + rng.randint(0, 6)
    if t == 'UC': d['lo'] = rng.randint(0, 4); d['hi'] = d['lo'] + rng.choice([1, 2.5, 4])
    if t == 'NB': d['n'] = rng.randint(1, 5); d['p'] = rng.choice([0.5, 0.25, 0.75])
    if t == 'D': d['demand_list'] = [rng.randint(0, 9) for _ in range(rng.choice([1, 3, T + 6]))]
    if t == 'CD':
        k = rng.randint(1, 4); d['demand_list'] = sorted(rng.sample(range(0, 12), k))
        d['probabilities'] = {1: [1], 2: [0.5, 0.5], 3: [0.25, 0.5, 0.25], 4: [0.125, 0.125, 0.25, 0.5]}[k]
    if rng.random() < 0.3: d['round_to_int'] = rng.choice([True, False])
    if t in ('P', 'UD', 'UC', 'NB', 'CD') and rng.random() < 0.3:
        d['standard_deviation'] = 1.5           # stored explicitly -> nothing is derived on to_dict
        if t != 'P': d['mean'] = 4
    return d


def gen_disruption(rng, T):
    r = rng.random()
    if r < 0.45: return None            # keep the default DisruptionProcess()
    if r < 0.55: return 'None'          # attribute explicitly set to None
    dp = {'disruption_type': rng.choice(['OP', 'SP', 'TP', 'RP'])}
    if rng.random() < 0.6:
        dp['random_process_type'] = 'M'; dp['disruption_probability'] = rng.choice([0.125, 0.25, 0.5]); dp['recovery_probability'] = rng.choice([0.25, 0.5, 0.75])
    else:
        dp['random_process_type'] = 'E'; dp['disruption_state_list'] = [rng.random() < 0.3 for _ in range(rng.choice([2, 5, T + 6]))]
    if rng.random() < 0.2: dp['disrupted'] = True
    return dp


def numval(rng):
    return rng.choice([rng.randint(0, 20), rng.randint(1, 80) / 4, 0, 0.1 * rng.randint(1, 30)])


def gen_spec(rng, sim=None, multi=None, nmax=5):
    nn = rng.randint(1, nmax)
    idx = rng.sample(range(0, 9), nn)
    if rng.random() < 0.5: idx = sorted(idx)
    shape = rng.choice(['serial', 'assembly', 'distribution', 'dag']) if nn > 1 else 'single'
    if shape == 'serial': edges = [[idx[i], idx[i + 1]] for i in range(nn - 1)]
    elif shape == 'assembly': edges = [[idx[i], idx[-1]] for i in range(nn - 1)]
    elif shape == 'distribution': edges = [[idx[0], idx[i]] for i in range(1, nn)]
    elif shape == 'dag':
        edges = [[idx[rng.randrange(0, j)], idx[j]] for j in range(1, nn)]
        for _ in range(rng.randint(0, 2)):
            i, j = sorted(rng.sample(range(nn), 2))
            if [idx[i], idx[j]] not in edges: edges.append([idx[i], idx[j]])
    else: edges = []
    if multi is None: multi = rng.random() < 0.5
    if sim is None: sim = rng.random() < 0.75
    T = rng.randint(3, 8)
    spec = dict(nodes=idx, edges=edges, shape=shape, multi=multi, sim=sim, T=T, seed=rng.randint(0, 10**6), presim=rng.random() < 0.5,
                products={}, bom=[], local_products=[], node_attrs={}, prod_attrs={}, policy={}, demand={}, disruption={}, names={})
    preds = {i: [u for u, v in edges if v == i] for i in idx}
    succs = {i: [v for u, v in edges if u == i] for i in idx}
    if multi:
        nextp = [10]
        def newp():
            nextp[0] += rng.randint(1, 3); return nextp[0]
        order = []; rem = list(idx)
        while rem:
            for i in rem:
                if all(p in order for p in preds[i]): order.append(i); rem.remove(i); break
        for i in order:
            k = rng.choice([1, 2, 2, 3]) if rng.random() < 0.8 else 0     # 0 => the node keeps its dummy product
            spec['products'][i] = [newp() for _ in range(k)]
        if nn >= 2 and rng.random() < 0.2:                                 # a product handled by two nodes
            a, b = rng.sample(idx, 2)
            if spec['products'][a] and a not in preds[b] and b not in preds[a]:
                spec['products'][b] = spec['products'][b] + [spec['products'][a][0]]
        for i in order:
            for p in preds[i]:
                if not spec['products'][p] or not spec['products'][i]: continue
                for fg in spec['products'][i]:
                    for rm in rng.sample(spec['products'][p], rng.randint(1, len(spec['products'][p]))):
                        if [fg, rm] not in [b[:2] for b in spec['bom']] and fg != rm:
                            spec['bom'].append([fg, rm, rng.choice([1, 1, 2, 3, 0.5])])
        if rng.random() < 0.2: spec['local_products'] = [newp()]
    else:
        for i in idx: spec['products'][i] = []
    for i in idx:
        prods = spec['products'][i]
        na = {}
        def pk_or_scalar(gen, allow_pk=True):
            if prods and allow_pk and rng.random() < 0.4:
                ks = prods if rng.random() < 0.7 else rng.sample(prods, rng.randint(1, len(prods)))
                pk = {str(k): gen() for k in ks}
                # entries of a product-keyed dict may be an explicit None: get_attribute() returns the entry of a key that is present,
                # so None there means "no value for this product at this node" and hides whatever the product itself says
                # (forms: some entries None, all entries None, the empty dict = every product falls back to product level)
                r = rng.random()
                if r < 0.3:
                    for k in (ks if r < 0.05 else rng.sample(ks, rng.randint(1, len(ks)))): pk[str(k)] = None
                elif r < 0.34: pk = {}
                return {'pk': pk}
            return gen()
        for a in NUM_ATTRS:
            r = rng.random()
            if r < 0.35: continue
            if r < 0.42: na[a] = None; continue
            na[a] = pk_or_scalar(lambda: numval(rng))
            if a in ('initial_orders', 'initial_shipments', 'initial_inventory_level') and not isinstance(na[a], dict): na[a] = int(na[a])
            if a == 'order_capacity' and na[a] == 0: na[a] = 5
        for a in LT_ATTRS:
            if rng.random() < 0.7: na[a] = pk_or_scalar(lambda: rng.randint(0, 3), allow_pk=not sim)
        if not sim or rng.random() < 0.3:
            for a in GSM_ATTRS:
                if rng.random() < 0.3:
                    na[a] = (rng.choice([True, False]) if a.endswith('is_downstream') else rng.choice(['lbl', 7, [1, 2]]) if a == 'original_label'
                             else rng.randint(0, 9) if a in ('larger_adjacent_node', 'max_replenishment_time') else pk_or_scalar(lambda: numval(rng)))
        spec['node_attrs'][i] = na
        if rng.random() < 0.3: spec['names'][i] = 'node %d' % i
        shared = [k for k in prods if sum(1 for j in idx if k in spec['products'][j]) > 1]
        r = rng.random()
        if prods and (r < 0.5 or (sim and len(prods) > 1 and (r < 0.7 or shared))):
            spec['policy'][i] = {'pk': {str(k): gen_policy(rng, sim) for k in prods}}
        elif prods and not shared and (r < 0.7 or (sim and len(prods) > 1)):
            spec['policy'][i] = None          # policies live at product level (node link set; it is documented as not restored on load)
            for k in prods: spec['prod_attrs'].setdefault(k, {})['inventory_policy'] = dict(gen_policy(rng, sim), node=i, product=k)
        elif not sim and rng.random() < 0.08:
            spec['policy'][i] = 'None'
        else:
            spec['policy'][i] = gen_policy(rng, sim)
        if not succs[i] or rng.random() < 0.15:
            if prods and rng.random() < 0.6:
                pk = {str(k): gen_demand(rng, T) for k in prods}
                # an entry may be an explicit None = "no external demand for this product at this node" (the simulator tests for it);
                # like a plain None entry it is returned by get_attribute() in preference to the product's own demand source
                if rng.random() < 0.3:
                    for k in rng.sample(prods, rng.randint(1, len(prods))): pk[str(k)] = 'None'
                spec['demand'][i] = {'pk': pk}
            else:
                spec['demand'][i] = gen_demand(rng, T)
        elif rng.random() < 0.1:
            spec['demand'][i] = 'None'
        spec['disruption'][i] = gen_disruption(rng, T)
        if not sim and prods and spec['disruption'][i] not in (None, 'None') and rng.random() < 0.4:
            spec['disruption'][i] = {'pk': {str(k): (lambda g: g if isinstance(g, dict) else {'disruption_type': 'SP'})(gen_disruption(rng, T)) for k in prods}}
            if rng.random() < 0.5:          # None entries (product-keyed disruption processes are not simulated at all: non-simulated specs only)
                for k in rng.sample(prods, rng.randint(1, len(prods))): spec['disruption'][i]['pk'][str(k)] = 'None'
    for i in idx:
        for k in spec['products'][i]:
            pa = spec['prod_attrs'].setdefault(k, {})
            for a in NUM_ATTRS + ([] if sim else LT_ATTRS):
                # a node-level entry None for (i, k) is usually paired with a value at product level, so that losing / altering the
                # entry changes what get_attribute() resolves to and what the simulator does
                if rng.random() < (0.85 if none_entry(spec['node_attrs'][i].get(a), k) else 0.25):
                    pa[a] = rng.randint(0, 3) if a in LT_ATTRS else numval(rng)
                    if a in ('initial_orders', 'initial_shipments', 'initial_inventory_level'): pa[a] = int(pa[a])
                    if a == 'order_capacity' and pa[a] == 0: pa[a] = 4
            if rng.random() < 0.15: pa['name'] = 'prod %d' % k
            if not sim and rng.random() < 0.2: pa['demand_source'] = 'None'
            if not sim and 'inventory_policy' not in pa and rng.random() < 0.2: pa['inventory_policy'] = 'None'
            d = spec['demand'].get(i)
            if isinstance(d, dict) and 'pk' not in d and len(spec['products'][i]) > 1 and rng.random() < 0.5 and 'demand_source' not in pa:
                pa['demand_source'] = gen_demand(rng, T)
            if isinstance(d, dict) and 'pk' in d and d['pk'].get(str(k)) == 'None' and 'demand_source' not in pa and rng.random() < 0.6:
                pa['demand_source'] = gen_demand(rng, T)          # hidden at node i by the node's None entry for k
    return spec


def none_entry(v, k):
    """v (a node attribute of a spec) is a product-keyed dict whose entry for product k is an explicit None"""
    return isinstance(v, dict) and 'pk' in v and str(k) in v['pk'] and v['pk'][str(k)] is None


def pk_classes(spec):
    """input classes of the product-keyed plain attribute dicts of a spec (for the histogram)"""
    out = set()
    for i in spec['nodes']:
        for a, v in (G(spec['node_attrs'], i) or {}).items():
            if not (isinstance(v, dict) and 'pk' in v): continue
            pk = v['pk']
            if not pk: out.add('pk_dict_empty'); continue
            if any(x is None for x in pk.values()):
                out.add('pk_dict_all_entries_None' if all(x is None for x in pk.values()) else 'pk_dict_some_entries_None')
                for k, x in pk.items():
                    if x is None and (G(spec['prod_attrs'], int(k)) or {}).get(a) is not None:
                        out.add('pk_dict_None_entry_hides_product_level_value'); out.add('pk_None_entry_hides_product_value:%s' % a)
            if set(pk) != {str(k) for k in (G(spec['products'], i) or [])}: out.add('pk_dict_partial_key_set')
        d = G(spec['demand'], i)
        if isinstance(d, dict) and 'pk' in d and 'None' in d['pk'].values():
            out.add('demand_source_pk_dict_all_entries_None' if all(x == 'None' for x in d['pk'].values()) else 'demand_source_pk_dict_some_entries_None')
            if any(x == 'None' and isinstance((G(spec['prod_attrs'], int(k)) or {}).get('demand_source'), dict) for k, x in d['pk'].items()):
                out.add('demand_source_pk_None_entry_hides_product_level_demand_source')
        dp = G(spec['disruption'], i)
        if isinstance(dp, dict) and 'pk' in dp and 'None' in dp['pk'].values(): out.add('disruption_process_pk_dict_None_entry')
    return out


def obj_none_entry(spec):
    """the spec has a product-keyed OBJECT dict (demand source / disruption process) with a None entry"""
    return any(c.startswith(('demand_source_pk_dict', 'disruption_process_pk_dict')) for c in pk_classes(spec))


def G(d, i):
    return d.get(i, d.get(str(i)))


def build(spec):
    from stockpyl.supply_chain_network import SupplyChainNetwork
    from stockpyl.supply_chain_node import SupplyChainNode
    from stockpyl.supply_chain_product import SupplyChainProduct
    from stockpyl.policy import Policy
    from stockpyl.demand_source import DemandSource
    from stockpyl.disruption_process import DisruptionProcess
    net = SupplyChainNetwork()
    has_pred = {v for u, v in spec['edges']}
    nodes = {}
    for i in spec['nodes']:
        kw = {} if i in has_pred else {'supply_type': 'U'}
        nodes[i] = SupplyChainNode(i, name=G(spec['names'], i), **kw)
        net.add_node(nodes[i])
    for u, v in spec['edges']:
        net.add_edge(u, v)
    allp = sorted({p for ps in spec['products'].values() for p in ps} | set(spec['local_products']))
    prods = {p: SupplyChainProduct(p) for p in allp}
    for fg, rm, num in spec['bom']:
        prods[fg].set_bill_of_materials(raw_material=rm, num_needed=num)
    for i in spec['nodes']:
        ps = G(spec['products'], i) or []
        if ps: nodes[i].add_products([prods[p] for p in ps])
    for p in spec['local_products']:
        net.add_product(prods[p])
    def val(v, f=lambda x: x):
        if isinstance(v, dict) and 'pk' in v: return {int(k): f(x) for k, x in v['pk'].items()}
        return f(v)
    def mkpol(p):
        if p is None or p == 'None': return None
        p = dict(p); nd = p.pop('node', None)
        pol = Policy(**p)
        if nd is not None: pol.node = nodes[nd]
        return pol
    def mkds(d): return None if d == 'None' else DemandSource(**d)
    def mkdp(d): return None if d == 'None' else DisruptionProcess(**d)
    for k, pa in spec['prod_attrs'].items():
        k = int(k)
        for a, v in pa.items():
            if a == 'inventory_policy': prods[k].inventory_policy = mkpol(v)
            elif a == 'demand_source': prods[k].demand_source = mkds(v)
            else: setattr(prods[k], a, v)
    for i in spec['nodes']:
        n = nodes[i]
        for a, v in (G(spec['node_attrs'], i) or {}).items():
            setattr(n, a, val(v))
        p = G(spec['policy'], i)
        if p is not None:
            n.inventory_policy = None if p == 'None' else val(p, mkpol)
        d = G(spec['demand'], i)
        if d is not None:
            n.demand_source = None if d == 'None' else val(d, mkds)
        dp = G(spec['disruption'], i)
        if dp is not None:
            n.disruption_process = None if dp == 'None' else val(dp, mkdp)
    return net


def quiet(f, *a, **k):
    with contextlib.redirect_stdout(io.StringIO()), contextlib.redirect_stderr(io.StringIO()):
        return f(*a, **k)


def simulate(net, T, seed):
    from stockpyl.sim import simulation
    return quiet(simulation, net, T, rand_seed=seed, progress_bar=False)


# =================================================================================================
# deep snapshot of a network (the oracle's notion of "every attribute") and its diff

def classes():
    from stockpyl.supply_chain_network import SupplyChainNetwork
    from stockpyl.supply_chain_node import SupplyChainNode
    from stockpyl.supply_chain_product import SupplyChainProduct
    from stockpyl.policy import Policy
    from stockpyl.demand_source import DemandSource
    from stockpyl.disruption_process import DisruptionProcess
    from stockpyl.node_state_vars import NodeStateVars
    return dict(Network=SupplyChainNetwork, Node=SupplyChainNode, Product=SupplyChainProduct, Policy=Policy,
                DemandSource=DemandSource, DisruptionProcess=DisruptionProcess, NodeStateVars=NodeStateVars)

# derived structural attributes that are not in _DEFAULT_VALUES but are part of the network's structure
DERIVED = {'Network': ['_nodes_by_index', '_products_by_index', '_product_indices', '_currently_building'],
           'Node': ['_network_bill_of_materials', '_supplier_raw_material_pairs_by_product_BOM', '_supplier_raw_material_pairs_by_product_NBOM']}


def leaf(x):
    if isinstance(x, np.generic): return x.item()
    if isinstance(x, np.ndarray): return ('<ndarray>', x.tolist())
    if callable(x): return ('<callable>', getattr(x, '__name__', '?'))
    return x


def snap(x, C=None):
    """pure-Python deep snapshot: declared attributes (_DEFAULT_VALUES) + derived structural ones; back links as indices"""
    C = C or classes()
    def attrs(obj, cname):
        names = list(type(obj)._DEFAULT_VALUES.keys()) + DERIVED.get(cname, [])
        return [(k, vars(obj)[k]) for k in names if k in vars(obj)] + [(k, '<attribute missing>') for k in names if k not in vars(obj) and k not in DERIVED.get(cname, [])]
    if isinstance(x, C['Network']):
        d = {'<class>': 'Network'}
        for k, v in attrs(x, 'Network'):
            d[k] = ([snap(n, C) for n in v] if k in ('_nodes', '_products') else sorted(v.keys(), key=repr) if k in ('_nodes_by_index', '_products_by_index') else snap(v, C))
        d['<edges>'] = sorted(x.edges)
        return d
    if isinstance(x, C['Node']):
        d = {'<class>': 'Node'}
        for k, v in attrs(x, 'Node'):
            if k == 'network': d[k] = None if v is None else '<network>'
            elif k == '_products': d[k] = [p.index for p in v]
            elif k == '_products_by_index': d[k] = {kk: p.index for kk, p in v.items()}
            elif k in ('_dummy_product', '_external_supplier_dummy_product'):
                d[k] = None if v is None else (('<product>', v.index) if isinstance(v, C['Product']) else ('<not-a-product>', v))
            else: d[k] = snap(v, C)
        return d
    if isinstance(x, C['Product']):
        return {'<class>': 'Product', **{k: ('<backlink>' if k == 'network' else snap(v, C)) for k, v in attrs(x, 'Product')}}
    if isinstance(x, C['Policy']):
        return {'<class>': 'Policy', **{k: ((None if v is None else ('<node>', v.index) if isinstance(v, C['Node']) else ('<raw>', v)) if k == '_node'
                                            else (('<product>', v.index) if isinstance(v, C['Product']) else snap(v, C))) for k, v in attrs(x, 'Policy')}}
    if isinstance(x, (C['DemandSource'], C['DisruptionProcess'])):
        return {'<class>': type(x).__name__, **{k: snap(v, C) for k, v in attrs(x, type(x).__name__)}}
    if isinstance(x, C['NodeStateVars']):
        return {'<class>': 'NodeStateVars', **{k: ((None if v is None else ('<node>', v.index) if isinstance(v, C['Node']) else ('<raw>', v)) if k == 'node' else snap(v, C))
                                               for k, v in vars(x).items()}}
    if isinstance(x, dict): return {k: snap(v, C) for k, v in x.items()}
    if isinstance(x, list): return [snap(v, C) for v in x]
    if isinstance(x, tuple): return ('<tuple>',) + tuple(snap(v, C) for v in x)
    if isinstance(x, (set, frozenset)): return ('<set>', sorted(x, key=repr))
    return leaf(x)


def same_leaf(a, b):
    if isinstance(a, bool) or isinstance(b, bool): return type(a) is type(b) and a == b
    if isinstance(a, (int, float)) and isinstance(b, (int, float)):
        return a == b or (a != a and b != b)
    return type(a) is type(b) and a == b


def diff(a, b, path='', out=None, limit=60):
    if out is None: out = []
    if len(out) >= limit: return out
    if isinstance(a, dict) and isinstance(b, dict):
        for k in a:
            if k not in b: out.append((path + '/' + repr(k), 'key %r missing after reload (keys now %r)' % (k, list(b.keys())[:6]), a[k], None))
            else: diff(a[k], b[k], path + '/' + repr(k), out, limit)
        for k in b:
            if k not in a: out.append((path + '/' + repr(k), 'extra key %r after reload' % (k,), None, b[k]))
    elif isinstance(a, list) and isinstance(b, list):
        if len(a) != len(b): out.append((path, 'list length %d vs %d' % (len(a), len(b)), a, b))
        else:
            for i, (x, y) in enumerate(zip(a, b)): diff(x, y, path + '[%d]' % i, out, limit)
    elif isinstance(a, tuple) and isinstance(b, tuple) and len(a) == len(b):
        for i, (x, y) in enumerate(zip(a, b)): diff(x, y, path + '(%d)' % i, out, limit)
    elif not same_leaf(a, b):
        out.append((path, '%r vs %r' % (a, b), a, b))
    return out


def is_default_obj(s):
    """snapshot of X.from_dict(None)"""
    if not isinstance(s, dict) or s.get('<class>') not in ('Policy', 'DemandSource', 'DisruptionProcess'): return False
    C = classes()
    dv = C[s['<class>']]._DEFAULT_VALUES
    return all(same_leaf(s.get(k), dv[k]) for k in dv)


def attribute_table(net):
    """every declared attribute at (node, product) level as get_attribute() resolves it"""
    C = classes()
    names = [k.lstrip('_') for k in C['Product']._DEFAULT_VALUES if k.lstrip('_') in [kk.lstrip('_') for kk in C['Node']._DEFAULT_VALUES]
             and k not in ('_index', 'name', 'network', 'state_vars')]
    out = {}
    for n in net.nodes:
        for p in n.product_indices:
            for a in names:
                try: v = snap(n.get_attribute(a, p), C)
                except Exception as e: v = ('<raises>', type(e).__name__)
                out['%d/%d/%s' % (n.index, p, a)] = v
    return out


def compare_networks(s0, s1, what, expect_no_state_vars=False, lenient=None):
    """-> list of (signature, message). s0/s1 snapshots of original / reloaded. lenient: list that receives the documented exceptions used"""
    bad = []
    if lenient is None: lenient = []
    for path, msg, a, b in diff(s0, s1):
        m = re.search(r"/'(_mean|_standard_deviation)'$", path)
        if m and "'demand_source'" in path and a is None and b is not None:
            bad.append((KNOWN_D1, '%s: %s stored None came back as derived value %r' % (what, path, b))); continue
        if re.search(r"/'_products'\[\d+\]/'_inventory_policy'/'_node'$", path) and b is None:
            lenient.append('policy-node'); continue        # documented: product-level policy node link is not restored
        if expect_no_state_vars and re.search(r"/'_nodes'\[\d+\]/'state_vars'$", path) and (b == [] or b is None):
            continue        # load_instance(ignore_state_vars=True) / omit_state_vars=True
        attr = [a for a in re.findall(r"'([^']+)'", path) if re.match(r'[A-Za-z_<]', a) and a != 'null']
        sig = '%s|%s' % (what, attr[-1] if attr else 'structure')
        if "'state_vars'" in path: sig = '%s|state_vars' % what
        bad.append((sig, '%s: %s: %s' % (what, path, msg)))
    return bad


# =================================================================================================
# model side: schema from the current source, objects -> model values, Coq evaluation

def pv_tree(x):
    """python value -> pv tree: None | bool | Fraction | ('str', s) | list | ('tuple', [..]) | ('dict', [(key, pv)])"""
    x = leaf(x)
    if x is None or isinstance(x, bool): return x
    if isinstance(x, (int, float)):
        if isinstance(x, float) and (x != x or x in (float('inf'), float('-inf'))): raise Unsupported('nan/inf')
        return F(x)
    if isinstance(x, str):
        if not all(32 <= ord(c) < 127 for c in x): raise Unsupported('non-ascii string')
        return ('str', x)
    if isinstance(x, list): return [pv_tree(v) for v in x]
    if isinstance(x, tuple):
        if x and x[0] in ('<ndarray>', '<callable>'): raise Unsupported(x[0])
        return ('tuple', [pv_tree(v) for v in x])
    if isinstance(x, dict):
        items = []
        for k, v in x.items():
            k = leaf(k)
            if k is None: kk = ('n',)
            elif isinstance(k, bool): raise Unsupported('bool key')
            elif isinstance(k, int): kk = ('i', k)
            elif isinstance(k, float) and k.is_integer(): kk = ('i', int(k))
            elif isinstance(k, str): kk = ('s', k)
            else: raise Unsupported('key %r' % (k,))
            items.append((kk, pv_tree(v)))
        return ('dict', items)
    raise Unsupported(type(x).__name__)


class Unsupported(Exception):
    pass


def cstr(s):
    return '"' + s.replace('"', '""') + '"'


def coq_pv(t):
    if t is None: return 'PNone'
    if isinstance(t, bool): return '(PBool %s)' % cbool(t)
    if isinstance(t, Fraction): return '(PNum %s)' % cq(t)
    if isinstance(t, list): return '(PList [%s])' % '; '.join(coq_pv(v) for v in t)
    if t[0] == 'str': return '(PStr %s)' % cstr(t[1])
    if t[0] == 'tuple': return '(PTuple [%s])' % '; '.join(coq_pv(v) for v in t[1])
    if t[0] == 'dict': return '(PDict [%s])' % '; '.join('(%s, %s)' % (coq_key(k), coq_pv(v)) for k, v in t[1])
    raise ValueError(t)


def coq_key(k):
    return 'KNone' if k[0] == 'n' else '(KInt %s)' % cz(k[1]) if k[0] == 'i' else '(KStr %s)' % cstr(k[1])


def js_pv(t):
    """the structure Ser/Show.v's pv_show prints"""
    if t is None or isinstance(t, bool): return t
    if isinstance(t, Fraction): return '%d/%d' % (t.numerator, t.denominator)
    if isinstance(t, list): return [js_pv(v) for v in t]
    if t[0] == 'str': return {'(str)': t[1]}
    if t[0] == 'tuple': return {'(tuple)': [js_pv(v) for v in t[1]]}
    if t[0] == 'dict': return {'(dict)': [[('n:' if k[0] == 'n' else 'i:%d' % k[1] if k[0] == 'i' else 's:' + k[1]), js_pv(v)] for k, v in t[1]]}


def js_json(x):
    """what jv_show prints for json_dump of a python structure x that went through json.loads(json.dumps(.))"""
    if x is None or isinstance(x, bool): return x
    if isinstance(x, (int, float)): f = F(x); return '%d/%d' % (f.numerator, f.denominator)
    if isinstance(x, str): return {'(str)': x}
    if isinstance(x, list): return [js_json(v) for v in x]
    if isinstance(x, dict): return {'(obj)': [[k, js_json(v)] for k, v in x.items()]}
    raise ValueError(x)


def canon(x):
    """order-insensitive form of a Show.v structure (dict / object entries sorted)"""
    if isinstance(x, list): return [canon(v) for v in x]
    if isinstance(x, dict):
        (k, v), = x.items()
        if k in ('(dict)', '(obj)'): return {k: sorted(([kk, canon(vv)] for kk, vv in v), key=lambda e: e[0])}
        if k == 'VObjDict': return {k: sorted(([kk, canon(vv)] for kk, vv in v), key=lambda e: int(e[0]))}
        return {k: canon(v)}
    return x


class Schema:
    """schema of Ser/Codec.v built from the CURRENT source's attribute tables + behavioural probes of the kinds that
    depend on how from_dict/to_dict treat a value"""

    def __init__(self):
        C = self.C = classes()
        self.tables = {k: list(C[k]._DEFAULT_VALUES.items()) for k in ('Network', 'Node', 'Product', 'Policy', 'DemandSource', 'DisruptionProcess')}
        # NodeStateVars has no table: take the instance attributes of a real object
        from stockpyl.supply_chain_network import single_stage_system
        net = single_stage_system(demand_type='D', demand_list=[1, 2], policy_type='BS', base_stock_level=3)
        sv = C['NodeStateVars'](net.nodes[0], 0)
        self.tables['NodeStateVars'] = [(k, None) for k in vars(sv).keys()]
        self.probe(net, sv)

    def probe(self, net, sv):
        C = self.C
        # (1) which DemandSource attributes are written through a property that derives a value
        samples = [dict(type='N', mean=3, standard_deviation=1), dict(type='P', mean=4), dict(type='UD', lo=1, hi=5), dict(type='UC', lo=1, hi=5),
                   dict(type='NB', n=3, p=0.5), dict(type='D', demand_list=[1, 2]), dict(type='CD', demand_list=[1, 2], probabilities=[0.5, 0.5]), dict()]
        self.ds_getter = set()
        for kw in samples:
            d = C['DemandSource'](**kw); dd = d.to_dict()
            for a, _ in self.tables['DemandSource']:
                prop = a[1:] if a.startswith('_') else a
                if prop in dd and not same_leaf(leaf(dd[prop]), leaf(vars(d)[a])) and not (isinstance(dd[prop], list) and dd[prop] == vars(d)[a]):
                    self.ds_getter.add(a)
        # (2) what from_dict does with a None-valued object attribute
        def none_mode(cls, make, attr, setter):
            o = make(); setattr(o, setter, None)
            try: r = getattr(cls.from_dict(o.to_dict()), setter)
            except Exception: return 'NoneCrash'
            return 'NoneKeeps' if r is None else 'NoneDefault'
        self.none_mode = {}
        for attr in ('demand_source', 'disruption_process', '_inventory_policy'):
            st = attr.lstrip('_')
            if attr in dict(self.tables['Node']): self.none_mode[('Node', attr)] = none_mode(C['Node'], lambda: C['Node'](1), attr, st)
            if attr in dict(self.tables['Product']): self.none_mode[('Product', attr)] = none_mode(C['Product'], lambda: C['Product'](1), attr, st)
        # (3) what NodeStateVars.from_dict does with dict keys that went through JSON
        d = json.loads(json.dumps(sv.to_dict()))
        r = C['NodeStateVars'].from_dict(d)
        ks = list(r.inbound_order.keys()) + list(r.inventory_level.keys())
        self.sv_mode = 'RReintNull' if (None in ks and all(k is None or isinstance(k, int) for k in ks)) else 'RReint' if all(isinstance(k, int) or k == 'null' for k in ks) else 'RPass'

    def kind(self, cname, attr, level):
        """(kind text for Coq, python-side tag) of attribute attr of class cname; level = 'node' | 'product' for nested objects"""
        if cname == 'Network':
            if attr == '_nodes': return ('SObjList sch_node', ('list', 'Node', 'node'))
            if attr == '_products': return ('SObjList sch_product', ('list', 'Product', 'product'))
            return ('SPlain RPass', ('plain',))
        if cname == 'Node':
            if attr == 'network': return ('SBacklink', ('link',))
            if attr in ('_products', '_products_by_index'): return ('SSkip', ('link',))
            if attr in ('_dummy_product', '_external_supplier_dummy_product'): return ('SRef', ('ref',))
            if attr in ('_index', '_product_indices', '_predecessor_indices', '_successor_indices'): return ('SPlain RPass', ('plain',))
            if attr in ('demand_source', 'disruption_process', '_inventory_policy'):
                cls = {'demand_source': 'DemandSource', 'disruption_process': 'DisruptionProcess', '_inventory_policy': 'Policy'}[attr]
                return ('SObjAttr MarkerYes %s sch_%s_node' % (self.none_mode[('Node', attr)], cls.lower()), ('obj', cls, 'node'))
            if attr == 'state_vars': return ('SObjList sch_nodestatevars', ('list', 'NodeStateVars', 'node'))
            return ('SPlain RReint', ('plain',))
        if cname == 'Product':
            if attr == 'network': return ('SBacklink', ('link',))
            if attr in ('demand_source', 'disruption_process', '_inventory_policy'):
                cls = {'demand_source': 'DemandSource', 'disruption_process': 'DisruptionProcess', '_inventory_policy': 'Policy'}[attr]
                return ('SObjAttr MarkerNo %s sch_%s_product' % (self.none_mode[('Product', attr)], cls.lower()), ('obj', cls, 'product'))
            if attr == '_bill_of_materials': return ('SPlain RIntKeys', ('plain',))
            return ('SPlain RPass', ('plain',))
        if cname == 'Policy':
            if attr == '_node': return (('SRefOwner' if level == 'node' else 'SRefDrop'), ('noderef',))
            return ('SPlain RPass', ('plain',))
        if cname == 'DemandSource':
            m = 'RDemandList' if attr == '_demand_list' else 'RPass'
            return (('SGetter ' if attr in self.ds_getter else 'SPlain ') + m, ('getter',) if attr in self.ds_getter else ('plain',))
        if cname == 'DisruptionProcess':
            return ('SPlain RPass', ('plain',))
        if cname == 'NodeStateVars':
            if attr == 'node': return ('SRefOwner', ('noderef',))
            return ('SPlain %s' % self.sv_mode, ('plain',))
        raise KeyError(cname)

    def coq_defs(self):
        out = []
        def cls_def(name, cname, level, idx, strip):
            rows = []
            for a, dv in self.tables[cname]:
                rows.append('(%s, (%s, %s))' % (cstr(a), self.kind(cname, a, level)[0], coq_pv(pv_tree(dv))))
            out.append('Definition %s := SClass %s %s [%s].' % (name, cbool(idx), cbool(strip), ';\n  '.join(rows)))
        for lvl in ('node', 'product'):
            cls_def('sch_policy_' + lvl, 'Policy', lvl, False, True)
            cls_def('sch_demandsource_' + lvl, 'DemandSource', lvl, False, True)
            cls_def('sch_disruptionprocess_' + lvl, 'DisruptionProcess', lvl, False, True)
        cls_def('sch_nodestatevars', 'NodeStateVars', 'node', False, False)
        cls_def('sch_node', 'Node', 'node', True, False)
        cls_def('sch_product', 'Product', 'product', False, False)
        cls_def('sch_network', 'Network', 'net', False, False)
        return '\n'.join(out)

    # ---- python object -> val tree ('VPlain', pv) | ('VGet', a, b) | ('VRef', z|None) | ('VLink',) | ('VNoneObj',) | ('VObj', [(name, val)]) | ('VObjDict', [(z, val)]) | ('VObjList', [val])
    def obj_val(self, obj, cname, level, sv_limit=None):
        C = self.C
        fields = []
        for a, _ in self.tables[cname]:
            tag = self.kind(cname, a, level)[1]
            raw = vars(obj).get(a, None)
            if tag[0] == 'plain': v = ('VPlain', pv_tree(raw))
            elif tag[0] == 'getter':
                prop = a[1:] if a.startswith('_') else a
                v = ('VGet', pv_tree(raw), pv_tree(getattr(obj, prop)))
            elif tag[0] == 'link': v = ('VLink',)
            elif tag[0] == 'ref': v = ('VRef', None if raw is None else (raw.index if isinstance(raw, C['Product']) else int(raw)))
            elif tag[0] == 'noderef': v = ('VRef', None if raw is None else (raw.index if isinstance(raw, C['Node']) else int(raw)))
            elif tag[0] == 'obj':
                if raw is None: v = ('VNoneObj',)
                elif isinstance(raw, dict):
                    # Ser/Codec.v's `conforms` requires the entries of a product-keyed object dict to be objects
                    if any(o is None for o in raw.values()): raise Unsupported('None entry in a product-keyed object dict')
                    v = ('VObjDict', [(int(k), self.obj_val(o, tag[1], tag[2])) for k, o in raw.items()])
                else: v = self.obj_val(raw, tag[1], tag[2])
            elif tag[0] == 'list':
                if raw is None: v = ('VNoneObj',)
                else:
                    lst = raw if (sv_limit is None or tag[1] != 'NodeStateVars') else raw[:sv_limit]
                    v = ('VObjList', [self.obj_val(o, tag[1], tag[2], sv_limit) for o in lst])
            fields.append((a, v))
        return ('VObj', fields)


def coq_val(t):
    k = t[0]
    if k == 'VPlain': return '(VPlain %s)' % coq_pv(t[1])
    if k == 'VGet': return '(VGet %s %s)' % (coq_pv(t[1]), coq_pv(t[2]))
    if k == 'VRef': return '(VRef %s)' % ('None' if t[1] is None else '(Some %s)' % cz(t[1]))
    if k in ('VLink', 'VNoneObj', 'VErr'): return k
    if k == 'VObj': return '(VObj [%s])' % ';\n '.join('(%s, %s)' % (cstr(a), coq_val(v)) for a, v in t[1])
    if k == 'VObjDict': return '(VObjDict [%s])' % '; '.join('(%s, %s)' % (cz(z), coq_val(v)) for z, v in t[1])
    if k == 'VObjList': return '(VObjList [%s])' % '; '.join(coq_val(v) for v in t[1])
    raise ValueError(k)


def js_val(t):
    k = t[0]
    if k == 'VPlain': return {'VPlain': js_pv(t[1])}
    if k == 'VGet': return {'VGet': [js_pv(t[1]), js_pv(t[2])]}
    if k == 'VRef': return {'VRef': None if t[1] is None else str(t[1])}
    if k in ('VLink', 'VNoneObj', 'VErr'): return {k: None}
    if k == 'VObj': return {'VObj': [[a, js_val(v)] for a, v in t[1]]}
    if k == 'VObjDict': return {'VObjDict': [[str(z), js_val(v)] for z, v in t[1]]}
    if k == 'VObjList': return {'VObjList': [js_val(v) for v in t[1]]}


def first_diff(a, b, path=''):
    if type(a) is not type(b): return '%s: %r vs %r' % (path, str(a)[:120], str(b)[:120])
    if isinstance(a, dict):
        for k in a:
            if k not in b: return '%s: key %r missing' % (path, k)
            r = first_diff(a[k], b[k], path + '/' + str(k))
            if r: return r
        for k in b:
            if k not in a: return '%s: extra key %r' % (path, k)
        return None
    if isinstance(a, list):
        if len(a) != len(b): return '%s: length %d vs %d (%s | %s)' % (path, len(a), len(b), str(a)[:150], str(b)[:150])
        for i, (x, y) in enumerate(zip(a, b)):
            lab = x[0] if isinstance(x, list) and x and isinstance(x[0], str) else i
            r = first_diff(x, y, path + '[%s]' % lab)
            if r: return r
        return None
    return None if a == b else '%s: %r vs %r' % (path, a, b)


def prune_state_vars(net, limit):
    """a real copy of the network whose state-variable lists are cut to `limit` periods (keeps the Coq terms small)"""
    n2 = copy.deepcopy(net)
    for n in n2.nodes:
        if n.state_vars: n.state_vars = n.state_vars[:limit]
    return n2


def model_check(chk, sch, items):
    """items: list of (case, net). Evaluates the model in Coq and compares with the implementation."""
    C = classes()
    jobs = []
    for case, net in items:
        try:
            v = sch.obj_val(net, 'Network', 'net')
            impl_dict = net.to_dict()
            from stockpyl.helpers import serialize_set
            impl_json = json.loads(json.dumps(impl_dict, default=serialize_set))
            r_dict = C['Network'].from_dict(copy.deepcopy(impl_dict))
            r_json = C['Network'].from_dict(json.loads(json.dumps(impl_dict, default=serialize_set)))
            jobs.append((case, v, impl_json, sch.obj_val(r_dict, 'Network', 'net'), sch.obj_val(r_json, 'Network', 'net')))
        except Unsupported as e:
            chk.count('model_skipped_unsupported_value')
        except Exception as e:
            chk.count('model_skipped_impl_raises_%s' % type(e).__name__)
    defs = sch.coq_defs()
    wf = coq_eval('c17_wf', 'Ser.Json Ser.Codec', defs, ['wf_schemab sch_network'], timeout=300)[0]
    chk.extra['schema_wf_check'] = bool(wf)
    if wf is not True:
        chk.mismatch('the schema extracted from the current source is not well-formed (duplicate attribute keys, an attribute called dict_type, or no plain _index in SupplyChainNode): the round-trip theorems do not apply', {'tables': {k: [a for a, _ in v] for k, v in sch.tables.items()}})
    if not jobs: return
    shards = [jobs[i:i + 6] for i in range(0, len(jobs), 6)]
    def run_shard(si_sh):
        si, sh = si_sh
        d = defs + '\n' + '\n'.join('Definition v_%d : val := %s.\nDefinition e_%d := encode sch_network v_%d.' % (i, coq_val(j[1]), i, i) for i, j in enumerate(sh))
        exprs = []
        for i in range(len(sh)):
            exprs += ['jv_show (json_dump e_%d)' % i,
                      'val_show (decode sch_network None PNone (Some e_%d))' % i,
                      'val_show (decode sch_network None PNone (Some (json_dump_load e_%d)))' % i,
                      'val_show (forget sch_network None v_%d)' % i]
        return coq_eval('c17_s%d' % si, 'Ser.Json Ser.Codec Ser.Show', d, exprs, timeout=600)
    with ThreadPoolExecutor(max_workers=8) as ex:
        results = list(ex.map(run_shard, enumerate(shards)))
    for sh, res in zip(shards, results):
        for i, (case, v, impl_json, vd, vj) in enumerate(sh):
            mj, md, mjj, mf = [json.loads(s) for s in res[4 * i:4 * i + 4]]
            chk.traces += 1
            a, b = canon(mj), canon(js_json(impl_json))
            if a != b: chk.mismatch('to_dict JSON: model vs implementation differ at %s' % first_diff(a, b), case)
            a, b = canon(md), canon(js_val(vd))
            if a != b: chk.mismatch('from_dict(to_dict(n)): model vs implementation differ at %s' % first_diff(a, b), case)
            a, b = canon(mjj), canon(js_val(vj))
            if a != b: chk.mismatch('from_dict(json(to_dict(n))): model vs implementation differ at %s' % first_diff(a, b), case)
            exact = canon(md) == canon(mf) and canon(mjj) == canon(mf)
            chk.count('model_roundtrip_equals_forget=%s' % exact)
            if not exact:
                # the theorems' hypotheses fail for this object: only the known getter kind may be responsible
                why = first_diff(canon(mf), canon(mjj)) or first_diff(canon(mf), canon(md))
                if not re.search(r'_mean|_standard_deviation', why or ''):
                    chk.mismatch('model round trip differs from forget(n) outside the SGetter attributes: %s' % why, case)


# =================================================================================================
# oracles on the implementation

def relink_product_policies(net):
    """documented exception: product-level policies come back without their node link; restore it before simulating"""
    for n in net.nodes:
        for p in n.products:
            pol = p.inventory_policy
            if pol is not None and pol.type is not None and pol.node is None:
                pol.node = n


def trajectory(net, T, seed):
    try:
        cost = simulate(net, T, seed)
    except Exception as e:
        return ('raises', type(e).__name__)
    C = classes()
    return ('ok', cost, {n.index: [snap(sv, C) for sv in n.state_vars] for n in net.nodes})


def roundtrip_oracle(chk, case, spec, net, files):
    """all per-network checks; returns list of (sig, msg)"""
    from stockpyl.instances import save_instance, load_instance
    C = classes()
    bad = []
    s0 = snap(net, C); t0 = attribute_table(net)
    has_sv = any(n.state_vars for n in net.nodes)
    def check(reloaded, what, expect_no_sv=False):
        s1 = snap(reloaded, C)
        lenient = []
        b = compare_networks(s0, s1, what, expect_no_sv, lenient)
        t1 = attribute_table(reloaded)
        for k in t0:
            if k not in t1: b.append(('%s|get_attribute' % what, '%s: (node/product/attr) %s missing' % (what, k)))
            else:
                for path, msg, x, y in diff(t0[k], t1[k], limit=5):
                    if re.search(r"'(_mean|_standard_deviation)'$", path) and x is None: continue      # reported above under the known signature
                    if path.endswith("'_node'") and y is None: continue
                    b.append(('%s|get_attribute' % what, '%s: get_attribute %s %s: %s' % (what, k, path, msg)))
        for n in reloaded.nodes:
            if n.network is not reloaded: b.append(('%s|node.network' % what, 'node %d .network is not the reloaded network' % n.index))
            for sv in (n.state_vars or []):
                if sv.node is not n: b.append(('%s|state_vars.node' % what, 'state var node link of node %d not restored' % n.index)); break
            pol = n.inventory_policy
            for p in (pol.values() if isinstance(pol, dict) else [pol] if pol is not None else []):
                if p.node is not n: b.append(('%s|policy.node' % what, 'node-level policy of node %d not linked to its node' % n.index))
        # stockpyl's own comparison must agree (it skips state_vars and function attributes)
        known = any(sig == KNOWN_D1 for sig, _ in b)
        try:
            de = net.deep_equal_to(reloaded) and reloaded.deep_equal_to(net)
        except Exception as e:
            de = None; b.append(('%s|deep_equal_to-raises-%s' % (what, type(e).__name__), str(e)[:200]))
        if de is False and not b and not lenient:
            b.append(('%s|deep_equal_to-false-but-no-difference-found' % what, 'deep_equal_to is False although the deep comparison found no difference'))
        return b, reloaded
    # (a) to_dict -> from_dict
    r1 = None; d = None; d0 = None
    try:
        d = net.to_dict()
        d0 = snap(d, C)                 # image of the dict before anything reads it
        b, r1 = check(C['Network'].from_dict(d), 'SupplyChainNetwork.from_dict(to_dict)')
        bad += b
    except Exception as e:
        bad.append(('SupplyChainNetwork.from_dict(to_dict)|raises-%s' % type(e).__name__, traceback.format_exc()[-500:]))
    # (a2) histories on ONE dict object: from_dict must read its argument, not consume it; the dict stays usable and independent of
    #      the networks built from it (the first reloaded network is simulated = mutated in between); converting the same dict again,
    #      and converting the reloaded network once more (second generation), still give the original
    ta = None
    if r1 is not None:
        def dict_unchanged(when):
            for path, msg, x, y in diff(d0, snap(d, C), limit=3):
                bad.append(('SupplyChainNetwork.from_dict|argument-dict-changed', 'the dict d = net.to_dict() was changed %s at %s: %s' % (when, path, msg)))
        dict_unchanged('by from_dict(d)')
        what2 = 'SupplyChainNetwork.from_dict(to_dict) second generation'
        try:
            b, _ = check(C['Network'].from_dict(r1.to_dict()), what2)
            bad += b
        except Exception as e:
            bad.append(('%s|raises-%s' % (what2, type(e).__name__), traceback.format_exc()[-500:]))
        if spec['sim']:
            ta = trajectory(copy.deepcopy(net), spec['T'], spec['seed'])
            relink_product_policies(r1)
            bad += compare_trajectories(ta, trajectory(r1, spec['T'], spec['seed']), 'network rebuilt by from_dict(to_dict)')
            dict_unchanged('by simulating the network built from it')
        what2 = 'SupplyChainNetwork.from_dict(to_dict) second conversion of the same dict'
        try:
            b, r2 = check(C['Network'].from_dict(d), what2)
            bad += b
            dict_unchanged('by the second from_dict(d)')
            if ta is not None and not [s for s, _ in b if s != KNOWN_D1]:
                relink_product_policies(r2)
                bad += compare_trajectories(ta, trajectory(r2, spec['T'], spec['seed']), 'network rebuilt by the second from_dict of the same dict')
        except Exception as e:
            bad.append(('%s|raises-%s' % (what2, type(e).__name__), traceback.format_exc()[-500:]))
        try:
            for path, msg, x, y in diff(d0, snap(net.to_dict(), C), limit=3):
                bad.append(('SupplyChainNetwork.to_dict|not-repeatable', 'a later net.to_dict() differs from the first one at %s: %s' % (path, msg)))
        except Exception as e:
            bad.append(('SupplyChainNetwork.to_dict|second-call-raises-%s' % type(e).__name__, traceback.format_exc()[-500:]))
    # (b) save_instance -> load_instance, without and with state variables
    fp = os.path.join(SCRATCH, 'rt_%d.json' % len(files)); files.append(fp)
    reloaded_plain = None
    for omit, ignore in ((True, True), (False, False), (False, True)) if has_sv else ((True, True), (False, False)):
        what = 'save_instance/load_instance(omit_state_vars=%s,ignore_state_vars=%s)' % (omit, ignore)
        try:
            save_instance('inst', net, 'descr', filepath=fp, omit_state_vars=omit, delete_if_exists=True)
            r = load_instance('inst', filepath=fp, ignore_state_vars=ignore)
            b, _ = check(r, what, expect_no_sv=(omit or ignore))
            bad += b
            if omit and ignore: reloaded_plain = r
            if not omit and not ignore:
                # histories on ONE file: a second load of the same record, and the loaded network saved over the record and
                # loaded again (second generation), still give the original
                raw0 = open(fp).read()
                what2 = what + ' second load of the same file'
                b, r = check(load_instance('inst', filepath=fp, ignore_state_vars=ignore), what2, expect_no_sv=False)
                bad += b
                if open(fp).read() != raw0: bad.append(('load_instance|file-changed', 'load_instance changed the file'))
                what2 = what + ' second generation'
                save_instance('inst', r, 'descr', filepath=fp, omit_state_vars=omit, replace=True)
                b, _ = check(load_instance('inst', filepath=fp, ignore_state_vars=ignore), what2, expect_no_sv=False)
                bad += b
        except Exception as e:
            bad.append(('%s|raises-%s' % (what, type(e).__name__), traceback.format_exc()[-500:]))
    # (c) nothing of the above altered the original
    for path, msg, x, y in diff(s0, snap(net, C), limit=5):
        bad.append(('save_instance|original-mutated', 'original network changed by to_dict/save_instance at %s: %s' % (path, msg)))
    # (d) same trajectory under the same seed
    if spec['sim'] and reloaded_plain is not None:
        if ta is None: ta = trajectory(copy.deepcopy(net), spec['T'], spec['seed'])
        relink_product_policies(reloaded_plain)
        tb = trajectory(reloaded_plain, spec['T'], spec['seed'])
        chk.count('sim=%s' % ta[0])
        bad += compare_trajectories(ta, tb, 'network reloaded from the instance file')
    return bad


def compare_trajectories(ta, tb, which):
    """ta / tb = trajectory(original) / trajectory(reloaded) under the same seed -> list of (sig, msg)"""
    bad = []
    if ta[0] != tb[0] or (ta[0] == 'raises' and ta[1] != tb[1]):
        bad.append(('simulation|reloaded-behaves-differently', '%s: original: %r, reloaded: %r' % (which, ta[:2], tb[:2])))
    elif ta[0] == 'ok':
        if not same_leaf(ta[1], tb[1]): bad.append(('simulation|total-cost-differs', '%s: total cost %r vs %r' % (which, ta[1], tb[1])))
        for path, msg, x, y in diff(ta[2], tb[2], limit=5):
            bad.append(('simulation|trajectory-differs', '%s: state variables differ at %s: %s' % (which, path, msg)))
    return bad


# ---- write_results CSV --------------------------------------------------------------------------------
NESTED = {'IO': 'inbound_order', 'IOPL': 'inbound_order_pipeline', 'OQ': 'order_quantity', 'OO': 'on_order_by_predecessor', 'IS': 'inbound_shipment',
          'ISPL': 'inbound_shipment_pipeline', 'IDI': 'inbound_disrupted_items', 'OS': 'outbound_shipment', 'BO': 'backorders_by_successor', 'ODI': 'outbound_disrupted_items'}
FLAT = {'OQFG': 'order_quantity_fg', 'RM': 'raw_material_inventory', 'PFG': 'pending_finished_goods', 'DMFS': 'demand_met_from_stock', 'FR': 'fill_rate', 'IL': 'inventory_level'}
SCALAR = {'DISR': 'disrupted', 'HC': 'holding_cost_incurred', 'SC': 'stockout_cost_incurred', 'ITHC': 'in_transit_holding_cost_incurred', 'REV': 'revenue_earned', 'TC': 'total_cost_incurred'}
ALL_COLS = ['DISR', 'IO', 'IOPL', 'OQ', 'OQFG', 'OO', 'IS', 'ISPL', 'IDI', 'RM', 'PFG', 'OS', 'DMFS', 'FR', 'IL', 'BO', 'ODI', 'HC', 'SC', 'ITHC', 'REV', 'TC']


def tag_state_vars(net):
    """overwrite every numeric leaf of every state variable with a distinct number"""
    ctr = itertools.count(1001)
    def tag(x):
        if isinstance(x, dict): return {k: tag(v) for k, v in x.items()}
        if isinstance(x, list): return [tag(v) for v in x]
        if isinstance(x, bool): return x
        return next(ctr)
    for n in net.nodes:
        for sv in n.state_vars:
            for k, v in list(vars(sv).items()):
                if k in ('node', 'period'): continue
                setattr(sv, k, tag(v))


def csv_expected(net, node, sv, code, suppress):
    """independent reading of the header scheme documented in sim_io.py: list of (label, cell text) for one column code"""
    lab = lambda k: 'EXT' if k is None else '%d' % k
    if code in SCALAR: return [(code, str(getattr(sv, SCALAR[code])))]
    if code in NESTED:
        out = []
        for k1, dd in getattr(sv, NESTED[code]).items():
            for k2, v in dd.items():
                h = '%s:%s' % (code, lab(k1))
                if k2 >= 0 or not suppress: h += '|%d' % k2
                out.append((h, str(v[1:] if code in ('IOPL', 'ISPL') else v)))
        return out
    out = []
    for k, v in getattr(sv, FLAT[code]).items():
        if code == 'RM' and suppress and net.products_by_index[k].is_dummy:
            sup = node.raw_material_suppliers_by_raw_material(raw_material=k, return_indices=True)[0]
            h = 'RM:%s' % lab(sup)
        elif code == 'RM': h = 'RM:%d' % k
        elif k is None: h = code + ':EXT'
        elif k >= 0 or not suppress: h = '%s:%d' % (code, k)
        else: h = code
        out.append((h, str(v)))
    return out


def csv_oracle(chk, net, T, rng, files, tagged):
    from stockpyl.sim_io import write_results
    bad = []
    fp = os.path.join(SCRATCH, 'res_%d.csv' % len(files)); files.append(fp)
    suppress = rng.random() < 0.6
    cols = None if rng.random() < 0.4 else rng.sample(ALL_COLS, rng.randint(1, 8))
    periods = None if rng.random() < 0.6 else sorted(rng.sample(range(T), rng.randint(1, T)))
    chk.count('csv_suppress_dummy=%s' % suppress); chk.count('csv_tagged=%s' % tagged)
    try:
        quiet(write_results, net, T, periods_to_print=periods, columns_to_print=None if cols is None else list(cols),
              suppress_dummy_products=suppress, write_csv=True, csv_filename=fp)
    except Exception as e:
        return [('write_results|raises-%s' % type(e).__name__, traceback.format_exc()[-400:])]
    rows = list(csv.reader(open(fp)))
    hdr = rows[0]; body = rows[1:]
    if hdr[0] != 't': bad.append(('write_results|header', 'first header cell %r' % hdr[0]))
    starts = [i for i, h in enumerate(hdr) if re.fullmatch(r'i=-?\d+', h)]
    order = [int(hdr[i][2:]) for i in starts]
    if order != sorted(net.node_indices): bad.append(('write_results|node-blocks', 'node blocks %r vs nodes %r' % (order, sorted(net.node_indices))))
    pers = periods if periods is not None else list(range(T))
    if [r[0] for r in body] != [str(t) for t in pers]: bad.append(('write_results|period-column', 'period cells %r vs %r' % ([r[0] for r in body][:8], pers[:8])))
    use = [c for c in ALL_COLS if cols is None or c in cols]
    for r, t in zip(body, pers):
        if len(r) != len(hdr): bad.append(('write_results|row-length', 'row for period %d has %d cells, header has %d' % (t, len(r), len(hdr)))); continue
        for bi, st in enumerate(starts):
            en = starts[bi + 1] if bi + 1 < len(starts) else len(hdr)
            node = net.nodes_by_index[order[bi]]
            sv = node.state_vars[t]
            exp = []
            for c in use: exp += csv_expected(net, node, sv, c, suppress)
            got = list(zip(hdr[st + 1:en], r[st + 1:en]))
            if r[st] != '': bad.append(('write_results|separator', 'separator cell %r' % r[st]))
            # (two raw materials that get the same label are printed as one column: compare RM labels as a set)
            norm = lambda hs: sorted(h for h in hs if not h.startswith('RM')) + sorted(set(h for h in hs if h.startswith('RM')))
            if norm([h for h, _ in got]) != norm([h for h, _ in exp]):
                sig = 'write_results|RM-header-labels' if sorted(h for h, _ in got if not h.startswith('RM')) == sorted(h for h, _ in exp if not h.startswith('RM')) else 'write_results|header-labels'
                bad.append((sig, 'node %d: header labels %r, expected (as a multiset) %r' % (node.index, [h for h, _ in got], [h for h, _ in exp])))
                continue
            cand = {}
            for h, v in exp: cand.setdefault(h, []).append(v)
            for h, v in got:
                if v not in cand[h]:
                    code = h.split(':')[0].split('|')[0]
                    sig = 'write_results|RM-columns-misaligned' if code == 'RM' else 'write_results|cell-differs-from-labelled-state-variable'
                    bad.append((sig, 'period %d node %d: cell under header %r is %r but the state variable it names is %r (suppress_dummy_products=%s)'
                                % (t, node.index, h, v, cand[h], suppress)))
        if len(bad) > 6: break
    return bad


# ---- random save / replace / load sequences on one file --------------------------------------------------
def file_ops_oracle(chk, rng, nets, nops, files, with_model=True):
    """nets: list of (spec, net). Returns (bad, model_job)"""
    from stockpyl.instances import save_instance, load_instance
    C = classes()
    bad = []
    fp = os.path.join(SCRATCH, 'ops_%d.json' % len(files)); files.append(fp)
    if os.path.exists(fp): os.remove(fp)
    names = ['a', 'b', 'c', 'd']
    expected = {}          # name -> ('network', snapshot of saved net, omit) | ('dict', data)
    ops = []
    def raw():
        if not os.path.exists(fp): return []
        return json.load(open(fp))['instances']
    for step in range(nops):
        before = raw()
        kind = rng.choice(['save_net', 'save_net', 'save_dict', 'load', 'load'])
        nm = rng.choice(names)
        if kind == 'save_net' and nets:
            j = rng.randrange(len(nets)); spec, net = nets[j]
            replace = rng.random() < 0.7; omit = rng.random() < 0.6
            s0 = snap(net, C)
            try:
                save_instance(nm, net, 'd%d' % step, filepath=fp, replace=replace, omit_state_vars=omit)
            except Exception as e:
                bad.append(('save_instance|raises-%s' % type(e).__name__, traceback.format_exc()[-400:])); break
            if snap(net, C) != s0: bad.append(('save_instance|original-mutated', 'save_instance(%r) changed the network it was given' % nm))
            took = replace or nm not in expected
            if took: expected[nm] = ('network', s0, omit, 'd%d' % step)
            ops.append(['save_net', nm, j, replace, omit])
        elif kind == 'save_dict' or (kind == 'save_net' and not nets):
            data = {'holding_cost': rng.randint(1, 9) / 2, 'tag': 'x%d' % step, 'lst': [1, 2.5, None, True], 'nested': {'k': [step]}}
            if rng.random() < 0.5: data['demand_pmf'] = {rng.randint(0, 5): 0.5, 7: 0.5}
            replace = rng.random() < 0.7
            d0 = copy.deepcopy(data)
            try:
                save_instance(nm, data, 'd%d' % step, filepath=fp, replace=replace)
            except Exception as e:
                bad.append(('save_instance|raises-%s' % type(e).__name__, traceback.format_exc()[-400:])); break
            if data != d0: bad.append(('save_instance|original-mutated', 'save_instance(%r) changed the dict it was given' % nm))
            if replace or nm not in expected: expected[nm] = ('dict', d0, None, 'd%d' % step)
            ops.append(['save_dict', nm, d0, replace])
        else:
            try:
                r = load_instance(nm, filepath=fp, ignore_state_vars=False) if os.path.exists(fp) else None
                if nm not in expected and os.path.exists(fp):
                    bad.append(('load_instance|missing-name-accepted', 'load_instance(%r) returned although the name was never saved' % nm))
            except KeyError:
                r = None
                if nm in expected: bad.append(('load_instance|saved-instance-not-found', 'load_instance(%r): KeyError although it was saved' % nm))
            except Exception as e:
                bad.append(('load_instance|raises-%s' % type(e).__name__, traceback.format_exc()[-400:])); r = None
            if r is not None and nm in expected:
                ty, s0, omit, _ = expected[nm]
                if ty == 'dict':
                    want = json.loads(json.dumps(s0))
                    if 'demand_pmf' in s0: want['demand_pmf'] = dict(s0['demand_pmf'])
                    if r != want: bad.append(('load_instance|dict-instance-differs', 'loaded %r, saved %r' % (r, s0)))
                else:
                    if isinstance(r, dict): bad.append(('load_instance|network-came-back-as-dict', nm))
                    else:
                        for sig, msg in compare_networks(s0, snap(r, C), 'file-sequence save/load', expect_no_state_vars=omit):
                            if sig != KNOWN_D1: bad.append((sig, msg))
                            else: bad.append((sig, msg))
            ops.append(['load', nm])
        after = raw()
        # every other record is unchanged, order of names preserved, exactly one record per name
        target = nm if ops[-1][0] != 'load' else None
        bn = [i['name'] for i in before]; an = [i['name'] for i in after]
        if len(set(an)) != len(an): bad.append(('save_instance|duplicate-names-in-file', repr(an)))
        if target is None:
            if after != before: bad.append(('load_instance|file-changed', 'load_instance changed the file'))
        else:
            if [x for x in an if x != target] != [x for x in bn if x != target]:
                bad.append(('save_instance|other-instances-lost-or-reordered', 'names before %r, after saving %r: %r' % (bn, target, an)))
            for i in before:
                if i['name'] != target:
                    j = [x for x in after if x['name'] == i['name']]
                    if j and j[0] != i: bad.append(('save_instance|other-instance-altered', 'record %r changed when %r was saved' % (i['name'], target)))
            if target in bn and target in an and bn.index(target) != an.index(target):
                bad.append(('save_instance|replaced-instance-moved', 'position of %r changed' % target))
            if set(an) != set(expected): bad.append(('save_instance|names-in-file', 'file has %r, expected %r' % (an, sorted(expected))))
            for i in after:
                if i['name'] in expected and i['description'] != expected[i['name']][3]:
                    bad.append(('save_instance|description', 'record %r has description %r, expected %r (replace semantics)' % (i['name'], i['description'], expected[i['name']][3])))
        if len(bad) > 8: break
    return bad, (ops, raw())


def file_model_check(chk, sch, jobs):
    """jobs: list of (ops, final raw instances) with dict instances only -> compare with Ser/Codec.v's file model"""
    exprs = []; keep = []
    for ops, final in jobs:
        if any(o[0] == 'save_net' for o in ops): continue
        cops = []
        for o in ops:
            if o[0] == 'save_dict': cops.append('OSaveDict %s %s %s %s' % (cstr(o[1]), cstr('d?'), coq_pv(pv_tree(o[2])), cbool(o[3])))
            else: cops.append('OLoad %s' % cstr(o[1]))
        exprs.append('map (fun i => (i_name i, jv_show (i_data i), i_type i)) (st_file (run (SPlain RPass) [%s] {| st_mem := []; st_file := [] |}))' % '; '.join(cops))
        keep.append((ops, final))
    if not exprs: return
    res = coq_eval('c17_file', 'Ser.Json Ser.Codec Ser.Show', '', exprs, timeout=300)
    for (ops, final), r in zip(keep, res):
        chk.traces += 1
        got = [(nm, canon(json.loads(js)), ty) for nm, js, ty in r]
        want = [(i['name'], canon(js_json(i['data'])), i['type']) for i in final]
        if got != want: chk.mismatch('instance file after %d operations: model %r vs file %r' % (len(ops), str(got)[:300], str(want)[:300]), {'ops': ops})


# =================================================================================================
def nontrivial(spec):
    s = json.dumps(spec)
    return '"pk"' in s or spec['presim'] or bool(spec['prod_attrs']) or any(v for v in spec['disruption'].values())


def explore(chk, sch, n, n_model, n_seq, do_model=True):
    rng = chk.rng
    files = []
    os.makedirs(SCRATCH, exist_ok=True)
    built = []
    model_items = []
    try:
        for c in range(n):
            spec = gen_spec(rng)
            case = {'kind': 'network', 'spec': spec}
            try:
                net = build(spec)
            except Exception as e:
                chk.count('build_raises_%s' % type(e).__name__); chk.case(case, False); continue
            if spec['sim'] and spec['presim']:
                try: simulate(net, spec['T'], spec['seed']); chk.count('presim=ok')
                except Exception as e:
                    chk.count('presim=raises'); net = build(spec); spec['presim'] = False
            chk.count('nodes=%d' % len(spec['nodes'])); chk.count('multi=%s' % spec['multi']); chk.count('shape=%s' % spec['shape'])
            chk.count('state_vars=%s' % bool(spec['presim'] and spec['sim']))
            for cl in sorted(pk_classes(spec)): chk.count(cl)
            for sig, msg in roundtrip_oracle(chk, case, spec, net, files):
                chk.fail(sig, msg, case)
            if any(nd.state_vars for nd in net.nodes):
                for tagged in (False, True):
                    nn = net
                    if tagged:
                        nn = copy.deepcopy(net); tag_state_vars(nn)
                    for sig, msg in csv_oracle(chk, nn, spec['T'], rng, files, tagged):
                        chk.fail(sig, msg, dict(case, csv_tagged=tagged))
            built.append((spec, net))
            if do_model and len(model_items) < n_model:
                if obj_none_entry(spec): chk.count('model_not_applicable_None_entry_in_object_dict')      # harness oracles only
                else: model_items.append((case, prune_state_vars(net, 2)))
            chk.case(case, nontrivial(spec), key=json.dumps(jsonable(spec), sort_keys=True))
            for f in files:
                if os.path.exists(f): os.remove(f)
            files[:] = []
        # file operation sequences
        fjobs = []
        for q in range(n_seq):
            only_dicts = q % 3 == 0
            nets = [] if only_dicts else [built[rng.randrange(len(built))] for _ in range(min(3, len(built)))]
            nops = rng.randint(4, 12)
            bad, job = file_ops_oracle(chk, rng, nets, nops, files)
            case = {'kind': 'file-ops', 'ops': job[0], 'specs': [s for s, _ in nets]}
            for sig, msg in bad: chk.fail(sig, msg, case)
            if only_dicts: fjobs.append(job)
            chk.count('file_op_sequences'); chk.case(case, True)
        if do_model:
            model_check(chk, sch, model_items)
            file_model_check(chk, sch, fjobs)
    finally:
        shutil.rmtree(SCRATCH, ignore_errors=True)


def run(chk):
    chk.rule = RULE
    chk.trusted += ['models Ser/Json.v, Ser/Codec.v are hand-written; the attribute tables (and the attribute kinds that depend on behaviour: property-derived '
                    'DemandSource fields, treatment of None-valued object attributes, key restoration of state variables) are extracted from the current source on every run; '
                    'tied to /repo by comparing the model\'s to_dict JSON, from_dict(to_dict(n)) and from_dict(json(to_dict(n))) with the implementation on generated networks',
                    'the instance-file model is tied to save_instance/load_instance on dict instances only; for networks the file oracle works on the real file',
                    'CSV check: the header scheme of sim_io.write_results is re-implemented in the harness (no Coq model)']
    chk.assume += ['numbers are exact rationals in the model; int/float distinction, NaN/Infinity, sets, callables (holding/stockout cost functions) are not modelled',
                   'dict keys are ints, None or strings that do not look numeric; strings are printable ASCII',
                   'attributes not declared in _DEFAULT_VALUES (purchase_cost, problem_specific_data, Policy.product_index) are outside the compared state',
                   'product-level policy node links are not restored (documented)',
                   'entries of product-keyed object dicts are objects in the model (hypothesis `conforms` of Ser/Codec.v): networks whose demand_source / disruption_process '
                   'dict has a None entry are judged by the harness oracles only (deep snapshot, get_attribute table, deep_equal_to, trajectory), not compared with the model']
    chk.proof()
    ok, log = coq_make(['Ser/Show.vo'])
    if not ok: chk.broken.append(('Ser/Show.vo', log[-800:]))
    sch = Schema()
    chk.extra['schema_from_source'] = {'attributes': {k: len(v) for k, v in sch.tables.items()}, 'ds_getter_attrs': sorted(sch.ds_getter),
                                       'none_mode': {'%s.%s' % k: v for k, v in sch.none_mode.items()}, 'state_var_key_mode': sch.sv_mode}
    n, n_model, n_seq = (70, 24, 12) if chk.tier == 'quick' else (600, 120, 80)
    explore(chk, sch, n, n_model, n_seq)
    if (chk.broken or chk.mismatches) and not [f for f in chk.fails if f[0] != KNOWN_D1]:
        explore(chk, sch, 4 * n if chk.tier == 'quick' else n, 0, 3 * n_seq, do_model=False)
    summary = {}
    for sig, what, case in chk.fails: summary.setdefault(sig, [0, what])[0] += 1
    for sig, (cnt, what) in sorted(summary.items()):
        print('  failing input x%d  %s :: %s' % (cnt, sig, what[:260]))
    for what, case in chk.mismatches[:5]:
        print('  model/implementation disagreement :: %s' % what[:300])


def replay(chk, rp):
    case = rp['case']
    os.makedirs(SCRATCH, exist_ok=True)
    try:
        if case.get('kind') == 'network':
            spec = case['spec']
            net = build(spec)
            if spec['sim'] and spec['presim']:
                simulate(net, spec['T'], spec['seed'])
            files = []
            for sig, msg in roundtrip_oracle(chk, case, spec, net, files):
                print(sig, '::', msg[:300]); chk.fail(sig, msg, case)
            if any(nd.state_vars for nd in net.nodes):
                import random
                for tagged in (False, True):
                    nn = copy.deepcopy(net)
                    if tagged: tag_state_vars(nn)
                    for k in range(6):
                        for sig, msg in csv_oracle(chk, nn, spec['T'], random.Random(k), files, tagged):
                            print(sig, '::', msg[:300]); chk.fail(sig, msg, case)
        else:
            import random
            nets = []
            for s in case.get('specs', []):
                net = build(s)
                if s['sim'] and s['presim']: simulate(net, s['T'], s['seed'])
                nets.append((s, net))
            for k in range(20):
                bad, _ = file_ops_oracle(chk, random.Random(k), nets, 10, [])
                for sig, msg in bad: print(sig, '::', msg[:300]); chk.fail(sig, msg, case)
        chk.case(case)
    finally:
        shutil.rmtree(SCRATCH, ignore_errors=True)
