"""C10 -- each closed-form solver is coherent with, and optimal for, its own cost function.

Every run:  (T) py2v regenerates coq/gen/Gen_*.v from the CURRENT source, `make`, Props/C10.v (theorems about the
regenerated definitions at the reals);  (a) translator validation: the same Gallina terms at FOps (binary64, vm_compute)
must be bit-identical to the running Python functions, with library calls replaced by values recorded on the same inputs;
(a') exact correspondence of the hand-written pmf-dict newsvendor model;  (b) independent Python oracles on the
implementation for every function of the property (optimise-then-evaluate coherence, grids of alternative decisions,
defining expectations by quadrature / summation, evaluation mode over the whole decision domain)."""
import importlib, math, warnings
from fractions import Fraction
import numpy as np
from vlib import *
import py2v
from props import c10_tie as tie

RULE = ('Per function of the property: admissible parameter vectors drawn from mixtures of uniform reals, multiples of 1/4 and '
        'log-uniform magnitudes (1e-2..1e3), lead times 0..4, plus a guard-violating stream (zero/negative/contradictory arguments); '
        'each case = one parameter vector with its optimise call, evaluate-at-optimum call, 20-40 alternative decisions near '
        '(1e-6..1e-2 relative) and far (x0.001..x1000 / all integers / quantile grid) from the optimum, an independent '
        'quadrature/summation of the defining expectation, and random evaluation-mode decisions. For the exact EOQ with disruptions also the two '
        'regimes in which the exact optimum is far from the approximate one that centres its search: small fixed cost with holding cost above '
        'stockout cost (optimum below), and stockout cost 1e-3.5..1e-1.2 with recovery rate 0.02..0.5 (optimum above, more than 10x in about '
        'half of the cases). Functions that accept the same quantity in two ways are also called with BOTH at once, about different distributions: '
        'newsvendor_with_additive_yield_uncertainty with yield_mean, yield_sd AND a non-normal yield_distribution (uniform / shifted exponential with the '
        'same two moments, or an unrelated uniform / gamma / randint) [AND a loss_function], and with only one of the two moments next to a distribution; '
        'newsvendor_discrete with demand_distrib AND an unrelated demand_pmf; newsvendor_continuous with demand_distrib AND an unrelated demand_pdf -- '
        'the optimum must be optimal for the cost the function itself evaluates (the documented precedence: moments, resp. the distribution object). '
        'pmf dicts are passed with their keys inserted in ascending, descending, random or decreasing-probability order. Distribution OBJECTS (frozen scipy '
        'distributions) of newsvendor_discrete and of the discrete-yield newsvendor: Poisson, binomial, discrete uniform, geometric, negative binomial, half of '
        'them with a location shift 1..40 (base quantity + random part; geometric also loc = -1), the defining expectation summed directly over the shifted support; '
        'those of newsvendor_continuous: exponential, gamma and lognormal also with a location shift 1..100. newsvendor_with_disruptions in two regimes: short '
        'disruptions (recovery_prob 0.1..0.95, disruption_prob 0.01..0.6) and LONG ones (recovery_prob log-uniform 0.003..0.05, disruption_prob log-uniform '
        '0.001..0.5, a quarter of them with stockout cost 30..250 over holding cost 0.5..2, critical ratio up to 0.998): the defining sum then has '
        'thousands of non-negligible terms (stationary distribution by power iteration on a chain of up to 25600 states) and the optimum is tens to hundreds of periods of demand; alternatives = the kinks '
        'around the optimum, the first 8 kinks, fractions and multiples (0.1..4x) of the optimum and random kinks up to twice the optimum. non-trivial = valid parameters '
        'with a strictly positive optimal cost and at least one alternative strictly worse; distinct = distinct (function, parameters).')

C10_MODULES = ('eoq', 'newsvendor', 'supply_uncertainty', 'loss_functions', 'optimization')      # rq / ss are translated too: tied and proved about in C14 (props/c14_gen.py)
C10_TRANSLATED = [q for q in py2v.EXPECTED if q.split('.')[0] in C10_MODULES]
REL = 1e-9
EXPECT_TOL = 1e-6


def imp(name):
    return importlib.import_module('stockpyl.' + name)


# ------------------------------------------------------------------------------------------------ generators
def pos(rng, lo=-2, hi=3):
    c = rng.random()
    if c < .4: return rng.uniform(0.05, 500)
    if c < .7: return rng.randint(1, 400) / 4
    return 10 ** rng.uniform(lo, hi)


def cost(rng):
    c = rng.random()
    if c < .5: return rng.randint(1, 80) / 4
    return rng.uniform(0.05, 50)


def bad(rng):
    return rng.choice([0.0, -1.0, -rng.uniform(0.1, 10)])


def gen_args(q, rng):
    """argument dict for the translator tie: mostly valid, sometimes guard-violating"""
    f = q.split('.', 1)[1]
    inv = rng.random() < 0.12
    a = {}
    if f == 'economic_order_quantity':
        a = dict(fixed_cost=pos(rng), holding_cost=cost(rng), demand_rate=pos(rng), order_quantity=rng.choice([None, pos(rng)]))
    elif f == 'economic_order_quantity_with_backorders':
        both = rng.random() < .5
        a = dict(fixed_cost=pos(rng), holding_cost=cost(rng), stockout_cost=cost(rng), demand_rate=pos(rng),
                 order_quantity=pos(rng) if both else None, stockout_fraction=rng.random() if both else None)
        if inv and rng.random() < .5: a[rng.choice(['order_quantity', 'stockout_fraction'])] = rng.choice([None, 1.5, pos(rng)]); inv = False
    elif f == 'economic_production_quantity':
        lam = pos(rng)
        a = dict(fixed_cost=pos(rng), holding_cost=cost(rng), demand_rate=lam, production_rate=lam * rng.uniform(1.05, 5), order_quantity=rng.choice([None, pos(rng)]))
        if inv and rng.random() < .4: a['production_rate'] = lam * rng.uniform(0.2, 1.0); inv = False
    elif f in ('eoq_with_disruptions[approximate=True]', 'eoq_with_disruptions_cost'):
        a = dict(fixed_cost=pos(rng), holding_cost=cost(rng), stockout_cost=cost(rng), demand_rate=pos(rng),
                 disruption_rate=pos(rng, -2, 1), recovery_rate=pos(rng, -1, 2))
        if f.endswith('_cost'): a.update(order_quantity=pos(rng), approximate=rng.random() < .5)
    elif f in ('eoq_with_additive_yield_uncertainty', 'eoq_with_multiplicative_yield_uncertainty'):
        add = 'additive' in f
        a = dict(fixed_cost=pos(rng), holding_cost=cost(rng), demand_rate=pos(rng),
                 yield_mean=(rng.uniform(-20, 20) if add else rng.uniform(0.2, 1.5)), yield_sd=(rng.uniform(0, 10) if add else rng.uniform(0, 0.5)),
                 order_quantity=rng.choice([None, pos(rng)]))
    elif f in ('newsvendor_normal', 'newsvendor_normal_cost'):
        m = pos(rng, 0, 3); s = m * rng.uniform(0.02, 0.6); L = float(rng.randint(0, 4))
        a = dict(holding_cost=cost(rng), stockout_cost=cost(rng), demand_mean=m, demand_sd=s, lead_time=L)
        b = m * (L + 1) + s * math.sqrt(L + 1) * rng.uniform(-4, 4)
        a['base_stock_level'] = b if f.endswith('_cost') else rng.choice([None, b])
    elif f in ('newsvendor_poisson', 'newsvendor_poisson_cost'):
        m = rng.choice([rng.uniform(0.3, 40), float(rng.randint(1, 30))])
        a = dict(holding_cost=cost(rng), stockout_cost=cost(rng), demand_mean=m)
        b = float(rng.randint(0, int(2 * m + 10)))
        if inv and rng.random() < .4: b += 0.5; inv = False
        a['base_stock_level'] = b if f.endswith('_cost') else rng.choice([None, b])
    elif f in ('myopic', 'myopic_cost'):
        h = cost(rng); p = cost(rng) + h; g = rng.choice([1.0, rng.uniform(0.7, 1.0)])
        c1 = cost(rng); cplus = rng.uniform(-h, p) * rng.choice([1, 1, 1, 1.3])
        c0 = cplus + g * c1
        m = pos(rng, 0, 3); s = m * rng.uniform(0.02, 0.6)
        a = dict(holding_cost=h, stockout_cost=p, purchase_cost=c0, purchase_cost_next_per=c1, demand_mean=m, demand_sd=s, discount_factor=g)
        b = m + s * rng.uniform(-4, 4)
        a['base_stock_level'] = b if f.endswith('_cost') else rng.choice([None, b])
    elif f in ('newsvendor_normal_explicit', 'newsvendor_poisson_explicit'):
        v = cost(rng); c = v + cost(rng); r = c + cost(rng)
        if inv and rng.random() < .5: r, c = c, r; inv = False
        a = dict(revenue=r, purchase_cost=c, salvage_value=v, holding_cost=rng.choice([0.0, cost(rng)]), stockout_cost=rng.choice([0.0, cost(rng)]),
                 lead_time=float(rng.randint(0, 3)))
        if 'normal' in f:
            m = pos(rng, 0, 3); s = m * rng.uniform(0.02, 0.6)
            a.update(demand_mean=m, demand_sd=s, base_stock_level=rng.choice([None, m * (a['lead_time'] + 1) + s * rng.uniform(-4, 4)]))
        else:
            m = rng.uniform(0.3, 25)
            a.update(demand_mean=m, base_stock_level=rng.choice([None, float(rng.randint(0, int(2 * m * (a['lead_time'] + 1) + 10)))]))
    else:
        info = py2v.FUNCS[q]
        for p in info['params']:
            if p['kind'] == 'bool': a[p['name']] = rng.random() < .5
            elif p['kind'] == 'opt': a[p['name']] = None if rng.random() < .5 else pos(rng)
            elif p['name'] in ('x',) and 'poisson' in f: a[p['name']] = float(rng.randint(0, 30))
            else: a[p['name']] = pos(rng, -1, 2) if rng.random() < .9 else rng.choice([0.0, -pos(rng, -1, 1)])
        inv = False
    if inv:
        keys = [k for k, v in a.items() if isinstance(v, float) and k not in ('lead_time', 'yield_mean', 'base_stock_level', 'purchase_cost', 'purchase_cost_next_per', 'discount_factor')]
        if keys: a[rng.choice(keys)] = bad(rng)
    return a


# ------------------------------------------------------------------------------------------------ oracle helpers
class Oracle:
    def __init__(self, chk):
        self.chk = chk

    def call(self, sig, fn, case, *a, **k):
        """call the implementation; an exception on an admissible input is a failing input"""
        with warnings.catch_warnings():
            warnings.simplefilter('ignore')
            try:
                return fn(*a, **k)
            except Exception as e:
                self.chk.fail('%s|raises-%s' % (sig, exc_kind(e)), '%s raised %s: %s' % (sig, exc_kind(e), str(e)[:160]), case)
                return None

    def close(self, a, b, rel=REL):
        a = float(a); b = float(b)
        return a == b or abs(a - b) <= rel * max(1.0, abs(a), abs(b))

    def finite(self, x):
        try:
            return math.isfinite(float(x))
        except Exception:
            return False

    def coherent(self, sig, c_opt, c_eval, case, what='cost'):
        if c_eval is None: return
        if not (self.finite(c_opt) and self.finite(c_eval)) or not self.close(c_opt, c_eval):
            self.chk.fail(sig + '|optimise-vs-evaluate', '%s returned with the optimum %r != %s evaluated at that decision %r' % (what, c_opt, what, c_eval), case)

    def no_better(self, sig, c_opt, alts, case, sense=1):
        """alts: list of (decision, value). sense=+1 minimisation, -1 maximisation"""
        worse = 0
        for d, v in alts:
            if v is None: continue
            if not self.finite(v):
                self.chk.fail(sig + '|evaluation-not-finite', 'evaluation at decision %r gives %r' % (d, v), dict(case, decision=d)); continue
            gap = sense * (float(c_opt) - float(v))
            if gap > REL * max(1.0, abs(float(c_opt))):
                self.chk.fail(sig + '|alternative-better', 'decision %r evaluates to %r, better than the reported optimum %r' % (d, float(v), float(c_opt)), dict(case, decision=d))
            if gap < -1e-7 * max(1.0, abs(float(c_opt))): worse += 1
        return worse

    def expectation(self, sig, got, want, case, tol=EXPECT_TOL):
        if got is None: return
        if not self.finite(got) or abs(float(got) - want) > tol * max(1.0, abs(want)):
            self.chk.fail(sig + '|cost-vs-defining-expectation', 'evaluated %r but the defining expectation (independent quadrature/summation) is %r' % (float(got), want), case)


def near_far(x, rng, positive=True, scale=None):
    """alternative decisions around x: relative 1e-6..0.5 and far"""
    s = abs(x) if scale is None else scale
    if s == 0: s = 1.0
    out = []
    for r in (1e-6, 1e-4, 1e-3, 1e-2, 0.1, 0.5):
        out += [x - r * s, x + r * s]
    for r in (2, 5, 10, 100, 1000):
        out += [x + r * s, x - r * s] if not positive else [x * r, x / r]
    out += [x + s * rng.uniform(-3, 3) for _ in range(6)]
    if positive: out = [y for y in out if y > 0]
    return out


def quad(f, a, b, pts=None):
    from scipy import integrate
    with warnings.catch_warnings():
        warnings.simplefilter('ignore')
        v, _ = integrate.quad(f, a, b, points=pts, limit=400, epsabs=1e-13, epsrel=1e-12)
    return v


def normal_expect(g, m, s, kink):
    """E g(D), D ~ N(m, s^2), g piecewise smooth with a kink at `kink` -- plain numerical quadrature of g * density"""
    dens = lambda d: math.exp(-0.5 * ((d - m) / s) ** 2) / (s * math.sqrt(2 * math.pi))
    lo, hi = m - 12 * s, m + 12 * s
    k = min(max(kink, lo), hi)
    return quad(lambda d: g(d) * dens(d), lo, k) + quad(lambda d: g(d) * dens(d), k, hi)


# ------------------------------------------------------------------------------------------------ oracles, one per model
def o_eoq(o, rng):
    f = imp('eoq').economic_order_quantity
    K, h, lam = pos(rng), cost(rng), pos(rng)
    if rng.random() < .08: K = 0.0
    if rng.random() < .05: lam = 0.0
    case = dict(function='economic_order_quantity', fixed_cost=K, holding_cost=h, demand_rate=lam)
    r = o.call('economic_order_quantity', f, case, K, h, lam)
    if r is None: return case, False
    Q, c = r
    ev = lambda y: (o.call('economic_order_quantity', f, dict(case, order_quantity=y), K, h, lam, y) or (None, None))[1]
    exact = lambda y: float(F(K) * F(lam) / F(y) + F(h) * F(y) / 2)
    if Q > 0:
        o.coherent('economic_order_quantity', c, ev(Q), case)
        ys = near_far(Q, rng)
    else:
        o.count('eoq_degenerate_Q*=0'); ys = [10 ** rng.uniform(-6, 3) for _ in range(12)]       # infimum not attained; optimality still must hold
    alts = [(y, ev(y)) for y in ys]
    worse = o.no_better('economic_order_quantity', c, alts, case)
    for y, v in alts[:8] + [(y, ev(y)) for y in [10 ** rng.uniform(-6, 8) for _ in range(6)]]:
        if v is not None and not o.close(v, exact(y), 1e-12):
            o.chk.fail('economic_order_quantity|evaluate-vs-formula', 'evaluation at %r gives %r, K lam/Q + h Q/2 = %r' % (y, v, exact(y)), dict(case, decision=y))
    return case, (c > 0 and worse > 0)


def o_eoqb(o, rng):
    f = imp('eoq').economic_order_quantity_with_backorders
    K, h, p, lam = pos(rng), cost(rng), cost(rng), pos(rng)
    case = dict(function='economic_order_quantity_with_backorders', fixed_cost=K, holding_cost=h, stockout_cost=p, demand_rate=lam)
    r = o.call('economic_order_quantity_with_backorders', f, case, K, h, p, lam)
    if r is None: return case, False
    Q, x, c = r
    def ev(y, xf):
        rr = o.call('economic_order_quantity_with_backorders', f, dict(case, order_quantity=y, stockout_fraction=xf), K, h, p, lam, y, xf)
        return None if rr is None else rr[2]
    o.coherent('economic_order_quantity_with_backorders', c, ev(Q, x), case)
    xs = [0.0, 1.0, x] + [min(1, max(0, x + d)) for d in (-1e-6, 1e-6, -1e-3, 1e-3, -0.1, 0.1)] + [rng.random() for _ in range(3)]
    alts = [((y, xf), ev(y, xf)) for y in near_far(Q, rng)[:18] for xf in rng.sample(xs, 4)] + [((Q, xf), ev(Q, xf)) for xf in xs]
    worse = o.no_better('economic_order_quantity_with_backorders', c, alts, case)
    for (y, xf), v in alts[:10]:
        ex = float(F(h) * F(y) * (1 - F(xf)) ** 2 / 2 + F(p) * F(y) * F(xf) ** 2 / 2 + F(K) * F(lam) / F(y))
        if v is not None and not o.close(v, ex, 1e-12):
            o.chk.fail('economic_order_quantity_with_backorders|evaluate-vs-formula', 'evaluation at %r gives %r, formula %r' % ((y, xf), v, ex), dict(case, decision=[y, xf]))
    return case, (c > 0 and worse > 0)


def o_epq(o, rng):
    f = imp('eoq').economic_production_quantity
    K, h, lam = pos(rng), cost(rng), pos(rng); mu = lam * rng.uniform(1.02, 6)
    case = dict(function='economic_production_quantity', fixed_cost=K, holding_cost=h, demand_rate=lam, production_rate=mu)
    r = o.call('economic_production_quantity', f, case, K, h, lam, mu)
    if r is None: return case, False
    Q, c = r
    ev = lambda y: (o.call('economic_production_quantity', f, dict(case, order_quantity=y), K, h, lam, mu, y) or (None, None))[1]
    o.coherent('economic_production_quantity', c, ev(Q), case)
    alts = [(y, ev(y)) for y in near_far(Q, rng)]
    worse = o.no_better('economic_production_quantity', c, alts, case)
    for y, v in alts[:8]:
        ex = float(F(K) * F(lam) / F(y) + F(h) * (1 - F(lam) / F(mu)) * F(y) / 2)
        if v is not None and not o.close(v, ex, 1e-12):
            o.chk.fail('economic_production_quantity|evaluate-vs-formula', 'evaluation at %r gives %r, formula %r' % (y, v, ex), dict(case, decision=y))
    return case, (c > 0 and worse > 0)


def eoqd_expect(Q, K, h, p, lam, a, b):
    """renewal-reward cost of the EOQ with disruptions, from the 2-state Markov chain by matrix exponential"""
    from scipy.linalg import expm
    G = np.array([[-a, a], [b, -b]])                    # state 0 = up, 1 = down
    P = expm(G * (Q / lam))
    psi = P[0, 1]                                          # P(down when the order of size Q runs out | up at the start)
    exp_len = Q / lam + psi / b
    exp_cost = K + h * Q * Q / (2 * lam) + p * lam * psi / b
    return exp_cost / exp_len


def o_eoqd(o, rng, approximate, cheap_stockouts=False):
    su = imp('supply_uncertainty')
    K, h, p, lam = pos(rng), cost(rng), cost(rng), pos(rng)
    a = pos(rng, -2, 1); b = pos(rng, -1, 2)
    if rng.random() < .5:                                 # keep (a+b) Q / lam moderate: the interesting regime
        a = rng.uniform(0.1, 3); b = rng.uniform(2, 30)
    if not approximate and rng.random() < .2:              # small fixed cost, holding cost above stockout cost: the approximation is poor
        K = rng.uniform(0.01, 0.2); h = p * rng.uniform(2, 6); a = rng.uniform(0.05, 0.5); b = rng.uniform(1, 4)
    if cheap_stockouts:
        # stockouts much cheaper than holding and slow recovery: it pays to order rarely and ride out the disruptions, the exact optimum lies far
        # ABOVE the approximate one (more than 10x -- beyond the initial search interval [Q~/10, 10 Q~] -- in about half of these cases)
        K = rng.choice([10 ** rng.uniform(-2, 2), rng.uniform(.05, 500)]); h = cost(rng); lam = 10 ** rng.uniform(-1, 3)
        p = 10 ** rng.uniform(-3.5, -1.2); a = rng.uniform(.2, 3); b = 10 ** rng.uniform(-1.7, -.3)
    name = 'eoq_with_disruptions(approximate=%s)' % approximate
    case = dict(function='eoq_with_disruptions', fixed_cost=K, holding_cost=h, stockout_cost=p, demand_rate=lam, disruption_rate=a, recovery_rate=b, approximate=approximate)
    r = o.call(name, su.eoq_with_disruptions, case, K, h, p, lam, a, b, approximate)
    if r is None: return case, False
    Q, c = r
    ev = lambda y: o.call('eoq_with_disruptions_cost(approximate=%s)' % approximate, su.eoq_with_disruptions_cost, dict(case, order_quantity=y), y, K, h, p, lam, a, b, approximate)
    o.coherent(name, c, ev(Q), case)
    alts = [(y, ev(y)) for y in near_far(Q, rng)]
    if approximate:
        worse = o.no_better(name, c, alts, case)
    else:
        # the exact model is minimised by golden-section search with absolute tolerance 1e-5 on Q: the reported cost may exceed
        # the true minimum by what a displacement of 1e-5 costs; locate the true minimum independently and allow exactly that
        from scipy import optimize
        g = lambda y: float(su.eoq_with_disruptions_cost(y, K, h, p, lam, a, b, False))
        Qa = float(su.eoq_with_disruptions(K, h, p, lam, a, b, True)[0])
        grid = list(np.geomspace(Qa / 1000, Qa * 1000, 241)) + [float(Q)]
        gv = [g(y) for y in grid]
        k = int(np.argmin(gv))
        o.count('eoq_with_disruptions_exact:optimum/approximate ' + ('<0.1' if grid[k] < Qa / 10 else '>10' if grid[k] > Qa * 10 else '0.1..10'))
        lo_b, hi_b = grid[max(k - 1, 0)] if k < 241 else Q / 2, grid[min(k + 1, 240)] if k < 241 else Q * 2
        res = optimize.minimize_scalar(g, bounds=(lo_b, hi_b), method='bounded', options=dict(xatol=1e-13 * max(1.0, Q)))
        c_true = min(float(res.fun), gv[k], float(c)); q_true = float(res.x) if float(res.fun) <= gv[k] else grid[k]
        slack = 2 * max(g(q_true + 1e-5) - c_true, g(max(q_true - 1e-5, q_true / 2)) - c_true, 0.0) + REL * max(1.0, abs(c_true))
        if float(c) - c_true > slack:
            at_end = abs(Q - Qa / 10) <= 1e-4 * Q or abs(Q - Qa * 10) <= 1e-4 * Q
            o.chk.fail(name + ('|optimum-outside-search-bracket' if at_end else '|worse-than-search-tolerance'),
                       'reported (Q, cost) = (%r, %r)%s but Q = %r costs %r: more than a 1e-5 displacement explains'
                       % (Q, float(c), ' = end of the bracket [Q~/10, 10 Q~], Q~ = %r' % Qa if at_end else '', q_true, c_true), dict(case, decision=q_true))
        worse = 0
        for y, v in alts:
            if v is None: continue
            if c_true - float(v) > slack:
                o.chk.fail(name + '|alternative-better', 'decision %r evaluates to %r, better than the optimum %r (reported %r)' % (y, float(v), c_true, float(c)), dict(case, decision=y))
            if float(v) > float(c) * (1 + 1e-7): worse += 1
    if not approximate:
        for y in [Q] + [t[0] for t in alts[12:16]]:
            o.expectation('eoq_with_disruptions_cost', ev(y), eoqd_expect(y, K, h, p, lam, a, b), dict(case, decision=y))
    return case, (c > 0 and worse > 0)


def o_yield_eoq(o, rng, additive):
    su = imp('supply_uncertainty')
    f = su.eoq_with_additive_yield_uncertainty if additive else su.eoq_with_multiplicative_yield_uncertainty
    name = f.__name__
    K, h, lam = pos(rng), cost(rng), pos(rng)
    if additive: m, s = rng.uniform(-20, 20), rng.uniform(0, 10)
    else: m, s = rng.uniform(0.2, 1.5), rng.uniform(0, 0.5)
    if rng.random() < .1: s = 0.0
    case = dict(function=name, fixed_cost=K, holding_cost=h, demand_rate=lam, yield_mean=m, yield_sd=s)
    r = o.call(name, f, case, K, h, lam, m, s)
    if r is None: return case, False
    Q, c = r
    ev = lambda y: (o.call(name, f, dict(case, order_quantity=y), K, h, lam, m, s, y) or (None, None))[1]
    o.coherent(name, c, ev(Q), case)
    if additive:
        w = Q + m
        ys = [y - m for y in near_far(w, rng)]            # decision domain: order_quantity + yield_mean > 0
    else:
        ys = near_far(Q, rng)
    alts = [(y, ev(y)) for y in ys]
    worse = o.no_better(name, c, alts, case)
    # defining expectation (renewal reward): (K + h E[R^2] / (2 lam)) / (E[R] / lam), R = Q + Y (additive) or Q * Y (multiplicative),
    # moments of the yield by quadrature of a normal density with the given mean and sd (any distribution with these moments)
    for y in [Q] + ys[12:15]:
        if s > 0:
            if additive:
                ER = normal_expect(lambda t: y + t, m, s, m); ER2 = normal_expect(lambda t: (y + t) ** 2, m, s, m)
            else:
                ER = normal_expect(lambda t: y * t, m, s, m); ER2 = normal_expect(lambda t: (y * t) ** 2, m, s, m)
        else:
            ER = (y + m) if additive else y * m; ER2 = ER * ER
        want = (K + h * ER2 / (2 * lam)) / (ER / lam)
        o.expectation(name, ev(y), want, dict(case, decision=y))
    return case, (c > 0 and worse > 0)


def o_nv_normal(o, rng):
    nv = imp('newsvendor')
    h, p = cost(rng), cost(rng); m = pos(rng, 0, 3); s = m * rng.uniform(0.02, 0.6); L = rng.randint(0, 4)
    case = dict(function='newsvendor_normal', holding_cost=h, stockout_cost=p, demand_mean=m, demand_sd=s, lead_time=L)
    r = o.call('newsvendor_normal', nv.newsvendor_normal, case, h, p, m, s, L)
    if r is None: return case, False
    S, c = r
    mm, ss = m * (L + 1), s * math.sqrt(L + 1)
    ev = lambda y: (o.call('newsvendor_normal', nv.newsvendor_normal, dict(case, base_stock_level=y), h, p, m, s, L, y) or (None, None))[1]
    evc = lambda y: o.call('newsvendor_normal_cost', nv.newsvendor_normal_cost, dict(case, base_stock_level=y), y, h, p, m, s, L)
    o.coherent('newsvendor_normal', c, ev(S), case)
    ys = near_far(S, rng, positive=False, scale=ss)
    alts = [(y, ev(y)) for y in ys]
    worse = o.no_better('newsvendor_normal', c, alts, case)
    for y in [S] + ys[10:13] + [mm + ss * rng.uniform(-8, 8)]:
        want = normal_expect(lambda d: h * max(y - d, 0) + p * max(d - y, 0), mm, ss, y)
        v = ev(y)
        o.expectation('newsvendor_normal', v, want, dict(case, decision=y))
        vc = evc(y)
        if v is not None and vc is not None and not o.close(v, vc, 1e-12):
            o.chk.fail('newsvendor_normal_cost|differs-from-evaluation-mode', 'newsvendor_normal_cost %r vs newsvendor_normal(base_stock_level) %r' % (vc, v), dict(case, decision=y))
    return case, (c > 0 and worse > 0)


def o_nv_poisson(o, rng):
    nv = imp('newsvendor')
    from scipy import stats
    h, p = cost(rng), cost(rng); m = rng.choice([rng.uniform(0.2, 60), float(rng.randint(1, 40))])
    case = dict(function='newsvendor_poisson', holding_cost=h, stockout_cost=p, demand_mean=m)
    r = o.call('newsvendor_poisson', nv.newsvendor_poisson, case, h, p, m)
    if r is None: return case, False
    S, c = r
    ev = lambda y: (o.call('newsvendor_poisson', nv.newsvendor_poisson, dict(case, base_stock_level=y), h, p, m, y) or (None, None))[1]
    evc = lambda y: o.call('newsvendor_poisson_cost', nv.newsvendor_poisson_cost, dict(case, base_stock_level=y), y, h, p, m)
    o.coherent('newsvendor_poisson', c, ev(int(S)), case)
    hi = int(max(3 * m + 20, S + 30))
    ys = sorted(set(range(0, min(hi, 60))) | {int(S) + d for d in (-3, -2, -1, 1, 2, 3) if S + d >= 0} | {rng.randint(0, hi) for _ in range(10)} | {hi, 10 * hi})
    alts = [(y, ev(y)) for y in ys]
    worse = o.no_better('newsvendor_poisson', c, alts, case)
    dmax = int(m + 40 * math.sqrt(m) + 60)
    pm = stats.poisson.pmf(np.arange(dmax + 1), m)
    for y in [int(S)] + rng.sample(ys, 3):
        d = np.arange(dmax + 1)
        want = float(np.sum(pm * (h * np.maximum(y - d, 0) + p * np.maximum(d - y, 0))))
        if y > dmax: continue
        v = ev(y); o.expectation('newsvendor_poisson', v, want, dict(case, decision=y))
        vc = evc(y)
        if v is not None and vc is not None and not o.close(v, vc, 1e-12):
            o.chk.fail('newsvendor_poisson_cost|differs-from-evaluation-mode', '%r vs %r' % (vc, v), dict(case, decision=y))
    return case, (c > 0 and worse > 0)


def cont_distribs(rng):
    """-> (kind, parameters, constructor). The exponential, gamma and lognormal objects carry a location shift (base quantity + random part) in half of the cases"""
    from scipy import stats
    k = rng.choice(['norm', 'uniform', 'expon', 'gamma', 'lognorm'])
    loc = rng.choice([0.0, rng.uniform(1, 100)])
    if k == 'norm': m = rng.uniform(20, 200); return k, [m, m * rng.uniform(.05, .3)], lambda a: stats.norm(a[0], a[1])
    if k == 'uniform': lo = rng.uniform(0, 50); return k, [lo, rng.uniform(5, 100)], lambda a: stats.uniform(a[0], a[1])
    if k == 'expon': return k, [rng.uniform(1, 80), loc], lambda a: stats.expon(loc=a[1], scale=a[0])
    if k == 'gamma': return k, [rng.uniform(1.5, 9), rng.uniform(1, 20), loc], lambda a: stats.gamma(a[0], loc=a[2], scale=a[1])
    return k, [rng.uniform(0.2, 0.7), rng.uniform(10, 100), loc], lambda a: stats.lognorm(a[0], loc=a[2], scale=a[1])


def dist_expect(dist, g, kink):
    lo, hi = dist.ppf(1e-13), dist.ppf(1 - 1e-13)
    if not math.isfinite(lo): lo = dist.ppf(1e-12)
    k = min(max(kink, lo), hi)
    return quad(lambda d: g(d) * dist.pdf(d), lo, k) + quad(lambda d: g(d) * dist.pdf(d), k, hi)


def o_nv_continuous(o, rng):
    nv = imp('newsvendor')
    h, p = cost(rng), cost(rng)
    kind, pars, mk = cont_distribs(rng)
    dist = mk(pars)
    case = dict(function='newsvendor_continuous', holding_cost=h, stockout_cost=p, distribution=kind, parameters=pars)
    o.count('newsvendor_continuous:%s%s' % (kind, ', shifted' if kind in ('expon', 'gamma', 'lognorm') and pars[-1] else ''))
    pdf = None
    if rng.random() < .3:                                   # demand_pdf (of some other distribution) given as well: documented as ignored next to demand_distrib
        from scipy import stats
        pm = rng.uniform(5, 150); other = stats.norm(pm, pm * rng.uniform(.05, .3)); pdf = other.pdf; case['ignored_demand_pdf'] = ['norm', float(other.mean()), float(other.std())]
    r = o.call('newsvendor_continuous', nv.newsvendor_continuous, case, h, p, dist, pdf)
    if r is None: return case, False
    S, c = r
    ev = lambda y: (o.call('newsvendor_continuous', nv.newsvendor_continuous, dict(case, base_stock_level=y), h, p, dist, pdf, y) or (None, None))[1]
    # continuous_loss integrates numerically (scipy quad, ~1e-8): coherence and optimality are judged at 1e-7
    cS = ev(float(S))
    if cS is not None and not o.close(c, cS, 1e-7):
        o.chk.fail('newsvendor_continuous|optimise-vs-evaluate', 'cost with optimum %r != evaluated %r' % (c, cS), case)
    al = p / (p + h)
    qs = [min(1 - 1e-6, max(1e-6, al + d)) for d in (-1e-3, 1e-3, -0.01, 0.01, -0.1, 0.1, -0.3, 0.3)] + [rng.uniform(0.001, 0.999) for _ in range(4)]
    ys = [float(dist.ppf(q)) for q in qs] + [float(dist.ppf(0.999999)) + 5 * float(dist.std()), float(dist.ppf(1e-6)) - 5 * float(dist.std())]
    worse = 0
    for y in ys:
        v = ev(y)
        if v is None: continue
        if not o.finite(v): o.chk.fail('newsvendor_continuous|evaluation-not-finite', 'evaluation at %r gives %r' % (y, v), dict(case, decision=y)); continue
        if float(c) - float(v) > 1e-7 * max(1.0, abs(float(c))):
            o.chk.fail('newsvendor_continuous|alternative-better', 'decision %r evaluates to %r < reported optimum %r' % (y, float(v), float(c)), dict(case, decision=y))
        if float(v) > float(c) * (1 + 1e-6): worse += 1
    for y in [float(S)] + ys[4:6]:
        want = dist_expect(dist, lambda d: h * max(y - d, 0) + p * max(d - y, 0), y)
        o.expectation('newsvendor_continuous', ev(y), want, dict(case, decision=y))
    return case, (c > 0 and worse > 0)


def gen_pmf(rng):
    n = rng.randint(1, 8)
    vals = sorted(rng.sample(range(0, 40), n))
    cuts = sorted(rng.sample(range(1, 64), n - 1)) if n > 1 else []
    parts = [b - a for a, b in zip([0] + cuts, cuts + [64])]
    return {v: Fraction(k, 64) for v, k in zip(vals, parts)}


DISC_KINDS = ['poisson', 'binom', 'randint', 'geom', 'nbinom']


def mk_disc(kind, a, loc=0):
    """frozen scipy distribution of the given kind; loc = location shift (demand / yield = a fixed base quantity + a random part)"""
    from scipy import stats
    return getattr(stats, kind)(*a, loc=loc)


def disc_distribs(rng, kinds=DISC_KINDS):
    """-> (kind, shape parameters, loc). A frozen scipy distribution may carry a location shift: half of the objects are shifted by 1..40
    (geometric also by -1 = number of failures, support from 0); the support stays non-negative (documented domain of discrete_loss)."""
    k = rng.choice(kinds)
    loc = rng.choice([0, rng.randint(1, 12), rng.randint(1, 40)]) if rng.random() < .75 else 0
    if k == 'poisson': a = [rng.uniform(0.5, 30)]
    elif k == 'binom': a = [rng.randint(2, 40), rng.uniform(.05, .95)]
    elif k == 'randint': lo = rng.randint(0, 20); a = [lo, lo + rng.randint(1, 30)]
    elif k == 'geom': a = [rng.uniform(.05, .7)]; loc = rng.choice([-1, loc, loc])
    else: a = [rng.choice([float(rng.randint(1, 8)), rng.uniform(.5, 8)]), rng.uniform(.1, .9)]
    return k, a, loc


def o_nv_discrete(o, rng, model_cases=None, params=None):
    """params (replay): a recorded case of the distribution-object forms -- costs, kind, shape parameters, loc [, ignored pmf] are taken from it"""
    nv = imp('newsvendor')
    h = Fraction(rng.randint(1, 60), 4); p = Fraction(rng.randint(0, 120), 4)
    if rng.random() < .2: p = Fraction(0)
    form = rng.choice(['pmf'] * 5 + ['distrib'] * 3 + ['distrib+pmf'] * 2)
    if params is not None: h, p, form = F(params['holding_cost']), F(params['stockout_cost']), params['form']
    use_pmf = form == 'pmf'
    if use_pmf:
        # the dict in the order a caller may have built it: ascending keys, descending, random (Counter over a history), by decreasing probability
        pmf = gen_pmf(rng); order = rng.choice(['ascending', 'descending', 'shuffled', 'by-decreasing-probability']); items = sorted(pmf.items())
        if order == 'descending': items.reverse()
        elif order == 'shuffled': rng.shuffle(items)
        elif order == 'by-decreasing-probability': items.sort(key=lambda kv: (-kv[1], rng.random()))
        fp = {k: float(v) for k, v in items}
        case = dict(function='newsvendor_discrete', form='pmf', holding_cost=h, stockout_cost=p, key_order=order, pmf={str(k): v for k, v in items})
        kw = dict(demand_pmf=fp)
        support = list(range(min(pmf) - 2, max(pmf) + 3))
        expect = lambda y: float(sum(pr * (h * max(y - d, 0) + p * max(d - y, 0)) for d, pr in pmf.items()))
        sig = 'newsvendor_discrete|pmf'
    else:
        if params is not None: kind, pars, loc = params['distribution'], params['parameters'], params.get('loc', 0)
        else: kind, pars, loc = disc_distribs(rng)
        dist = mk_disc(kind, pars, loc)
        o.count('newsvendor_discrete:distribution object %s%s' % (kind, ', shifted' if loc else ''))
        case = dict(function='newsvendor_discrete', form=form, holding_cost=h, stockout_cost=p, distribution=kind, parameters=pars, loc=loc)
        kw = dict(demand_distrib=dist)
        if form == 'distrib+pmf':
            # both ways of giving the demand at once, about DIFFERENT distributions: demand_pmf is documented as ignored then -- and whatever the
            # precedence, the level and its cost must be about the same distribution
            other = {int(k): F(v) for k, v in params['ignored_pmf'].items()} if params is not None else gen_pmf(rng)
            kw['demand_pmf'] = {k: float(v) for k, v in other.items()}; case['ignored_pmf'] = {str(k): v for k, v in other.items()}
        hi = int(dist.ppf(1 - 1e-12)) + 5; lo = int(dist.ppf(1e-12)) - 2
        support = sorted(set(range(lo, min(hi, lo + 70))) | {rng.randint(lo, hi) for _ in range(6)})
        ds = np.arange(max(0, lo), int(dist.ppf(1 - 1e-15)) + 60); pm = dist.pmf(ds)
        expect = lambda y: float(np.sum(pm * (float(h) * np.maximum(y - ds, 0) + float(p) * np.maximum(ds - y, 0))))
        sig = 'newsvendor_discrete|' + form
    r = o.call(sig, nv.newsvendor_discrete, case, float(h), float(p), **kw)
    if r is None: return case, False
    S, c = r
    ev = lambda y: (o.call(sig, nv.newsvendor_discrete, dict(case, base_stock_level=y), float(h), float(p), base_stock_level=y, **kw) or (None, None))[1]
    o.coherent(sig, c, ev(int(S)), case)
    alts = [(y, ev(y)) for y in support]
    if p == 0 and use_pmf:
        # recorded defect (fixed in /repo by commit 4c64ba5): values[i-1] with i = 0 returned the LARGEST demand
        for y, v in alts:
            if v is not None and float(c) - float(v) > REL * max(1.0, abs(float(c))):
                o.chk.fail('newsvendor_discrete|pmf,stockout_cost=0->largest-demand', 'stockout_cost=0: returned level %r costs %r but level %r costs %r' % (S, float(c), y, float(v)), dict(case, decision=y)); break
        worse = 1
    else:
        worse = o.no_better(sig, c, alts, case)
    for y in [int(S)] + rng.sample(support, min(3, len(support))):
        o.expectation(sig, ev(y), expect(y), dict(case, decision=y), tol=1e-9 if use_pmf else EXPECT_TOL)
    if use_pmf and model_cases is not None:
        model_cases.append((case, h, p, pmf, int(S), F(c), [(y, F(v)) for y, v in alts[:4] if v is not None]))
    return case, (c > 0 and worse > 0)


def o_myopic(o, rng):
    nv = imp('newsvendor')
    h = cost(rng); p = cost(rng) + h; g = rng.choice([1.0, rng.uniform(0.7, 1.0)])
    c1 = cost(rng); cplus = rng.uniform(-h * 0.97, p * 0.97); c0 = cplus + g * c1
    m = pos(rng, 0, 3); s = m * rng.uniform(0.02, 0.6)
    case = dict(function='myopic', holding_cost=h, stockout_cost=p, purchase_cost=c0, purchase_cost_next_per=c1, demand_mean=m, demand_sd=s, discount_factor=g)
    r = o.call('myopic', nv.myopic, case, h, p, c0, c1, m, s, g)
    if r is None: return case, False
    S, G = r
    ev = lambda y: (o.call('myopic', nv.myopic, dict(case, base_stock_level=y), h, p, c0, c1, m, s, g, y) or (None, None))[1]
    evc = lambda y: o.call('myopic_cost', nv.myopic_cost, dict(case, base_stock_level=y), y, h, p, c0, c1, m, s, g)
    o.coherent('myopic', G, ev(S), case)
    ys = near_far(S, rng, positive=False, scale=s)
    alts = [(y, ev(y)) for y in ys]
    worse = o.no_better('myopic', G, alts, case)
    for y in [S] + ys[10:12]:
        want = c0 * y + normal_expect(lambda d: h * max(y - d, 0) + p * max(d - y, 0), m, s, y) - g * c1 * (y - m)
        v = ev(y); o.expectation('myopic', v, want, dict(case, decision=y))
        vc = evc(y)
        if v is not None and vc is not None and not o.close(v, vc, 1e-12):
            o.chk.fail('myopic_cost|differs-from-evaluation-mode', '%r vs %r' % (vc, v), dict(case, decision=y))
    return case, worse > 0


def o_explicit(o, rng, poisson):
    nv = imp('newsvendor')
    from scipy import stats
    v = cost(rng); c = v + cost(rng); r = c + cost(rng)
    h = rng.choice([0.0, cost(rng)]); p = rng.choice([0.0, cost(rng)]); L = rng.randint(0, 3)
    if poisson:
        m = rng.uniform(0.3, 25); name = 'newsvendor_poisson_explicit'
        case = dict(function=name, revenue=r, purchase_cost=c, salvage_value=v, demand_mean=m, holding_cost=h, stockout_cost=p, lead_time=L)
        fn = lambda *bsl: nv.newsvendor_poisson_explicit(r, c, v, m, h, p, L, *bsl)
        mm = m * (L + 1)
    else:
        m = pos(rng, 0, 3); s = m * rng.uniform(0.02, 0.6); name = 'newsvendor_normal_explicit'
        case = dict(function=name, revenue=r, purchase_cost=c, salvage_value=v, demand_mean=m, demand_sd=s, holding_cost=h, stockout_cost=p, lead_time=L)
        fn = lambda *bsl: nv.newsvendor_normal_explicit(r, c, v, m, s, h, p, L, *bsl)
        mm, ss = m * (L + 1), s * math.sqrt(L + 1)
    res = o.call(name, fn, case)
    if res is None: return case, False
    S, pr = res
    ev = lambda y: (o.call(name, fn, dict(case, base_stock_level=y), y) or (None, None))[1]
    profit = lambda y, d: r * min(y, d) - c * y + v * max(y - d, 0) - h * max(y - d, 0) - p * max(d - y, 0)
    if poisson:
        o.coherent(name, pr, ev(int(S)), case, 'profit')
        hi = int(max(3 * mm + 20, S + 30))
        ys = sorted(set(range(0, min(hi, 50))) | {rng.randint(0, hi) for _ in range(8)} | {hi})
        dmax = int(mm + 40 * math.sqrt(mm) + 60); ds = np.arange(dmax + 1); pm = stats.poisson.pmf(ds, mm)
        expect = lambda y: float(np.sum(pm * (r * np.minimum(y, ds) - c * y + (v - h) * np.maximum(y - ds, 0) - p * np.maximum(ds - y, 0))))
        chk_ys = [int(S)] + rng.sample(ys, 3)
    else:
        o.coherent(name, pr, ev(S), case, 'profit')
        ys = near_far(S, rng, positive=False, scale=ss)
        expect = lambda y: normal_expect(lambda d: profit(y, d), mm, ss, y)
        chk_ys = [S] + ys[10:12]
    alts = [(y, ev(y)) for y in ys]
    worse = o.no_better(name, pr, alts, case, sense=-1)
    for y in chk_ys:
        o.expectation(name, ev(y), expect(y), dict(case, decision=y))
    return case, worse > 0


YIELD_FORMS = ['normal', 'continuous', 'discrete', 'loss_function',
               # the yield specified in MORE THAN ONE WAY at once (the docstring: yield_distribution is "required if yield_mean or yield_sd is None",
               # loss_function is "ignored if yield_distribution is None"): moments AND a non-normal distribution object [AND its loss function] --
               # the moments (normal yield) decide, in the optimiser and in the cost alike; a distribution AND only one of the two moments -- the
               # distribution decides. Whatever the precedence, the optimiser and the evaluator must apply the same one.
               'normal+distribution', 'normal+distribution', 'normal+distribution+loss_function', 'mean-only+distribution', 'sd-only+distribution']


def other_yield_distribution(rng, m, s):
    """a non-normal yield distribution: half of the time with the SAME mean m and sd s as the normal specification given next to it"""
    from scipy import stats
    k = rng.choice(['uniform-same-moments', 'shifted-exponential-same-moments', 'uniform', 'gamma', 'randint'])
    if k == 'uniform-same-moments': a = [m - s * math.sqrt(3), 2 * s * math.sqrt(3)]; return k, a, stats.uniform(*a)
    if k == 'shifted-exponential-same-moments': a = [m - s, s]; return k, a, stats.expon(*a)
    if k == 'uniform': a = [rng.uniform(-20, 5), rng.uniform(2, 30)]; return k, a, stats.uniform(*a)
    if k == 'gamma': a = [rng.uniform(1.5, 6), rng.uniform(-10, 5), rng.uniform(.5, 6)]; return k, a, stats.gamma(a[0], loc=a[1], scale=a[2])
    lo = rng.randint(0, 6); a = [lo, lo + rng.randint(2, 15)]; return k, a, stats.randint(*a)


def o_nv_yield(o, rng, form=None, params=None):
    """params (replay of the discrete form): costs, demand, kind / shape parameters / loc of the yield distribution are taken from the recorded case"""
    su = imp('supply_uncertainty'); lf = imp('loss_functions')
    from scipy import stats
    h, p = cost(rng), cost(rng)
    form = form or rng.choice(YIELD_FORMS)
    d = float(rng.randint(20, 300))
    if params is not None: h, p, d, form = params['holding_cost'], params['stockout_cost'], params['demand'], 'discrete'
    name = 'newsvendor_with_additive_yield_uncertainty'
    extra = {}
    # dist = the distribution the function's OWN cost is about; eff = how that cost is computed (closed form / continuous_loss / discrete_loss)
    if form in ('normal', 'loss_function'):
        m, s = rng.uniform(-15, 15), rng.uniform(0.5, 12)
        dist = stats.norm(m, s); eff = 'closed'
        kw = dict(yield_mean=m, yield_sd=s) if form == 'normal' else dict(yield_distribution=dist, loss_function=lambda R: lf.normal_loss(R, m, s))
        pars = [m, s]
    elif form == 'continuous':
        lo, w = rng.uniform(-20, 5), rng.uniform(2, 30)
        dist = stats.uniform(lo, w); kw = dict(yield_distribution=dist); pars = [lo, w]; eff = 'continuous'
    elif form == 'discrete':
        # discrete_loss documents F(x) = 0 for x < 0: non-negative supports -- a small discrete uniform (half of the cases) or any of the frozen scipy
        # families of the discrete newsvendor, with or without a location shift
        if params is not None: dk, pars, dloc = params['yield_distribution'], params['yield_parameters'], params.get('loc', 0)
        elif rng.random() < .5: lo = rng.randint(0, 6); dk, pars, dloc = 'randint', [lo, lo + rng.randint(2, 15)], 0
        else: dk, pars, dloc = disc_distribs(rng)
        dist = mk_disc(dk, pars, dloc); kw = dict(yield_distribution=dist); eff = 'discrete'
        extra = dict(yield_distribution=dk, loc=dloc)
        o.count('newsvendor_with_additive_yield_uncertainty:discrete yield %s%s' % (dk, ', shifted' if dloc else ''))
    elif form.startswith('normal+distribution'):
        m, s = rng.uniform(-15, 15), rng.uniform(0.5, 12); pars = [m, s]
        ok, oa, other = other_yield_distribution(rng, m, s)
        dist = stats.norm(m, s); eff = 'closed'
        kw = dict(yield_mean=m, yield_sd=s, yield_distribution=other)
        if form.endswith('loss_function'):
            kw['loss_function'] = (lambda R: lf.discrete_loss(int(R), other)) if ok == 'randint' else (lambda R: lf.continuous_loss(R, other))
        extra = dict(yield_distribution=ok, yield_distribution_parameters=oa)
    else:                                                   # one moment only, next to a distribution object: the object is the yield distribution
        m, s = rng.uniform(-15, 15), rng.uniform(0.5, 12)
        lo, w = rng.uniform(-20, 5), rng.uniform(2, 30)
        dist = stats.uniform(lo, w); pars = [lo, w]; eff = 'continuous'
        kw = dict(yield_distribution=dist, **(dict(yield_mean=m) if form.startswith('mean') else dict(yield_sd=s)))
        extra = dict(yield_mean=m) if form.startswith('mean') else dict(yield_sd=s)
    case = dict(function=name, form=form, holding_cost=h, stockout_cost=p, demand=d, yield_parameters=pars, **extra)
    r = o.call(name + '|' + form, su.newsvendor_with_additive_yield_uncertainty, case, h, p, d, **kw)
    if r is None: return case, False
    S, c = r
    ev = lambda y: (o.call(name + '|' + form, su.newsvendor_with_additive_yield_uncertainty, dict(case, base_stock_level=y), h, p, d, base_stock_level=y, **kw) or (None, None))[1]
    loose = eff == 'continuous'                             # continuous_loss integrates numerically
    tol = 1e-7 if loose else REL
    cS = ev(float(S))
    if cS is not None and not o.close(c, cS, tol):
        o.chk.fail(name + '|' + form + '|optimise-vs-evaluate', 'cost with optimum %r != evaluated %r' % (c, cS), case)
    sd = float(dist.std())
    if eff == 'discrete':
        ys = sorted({float(S) + k for k in range(-12, 13)} | {float(S) + rng.randint(-40, 40) for _ in range(5)})
    else:
        ys = near_far(float(S), rng, positive=False, scale=sd)
        if loose: ys = [y for y in ys if abs(y - float(S)) <= 10 * sd]      # continuous_loss is accurate there (far probe: o_far_continuous)
    worse = 0
    for y in ys:
        v = ev(y)
        if v is None: continue
        if not o.finite(v): o.chk.fail(name + '|' + form + '|evaluation-not-finite', 'evaluation at %r gives %r' % (y, v), dict(case, decision=y)); continue
        if float(c) - float(v) > tol * max(1.0, abs(float(c))):
            o.chk.fail(name + '|' + form + '|alternative-better', 'decision %r evaluates to %r < reported optimum %r' % (y, float(v), float(c)), dict(case, decision=y))
        if float(v) > float(c) * (1 + 1e-6): worse += 1
    for y in [float(S)] + rng.sample(ys, 2):
        R = d - y                                           # cost = h E[(Y - R)^+] + p E[(R - Y)^+]
        if eff == 'discrete':
            ks = np.arange(int(dist.support()[0]), int(dist.ppf(1 - 1e-15)) + 60); pm = dist.pmf(ks)      # direct summation over the (shifted) support
            want = float(np.sum(pm * (h * np.maximum(ks - R, 0) + p * np.maximum(R - ks, 0))))
        else:
            want = dist_expect(dist, lambda t: h * max(t - R, 0) + p * max(R - t, 0), R)
        o.expectation(name + '|' + form, ev(y), want, dict(case, decision=y))
    return case, (c > 0 and worse > 0)


def o_nv_disruptions(o, rng, params=None, long_min=-2.5):
    """params (replay): the recorded parameter vector. Two regimes: disruptions that end within a few periods (recovery_prob 0.1..0.95) and LONG ones
    (recovery_prob log-uniform 10^long_min..0.05, disruption_prob log-uniform 0.001..0.5, a quarter of them with a critical ratio 0.94..0.998): the
    defining sum then has thousands of non-negligible terms and the optimal level is hundreds of periods of demand"""
    su = imp('supply_uncertainty')
    h, p = cost(rng), cost(rng); d = float(rng.randint(5, 400)) if rng.random() < .6 else rng.uniform(1, 300)
    if rng.random() < .5:
        a = rng.uniform(0.01, 0.6); b = rng.uniform(0.1, 0.95)
    else:
        a = 10 ** rng.uniform(-3, -.3); b = 10 ** rng.uniform(long_min, -1.3)
        # EXCLUDED, reported to the lead: stockout / holding cost ratios beyond about 1000. The function stops the sum where the neglected PROBABILITY is 1e-10
        # whatever the costs, so the neglected cost is about 1e-10 * (p / h) * O(10) relative: 1.2e-6 at p / h = 6800 (h=0.1319, p=893.8, d=297,
        # alpha=0.004387, beta=0.010976, S=204039: 29404.4477 returned, 29404.4842 exact), 5e-6 at p / h = 40000.
        if rng.random() < .25: p = 10 ** rng.uniform(1.5, 2.4); h = rng.uniform(.5, 2)
    if params is not None: h, p, d, a, b = (params[k] for k in ('holding_cost', 'stockout_cost', 'demand', 'disruption_prob', 'recovery_prob'))
    name = 'newsvendor_with_disruptions'
    o.count('newsvendor_with_disruptions:recovery_prob ' + ('>=0.1' if b >= .1 else '0.02..0.1' if b >= .02 else '<0.02'))
    case = dict(function=name, holding_cost=h, stockout_cost=p, demand=d, disruption_prob=a, recovery_prob=b)
    r = o.call(name, su.newsvendor_with_disruptions, case, h, p, d, a, b)
    if r is None: return case, False
    S, c = r
    ev = lambda y: (o.call(name, su.newsvendor_with_disruptions, dict(case, base_stock_level=y), h, p, d, a, b, y) or (None, None))[1]
    o.coherent(name, c, ev(S), case)
    nS = int(round(S / d))
    if nS <= 70: ks = set(range(1, nS + 12))               # every kink d k of the piecewise linear cost up to beyond the optimum
    else: ks = set(range(1, 9)) | set(range(nS - 10, nS + 12)) | {int(round(nS * f)) for f in (.1, .25, .5, .75, .9, 1.1, 1.5, 2, 4)} | {rng.randint(1, 2 * nS) for _ in range(8)}
    ys = sorted({d * k for k in ks} | {S + d * t for t in (-0.5, 0.5, -1e-3, 1e-3, -1e-6, 1e-6)} | {d * rng.uniform(0.5, nS + 10) for _ in range(6)} | {d * (nS + 200)})
    alts = [(y, ev(y)) for y in ys if y > 0]
    worse = o.no_better(name, c, alts, case)
    # defining expectation: stationary distribution of the number n of consecutive disrupted periods, from the transition
    # matrix of the (truncated) chain by linear algebra; cost = sum_n pi_n [h (S - (n+1) d)^+ + p ((n+1) d - S)^+]
    N = 400
    while (1 - b) ** N > 1e-16: N *= 2
    pi = np.full(N + 1, 1.0 / (N + 1))
    for _ in range(100000):                                # power iteration  pi <- pi P  on the chain's transition structure
        nxt = np.empty(N + 1)
        nxt[0] = (1 - a) * pi[0] + b * pi[1:].sum()
        nxt[1] = a * pi[0]
        nxt[2:] = (1 - b) * pi[1:-1]
        nxt[N] += (1 - b) * pi[N]
        done = np.abs(nxt - pi).max() < 1e-17
        pi = nxt
        if done: break
    pi = pi / pi.sum()
    ns = np.arange(N + 1)
    for y in [S] + rng.sample([t[0] for t in alts], 3):
        want = float(np.sum(pi * (h * np.maximum(y - (ns + 1) * d, 0) + p * np.maximum((ns + 1) * d - y, 0))))
        o.expectation(name, ev(y), want, dict(case, decision=y))
    return case, (c > 0 and worse > 0)


def o_far_continuous(o, rng):
    """dedicated probe: evaluation mode of the quadrature-based newsvendor far outside the support of the distribution"""
    nv = imp('newsvendor')
    from scipy import stats
    lo, w = rng.uniform(0, 10), rng.uniform(2, 8)
    dist = stats.uniform(lo, w); h, p = cost(rng), cost(rng)
    k = rng.choice([30, 70, 150, 300])
    y = lo + w * k
    case = dict(function='newsvendor_continuous', holding_cost=h, stockout_cost=p, distribution='uniform', parameters=[lo, w], decision=y, widths_outside_support=k)
    r = o.call('newsvendor_continuous', nv.newsvendor_continuous, case, h, p, dist, None, y)
    if r is not None:
        want = h * (y - (lo + w / 2))
        if abs(float(r[1]) - want) > EXPECT_TOL * want:
            o.chk.fail('continuous_loss|decision-far-outside-support', 'base_stock_level %r (%d support-widths above the support of U[%r, %r]): evaluated cost %r, exact h (S - mean) = %r'
                       % (y, k, lo, lo + w, float(r[1]), want), case)
    return case, False


ORACLES = [
    ('economic_order_quantity', o_eoq, 1.0), ('economic_order_quantity_with_backorders', o_eoqb, 1.0), ('economic_production_quantity', o_epq, 1.0),
    ('eoq_with_disruptions_exact', lambda o, r: o_eoqd(o, r, False), 0.6), ('eoq_with_disruptions_approx', lambda o, r: o_eoqd(o, r, True), 1.0),
    ('eoq_with_disruptions_exact_cheap_stockouts', lambda o, r: o_eoqd(o, r, False, True), 0.3),
    ('eoq_with_additive_yield_uncertainty', lambda o, r: o_yield_eoq(o, r, True), 0.6), ('eoq_with_multiplicative_yield_uncertainty', lambda o, r: o_yield_eoq(o, r, False), 0.6),
    ('newsvendor_normal(+_cost)', o_nv_normal, 0.6), ('newsvendor_poisson(+_cost)', o_nv_poisson, 0.6), ('newsvendor_continuous', o_nv_continuous, 0.2),
    ('newsvendor_discrete', None, 3.0), ('myopic(+_cost)', o_myopic, 0.6),
    ('newsvendor_normal_explicit', lambda o, r: o_explicit(o, r, False), 0.6), ('newsvendor_poisson_explicit', lambda o, r: o_explicit(o, r, True), 0.6),
    ('newsvendor_with_additive_yield_uncertainty', o_nv_yield, 0.5), ('newsvendor_with_disruptions', o_nv_disruptions, 0.5),
    ('newsvendor_continuous_far_decision', o_far_continuous, 0.1),
]


def run_oracles(chk, n, do_model=True):
    o = Oracle(chk); o.count = chk.count
    model_cases = [] if do_model else None
    for name, fn, weight in ORACLES:
        k = max(3, int(n * weight))
        for _ in range(k):
            if fn is None: case, nt = o_nv_discrete(o, chk.rng, model_cases)
            else: case, nt = fn(o, chk.rng)
            chk.count('oracle_' + name)
            chk.case(case, nt)
    if model_cases: discrete_model_correspondence(chk, model_cases)


# ------------------------------------------------------------------------------------------------ hand-model correspondence
def discrete_model_correspondence(chk, cases):
    """Alg/NVDiscrete.v vs newsvendor_discrete(demand_pmf=...): level and costs must agree EXACTLY (inputs are dyadic)"""
    exprs = []
    for case, h, p, pmf, S, c, evs in cases:
        l = clist(['(%s, %s)' % (cz(k), cq(v)) for k, v in sorted(pmf.items())])
        obs = 'option_map (fun r => (fst r, qobs (snd r)))'
        exprs.append('(%s (newsvendor_discrete_pmf %s %s %s None), %s)' % (obs, cq(h), cq(p), l,
                     clist(['%s (newsvendor_discrete_pmf %s %s %s (Some %s))' % (obs, cq(h), cq(p), l, cz(y)) for y, _ in evs])))
    vals = coq_eval_sharded('c10nvd', 'Base.Qx Alg.NVDiscrete', '', exprs)
    for (case, h, p, pmf, S, c, evs), v in zip(cases, vals):
        chk.traces += 1
        opt, lst = v
        if opt is None or opt[1][0] != S or qv(opt[1][1]) != c:
            chk.mismatch('Alg/NVDiscrete model optimum %r vs implementation (%r, %r)' % (jsonable(opt), S, jsonable(c)), case); continue
        for (y, cy), mv in zip(evs, lst):
            if mv is None or mv[1][0] != y or qv(mv[1][1]) != cy:
                chk.mismatch('Alg/NVDiscrete model evaluation at %r: %r vs implementation %r' % (y, jsonable(mv), jsonable(cy)), dict(case, decision=y))


# ------------------------------------------------------------------------------------------------ run
def translate_and_build(chk):
    errs = py2v.translate_all()
    chk.extra['translated_functions'] = sorted(q for q in py2v.FUNCS if q.split('.')[0] in C10_MODULES)
    chk.extra['untranslated_functions'] = {q: e for q, e in errs if q not in C10_TRANSLATED}
    for q in C10_TRANSLATED:
        if q not in py2v.FUNCS:
            msg = dict(errs).get(q, 'function not found in the source')
            chk.broken.append(('translator:' + q, msg))
    ok, log = coq_make(['gen/Gen_%s.vo' % m for m in py2v.MODULES])
    if not ok:
        chk.broken.append(('coq/gen does not compile', log[-800:]))
    return ok


def run_tie(chk, n, n_other):
    cases = []
    for q in sorted(py2v.FUNCS):
        if q.split('.')[0] not in C10_MODULES: continue
        k = n if q in C10_TRANSLATED else n_other
        for _ in range(k):
            cases.append((q, gen_args(q, chk.rng)))
    for q, a in cases:
        chk.case(dict(function=q, args=a), False)
    return tie.run_tie(chk, cases)


def run(chk):
    chk.rule = RULE
    chk.checker_cmd = 'python /verif/py/py2v.py && ' + chk.checker_cmd
    chk.trusted += [
        'translator py/py2v.py (Python ast -> generic-ops Gallina): validated on every run by bit-for-bit comparison of the generated terms at FOps (PrimFloat binary64, vm_compute) with the running Python functions; '
        'its model of scipy location/scale arguments (ppf(q,m,s) = ppf(q)*s+m etc.), of max/min and of math.log(x, base) is part of what is validated',
        'Base/Ops.v: ROps interprets + - * / sqrt exp log as the real-number operations; rounding error is not modelled',
        'oracle hypotheses (Section hypotheses of Props/C10.v, not axioms): standard normal cdf/pdf/ppf (cdf\' = pdf, pdf\' = -z pdf, pdf >= 0, cdf(ppf a) = a), '
        'Poisson pmf/cdf/ppf recurrences, golden_section_search returns (x, f(x)); their satisfiability is not proved in Coq',
        'hand-written model Alg/NVDiscrete.v of the pmf-dict newsvendor (exact correspondence on generated dyadic instances)',
        'Python oracles (quadrature with scipy.integrate.quad, summation, matrix exponential / linear solve for the disruption chains)']
    chk.assume += ['exceptions other than the ValueError guards (math domain error, ZeroDivisionError) are not modelled by the translation; theorem hypotheses exclude those inputs',
                   'x ** 2 is translated as x * x; the ~0.1% of inputs on which libm pow(x, 2) is not correctly rounded are skipped in the bit-exact comparison (counted in input_distribution)',
                   'lead_time >= 0, yield_mean > 0 (multiplicative), order_quantity + yield_mean > 0 (additive) are not checked by the code; they are explicit theorem hypotheses and generator constraints']
    quick = chk.tier == 'quick'
    built = translate_and_build(chk)
    chk.proof()
    if built:
        run_tie(chk, 200 if quick else 1500, 40 if quick else 300)
    run_oracles(chk, 40 if quick else 400, do_model=built)
    known = {f['signature'] for f in chk.known.get('findings', []) if f.get('property') == chk.pid} | {'continuous_loss|decision-far-outside-support'}
    if (chk.broken or chk.mismatches) and not [f for f in chk.fails if f[0] not in known]:
        # a proof obligation or the tie no longer checks: directed search for a concrete failing input (oracles only, bigger budget)
        run_oracles(chk, 400 if quick else 1500, do_model=False)


def replay(chk, rp):
    """failing-input replays: re-evaluate the recorded (function, parameters, decision) on the implementation (deterministic
    EOQ-type models directly, the others by re-running their oracle); tie replays: re-compare that input bit for bit;
    obligation replays: re-translate, re-check the proofs (done by main via chk.proof) and re-run the oracles"""
    translate_and_build(chk)
    if rp.get('kind') == 'obligation-no-longer-checks':
        for dd in rp.get('correspondence_disagreements', []):
            c = dd.get('case') or {}
            if 'args' in c and c.get('function') in py2v.FUNCS: tie.run_tie(chk, [(c['function'], c['args'])])
        run_oracles(chk, 20, do_model=False)
        return
    case = rp.get('case') or {}
    print('replay case:', json.dumps(case)[:600])
    fn = case.get('function', '')
    if 'args' in case and fn in py2v.FUNCS:
        tie.run_tie(chk, [(fn, case['args'])]); chk.case(case); return
    o = Oracle(chk); o.count = chk.count
    # cases that carry everything needed are re-run exactly as recorded (same parameter vector; the alternative decisions are re-drawn around the same optimum)
    exact = None
    if fn == 'newsvendor_with_disruptions' and 'recovery_prob' in case: exact = lambda: o_nv_disruptions(o, chk.rng, params=case)
    elif fn == 'newsvendor_discrete' and case.get('form') in ('distrib', 'distrib+pmf') and 'loc' in case: exact = lambda: o_nv_discrete(o, chk.rng, params=case)
    elif fn == 'newsvendor_with_additive_yield_uncertainty' and case.get('form') == 'discrete' and 'loc' in case: exact = lambda: o_nv_yield(o, chk.rng, params=case)
    if exact is not None:
        for _ in range(3):
            c, _nt = exact(); chk.case(c)
        chk.case(case); return
    if not replay_direct(o, case):
        for name, f, _ in ORACLES:
            if fn and (fn in name or name.split('(')[0] in fn):
                for _ in range(100):
                    if f is o_nv_yield and case.get('form') in YIELD_FORMS: c, _nt = o_nv_yield(o, chk.rng, case['form'])      # the recorded way of specifying the yield
                    else: c, _nt = (o_nv_discrete(o, chk.rng) if f is None else f(o, chk.rng))
                    chk.case(c)
    chk.case(case)


def replay_direct(o, case):
    """evaluate the recorded (parameters, decision) directly for the deterministic EOQ-type models"""
    fn = case.get('function'); d = case.get('decision')
    try:
        if fn == 'economic_order_quantity':
            f = imp('eoq').economic_order_quantity; a = (case['fixed_cost'], case['holding_cost'], case['demand_rate'])
        elif fn == 'economic_production_quantity':
            f = imp('eoq').economic_production_quantity; a = (case['fixed_cost'], case['holding_cost'], case['demand_rate'], case['production_rate'])
        elif fn in ('eoq_with_additive_yield_uncertainty', 'eoq_with_multiplicative_yield_uncertainty'):
            f = getattr(imp('supply_uncertainty'), fn); a = (case['fixed_cost'], case['holding_cost'], case['demand_rate'], case['yield_mean'], case['yield_sd'])
        elif fn == 'economic_order_quantity_with_backorders':
            f = imp('eoq').economic_order_quantity_with_backorders; a = (case['fixed_cost'], case['holding_cost'], case['stockout_cost'], case['demand_rate'])
            opt = f(*a); print('optimise:', opt)
            if d is not None:
                v = f(*a, d[0], d[1]); print('evaluate at', d, ':', v)
                if opt[2] - v[2] > REL * max(1, abs(opt[2])): o.chk.fail(fn + '|alternative-better', 'decision %r evaluates to %r < optimum %r' % (d, v[2], opt[2]), case)
            return True
        else:
            return False
        opt = f(*a); print('optimise:', opt)
        ev = f(*a, opt[0]) if opt[0] > 0 else None; print('evaluate at optimum:', ev)
        if ev is not None and not o.close(opt[1], ev[1]): o.chk.fail(fn + '|optimise-vs-evaluate', 'cost %r vs %r' % (opt[1], ev[1]), case)
        if d is not None:
            v = f(*a, d); print('evaluate at', d, ':', v)
            if opt[1] - v[1] > REL * max(1, abs(opt[1])): o.chk.fail(fn + '|alternative-better', 'decision %r evaluates to %r < optimum %r' % (d, v[1], opt[1]), case)
        return True
    except Exception as e:
        print('replay_direct:', exc_kind(e), e); return False
