"""C15 — simulated long-run cost vs analytical expected cost (partial by nature).
(a) proof obligations: Props/C15.v (single-stage pathwise theorem on the simulator model);
(b) exact, deterministic correspondence: on generated single-stage instances the IMPLEMENTATION's trajectory satisfies the
    pathwise identities of the theorem (IL_t = S - demand of the last L periods, on-order = that demand, cost = newsvendor
    cost function at it, with L = order lead time + shipment lead time) and equals the Coq run of the theorem's network NW1 (of the general
    simulator model when the order lead time is positive); serial systems handled as objects (arbitrary labels / node-list order): conversion of
    echelon to local levels vs the formula, ssm_serial's network= entry points leave the caller's network unchanged, same object simulated afterwards;
(c) statistical SEARCH (not proof): long simulations vs newsvendor / (s,S) / SSM analytical costs, batch-means band."""
import math, warnings
from fractions import Fraction
import numpy as np
from vlib import *
import simlib

RULE = ('exact stream: single stage, base-stock S in 0..30, shipment lead time 0..4, in half of the cases an additional ORDER lead time 1..3 (L = OLT + SLT), rates k/4, integer demand lists '
        '(length 6..30, values 0..13) — implementation trajectory vs the pathwise identities of C15_single_stage_pathwise at L = OLT + SLT and vs the '
        'Coq run of NW1 (OLT = 0) or of the general simulator model with the same configuration (OLT > 0); non-trivial = some period with backorders and some with positive stock, L >= 1. '
        'expectation stream (EXACT, no sampling): i.i.d. demand with 2-3 support points (probabilities k/8 or k/16, offset 0/1/3), L in 1..2 (in half of the cases partly as order lead time on the implementation side): expected period cost by '
        'enumerating every demand sequence through the implementation vs newsvendor_discrete on lead_time_demand_distribution(L), and both vs the two sides of C15_expected_period_cost evaluated in Coq. '
        'analytic stream (deterministic): newsvendor_poisson/normal cost through both evaluation entry points at levels incl. 0 and negative ones vs direct summation / closed form; '
        'ssm_serial.expected_cost(network=) with arbitrary node labels vs the canonical parameter form. '
        'serial-object stream (deterministic): serial networks of 2-6 stages with labels 1..N upstream-first / N..1 / 0..N-1 / random, built by serial_system or by network_from_edges with the edges '
        'listed from the supplier end, the customer end or shuffled (node list then NOT upstream-first): echelon_to_local_base_stock_levels (levels integer or k/4, also non-monotone) vs the S-minus formula, '
        'argument not modified, local_to_echelon round trip; on 3-4 stage systems additionally 1-2 calls of expected_cost / optimize_base_stock_levels / newsvendor_heuristic with network=net '
        '(value as with canonical parameters; the caller\'s network — labels, node list, links, costs, lead times, demand, levels — must read the same afterwards), then the converted levels are installed by label on the SAME '
        'object and it is simulated (20-40 periods, fixed seed) against a freshly built twin with the formula levels: identical trajectories; non-trivial = >= 3 stages and labels not N..1 or node list not upstream-first. '
        'demand-source stream (deterministic): a DemandSource driven through random setter sequences vs a fresh object with the same attributes '
        '(lead-time demand mean / sd / cdf / quantile must be identical). '
        'statistical stream (search only): base-stock single stage L in 1..3 with Poisson / low-variation normal demand (cv 0.05-0.15, levels up to 30% above the mean) vs newsvendor cost of '
        'L-period demand; the same with the lead time split into order lead time 1..2 + shipment lead time 0..2; a 3-stage serial system used as one object (labels not N..1, edges listed from the customer end, '
        'levels from optimize_base_stock_levels(network=), cost from expected_cost(network=), then conversion and simulation of that object); serial systems also with normal demand, one re-used DemandSource, echelon levels 1.0-1.5 x the optimum; (s,S) stage with L = 1 vs s_s_cost_discrete (simulated cost + K x order frequency); 2-3 stage serial system '
        'with local levels converted from echelon levels vs ssm_serial.expected_cost; batch means, band = 6 standard errors + 0.5% (SSM: 2%) '
        'of the analytical value (per-test false-alarm probability < 2e-9, < 1e-6 over the run).')


def single_case(rng):
    T = rng.randint(6, 30); L = rng.randint(0, 4); S = rng.randint(0, 30)
    dl = [rng.choice([0, 1, 2, 3, 5, 8, 13]) for _ in range(T)]
    # the stage's lead time may be split into an order lead time and a shipment lead time (the supplier is the external one, so an order
    # placed in period t arrives OLT + SLT periods later): the pathwise identities then hold with L = OLT + SLT
    olt = rng.randint(1, 3) if rng.random() < 0.5 else 0
    node = dict(slt=L, olt=olt, pol=['BS', S], cap=None, init_il=None, h=Fraction(rng.randint(1, 12), 4), p=Fraction(rng.randint(0, 80), 4),
                ith=None, rev=Fraction(0), demand=dl, dis=None, init_orders=0, init_ships=0)
    return dict(kind='single', ids=[1], edges=[], T=T, nodes={1: node})


def pathwise_oracle(case, recs):
    nd = case['nodes'][1]; S = Fraction(nd['pol'][1]); L = nd['slt'] + (nd.get('olt') or 0); h = nd['h']; p = nd['p']; d = nd['demand']
    bad = []
    for t, R in enumerate(recs):
        r = R[1]
        D = sum(Fraction(d[u]) for u in range(max(0, t - L + 1), t + 1)) if L > 0 else Fraction(0)
        if r['IL'] != S - D: bad.append(('il', 'period %d: IL=%s but S - lead-time demand = %s' % (t, r['IL'], S - D)))
        oo = r['supp'][None]['OO']
        if oo != D: bad.append(('on-order', 'period %d: on-order=%s but lead-time demand=%s' % (t, oo, D)))
        c = h * max(Fraction(0), S - D) + p * max(Fraction(0), D - S)
        if r['TC'] != c: bad.append(('cost', 'period %d: total cost %s but h(S-D)+ + p(D-S)+ = %s' % (t, r['TC'], c)))
    return bad


def coq_single(case):
    nd = case['nodes'][1]
    if nd.get('olt'):
        # order lead time > 0: not the theorem's network NW1 (which has olt = 0) but the general simulator model with the same configuration
        cfg = ('{| preds := []; succs := []; ext_sup := true; has_dem := true; slt := %s; olt := %s; pol := BS %s; cap := None; init_il := None; '
               'hc := %s; pc := %s; ith := None; rev := 0; dtype := None; init_orders := 0; init_ships := 0 |}'
               % (cnat(nd['slt']), cnat(nd['olt']), cq(nd['pol'][1]), cq(nd['h']), cq(nd['p'])))
        return ('let NWx := {| nodes := [1%%N]; cfg := fun _ => %s |} in map (fun e => [qobs (gq e (fIL, 1%%N, Ext)); qobs (gq e (fOO, 1%%N, Ext)); qobs (c_tc (node_costs NWx e 1%%N))]) '
                '(run NWx (mk_inputs (map (fun d => ((fun _ : N => false), d)) %s)))' % (cfg, cqlist(nd['demand'][:case['T']])))
    return ('let NWx := NW1 %s %s %s %s in map (fun e => [qobs (gq e (fIL, 1%%N, Ext)); qobs (gq e (fOO, 1%%N, Ext)); qobs (c_tc (node_costs NWx e 1%%N))]) '
            '(run NWx (mk_inputs (map (fun d => ((fun _ : N => false), d)) %s)))'
            % (cq(nd['pol'][1]), cq(nd['h']), cq(nd['p']), cnat(nd['slt']), cqlist(nd['demand'][:case['T']])))


def batch_band(xs, nb=40):
    xs = np.asarray(xs, dtype=float); m = len(xs) // nb
    means = xs[:m * nb].reshape(nb, m).mean(axis=1)
    return float(means.mean()), float(means.std(ddof=1) / math.sqrt(nb))


def sim_costs(net, T, seed, extra=None):
    import stockpyl.sim as sim
    sim.issued_backorder_warning = False
    with warnings.catch_warnings():
        warnings.simplefilter('ignore')
        sim.simulation(net, T, rand_seed=seed, progress_bar=False, consistency_checks='N')
    per = np.zeros(T)
    for n in net.nodes:
        per += np.array([n.state_vars[t].total_cost_incurred for t in range(T)])
    if extra: per += extra(net, T)
    return per


POISSON_RATES = [2, 4, 6, 2.5, 4.6, 0.8, 3.3]      # non-integer rates too: the generator must draw Poisson(mean), not Poisson(int(mean))


def library_band_stream(chk, n):
    """The library's OWN confidence band: run_multiple_trials(network, trials, periods, seed) returns (mean, standard error of the mean) of the per-trial
    average costs. For a single stage under base-stock the analytical (newsvendor) cost must lie within mean +- 6 SEM (+ 2% for the warm-up of
    each trial), the SEM must be positive for random demand and of the size an independent set of trials (own loop over sim.simulation with own seeds)
    gives. Search only (statistical), like the rest of this stream."""
    from stockpyl.supply_chain_network import single_stage_system
    from stockpyl.newsvendor import newsvendor_poisson_cost
    import stockpyl.sim as sim
    rng = chk.rng
    for _ in range(n):
        L = rng.randint(1, 2); mu = rng.choice(POISSON_RATES); h = rng.choice([1, 2]); p = rng.choice([4, 9]); S = int(mu * L + rng.randint(0, 4))
        trials = rng.choice([12, 20]); periods = rng.choice([150, 250]); seed = rng.choice([0, 1, 7, 12345])
        def build(): return single_stage_system(holding_cost=h, stockout_cost=p, shipment_lead_time=L, demand_type='P', mean=mu, policy_type='BS', base_stock_level=S)
        case = dict(stream='statistical', kind='library-band', params=dict(L=L, mu=mu, h=h, p=p, S=S, trials=trials, periods=periods, seed=seed))
        sim.issued_backorder_warning = False
        with warnings.catch_warnings():
            warnings.simplefilter('ignore')
            try: mean, sem = sim.run_multiple_trials(build(), trials, periods, rand_seed=seed, progress_bar=False)
            except Exception as e:
                chk.fail('run_multiple_trials|raises-%s' % exc_kind(e), str(e)[:200], case); continue
            own = [float(sim.simulation(build(), periods, rand_seed=1000 + 17 * k, progress_bar=False, consistency_checks='N')) / periods for k in range(trials)]
        own_sem = float(np.std(own, ddof=1) / math.sqrt(trials))
        analytic = float(newsvendor_poisson_cost(S, h, p, mu * L))
        chk.count('stat_library-band'); chk.case(dict(case, simulated=float(mean), sem=float(sem), own_sem=own_sem, analytical=analytic), True)
        if not (sem > 0) or not (own_sem / 4 <= sem <= own_sem * 4):
            chk.fail('long-run|library-confidence-band|standard-error', '%r: run_multiple_trials reports mean %.5f, standard error %.6g; %d independent trials of the same length have standard error %.6g'
                     % (case['params'], mean, sem, trials, own_sem), case)
        elif abs(mean - analytic) > 6 * sem + 0.02 * abs(analytic) + 0.02:
            chk.fail('long-run|library-confidence-band|simulated-vs-analytical', '%r: run_multiple_trials mean %.5f +- %.5f (SEM) vs newsvendor cost %.5f' % (case['params'], mean, sem, analytic), case)


def statistical(chk, T, reps):
    from stockpyl.supply_chain_network import single_stage_system, serial_system, echelon_to_local_base_stock_levels
    from stockpyl.newsvendor import newsvendor_poisson_cost, newsvendor_normal_cost
    from stockpyl.ss import s_s_cost_discrete
    from stockpyl import ssm_serial
    rng = chk.rng; tests = 0
    def judge(kind, params, per, analytic, slack):
        nonlocal tests
        tests += 1
        mean, se = batch_band(per[len(per) // 20:])        # drop a 5% warm-up
        band = 6 * se + slack * abs(analytic)
        chk.count('stat_' + kind)
        chk.case(dict(stream='statistical', kind=kind, params=params, simulated=mean, analytical=analytic, band=band), True)
        if abs(mean - analytic) > band:
            chk.fail('long-run|%s|simulated-vs-analytical' % kind,
                     '%s %r: simulated average %.5f vs analytical %.5f (band %.5f, T=%d)' % (kind, params, mean, analytic, band, len(per)),
                     dict(stream='statistical', kind=kind, params=params, T=len(per)))
    for _ in range(reps):
        # base-stock single stage, Poisson demand
        L = rng.randint(1, 3); mu = rng.choice(POISSON_RATES); h = rng.choice([1, 2]); p = rng.choice([4, 9, 19]); S = int(mu * L + rng.randint(-2, 5)) if rng.random() < 0.8 else rng.choice([0, -1, -3])
        net = single_stage_system(holding_cost=h, stockout_cost=p, shipment_lead_time=L, demand_type='P', mean=mu, policy_type='BS', base_stock_level=S)
        per = sim_costs(net, T, rng.randint(1, 10 ** 6))
        judge('base-stock-poisson', dict(L=L, mu=mu, h=h, p=p, S=S), per, float(newsvendor_poisson_cost(S, h, p, mu * L)), 0.005)
        # (s,S) stage, L = 1, Poisson demand; fixed cost added per order placed
        mu = rng.choice(POISSON_RATES); h = 1; p = rng.choice([4, 9]); K = rng.choice([4, 16]); s_ = int(mu + rng.randint(-2, 2)) if rng.random() < 0.7 else rng.choice([-1, -2, -4]); S_ = s_ + rng.randint(1, 8)
        net = single_stage_system(holding_cost=h, stockout_cost=p, shipment_lead_time=1, demand_type='P', mean=mu, policy_type='sS', reorder_point=s_, order_up_to_level=S_)
        def fixed(netw, TT, K=K):
            nd = netw.nodes[0]; prod = nd._dummy_product.index
            return np.array([K if nd.state_vars[t].order_quantity_fg[prod] > 0 else 0.0 for t in range(TT)])
        per = sim_costs(net, T, rng.randint(1, 10 ** 6), extra=fixed)
        judge('sS-poisson', dict(mu=mu, h=h, p=p, K=K, s=s_, S=S_), per, float(s_s_cost_discrete(s_, S_, h, p, K, True, mu)), 0.005)
        # base-stock single stage whose lead time is split into an ORDER lead time and a shipment lead time (the supplier is external: the
        # order arrives OLT + SLT periods after it is placed), Poisson or low-variation normal demand, vs the newsvendor cost of (OLT+SLT)-period demand
        olt = rng.randint(1, 2); slt = rng.randint(0, 2); L = olt + slt; h = rng.choice([1, 2]); p = rng.choice([4, 9, 19])
        if rng.random() < 0.5:
            mu = rng.choice(POISSON_RATES); S = int(mu * L + rng.randint(-2, 5))
            net = single_stage_system(holding_cost=h, stockout_cost=p, shipment_lead_time=slt, order_lead_time=olt, demand_type='P', mean=mu, policy_type='BS', base_stock_level=S)
            analytic = float(newsvendor_poisson_cost(S, h, p, mu * L)); kind = 'base-stock-poisson-order-lead-time'; params = dict(OLT=olt, SLT=slt, mu=mu, h=h, p=p, S=S)
        else:
            mu = rng.choice([20, 50]); sd = mu * rng.choice([0.05, 0.1, 0.15]); S = round(mu * L + rng.choice([-1, 0, 1, 2, 3]) * sd * math.sqrt(L), 2)
            net = single_stage_system(holding_cost=h, stockout_cost=p, shipment_lead_time=slt, order_lead_time=olt, demand_type='N', mean=mu, standard_deviation=sd, policy_type='BS', base_stock_level=S)
            analytic = float(newsvendor_normal_cost(S, h, p, mu * L, sd * math.sqrt(L))); kind = 'base-stock-normal-order-lead-time'; params = dict(OLT=olt, SLT=slt, mu=mu, sd=sd, h=h, p=p, S=S)
        per = sim_costs(net, T, rng.randint(1, 10 ** 6))
        judge(kind, params, per, analytic, 0.005)
    # serial system handled as ONE OBJECT, the way a user script does it: labels not N..1, node list not upstream-first (edges written from the customer
    # end), levels from optimize_base_stock_levels(network=net), analytical cost from expected_cost(S, network=net), THEN conversion and simulation of net itself
    for _ in range(max(1, reps // 3)):
        N = 3; scheme = rng.choice(['1..N upstream-first', 'random']); chain = list(range(1, N + 1)) if scheme.startswith('1') else rng.sample(range(1, 10), N)
        c = dict(build='edges', labels=scheme, chain=chain, edges=[[chain[k], chain[k + 1]] for k in range(N - 2, -1, -1)], he=[rng.choice([1, 2]) for _ in range(N)],
                 L=[rng.choice([1, 2]) for _ in range(N)], p=rng.choice([8, 15]), mean=rng.choice([3, 5, 3.5]))
        net = serial_build(c)
        S_opt, _ = ssm_serial.optimize_base_stock_levels(network=net)
        S_ech = {k: int(v) + rng.choice([0, 0, 1, -1]) for k, v in S_opt.items()}
        for k in range(N - 2, -1, -1): S_ech[chain[k]] = max(S_ech[chain[k]], S_ech[chain[k + 1]])      # local levels >= 0
        analytic = float(ssm_serial.expected_cost(dict(S_ech), network=net))
        S_loc = echelon_to_local_base_stock_levels(net, S_ech)
        for lab in chain:
            net.nodes_by_index[lab].inventory_policy.base_stock_level = S_loc[lab]
        per = sim_costs(net, T, rng.randint(1, 10 ** 6))
        judge('serial-ssm-same-object', dict(c, S_ech=S_ech), per, analytic, 0.02)
    # serial system vs SSM expected cost (fewer: the analytical evaluation is slow); stage 1 is downstream, stage N upstream
    for _ in range(max(1, reps // 2)):
        from stockpyl.demand_source import DemandSource
        N = rng.choice([2, 3]); mu = rng.choice([3, 5]); p = rng.choice([8, 15])
        he = {k: rng.choice([1, 2]) for k in range(1, N + 1)}; Ls = {k: rng.choice([1, 2]) for k in range(1, N + 1)}
        ds = DemandSource(type='P', mean=mu)
        S_ech, _ = ssm_serial.optimize_base_stock_levels(num_nodes=N, echelon_holding_cost=he, lead_time=Ls, stockout_cost=p, demand_source=ds)
        S_ech = {k: int(v) + rng.choice([0, 0, 1, -1]) for k, v in S_ech.items()}
        for k in range(2, N + 1): S_ech[k] = max(S_ech[k], S_ech[k - 1])      # local levels >= 0
        analytic = float(ssm_serial.expected_cost(S_ech, num_nodes=N, echelon_holding_cost=he, lead_time=Ls, stockout_cost=p, demand_source=ds))
        order = list(range(N, 0, -1))
        local_h = {k: sum(he[i] for i in range(k, N + 1)) for k in range(1, N + 1)}
        net = serial_system(N, node_order_in_system=order, local_holding_cost=local_h, stockout_cost={k: (p if k == 1 else 0) for k in order},
                            shipment_lead_time=Ls, demand_type='P', mean=mu, policy_type='BS', base_stock_level={k: 0 for k in order})
        S_loc = echelon_to_local_base_stock_levels(net, S_ech)
        for n in net.nodes:
            n.inventory_policy.base_stock_level = S_loc[n.index]
        per = sim_costs(net, T, rng.randint(1, 10 ** 6))
        judge('serial-ssm', dict(N=N, mu=mu, he=he, L=Ls, p=p, S_ech=S_ech), per, analytic, 0.02)
    # low-variation normal demand. One DemandSource object is re-used for the whole sweep and only its attributes are changed through the
    # setters (the way a parameter study is written), and the levels go from the optimum to far above it.
    from stockpyl.demand_source import DemandSource
    ds = DemandSource(type='N', mean=20, standard_deviation=2)
    nrm = max(2, reps // 2 + 1)
    for j in range(nrm):
        mu = rng.choice([20, 50]); cv = [0.05, 0.15, 0.08, 0.1][j % 4]; sd = mu * cv
        # (i) single stage, base-stock
        L = rng.randint(1, 3); h = rng.choice([1, 2]); p = rng.choice([4, 9, 19])
        S = round(mu * L + rng.choice([-1, 0, 1, 2, 3]) * sd * math.sqrt(L) + rng.choice([0, 0, 0.3 * mu]), 2)
        net = single_stage_system(holding_cost=h, stockout_cost=p, shipment_lead_time=L, demand_type='N', mean=mu, standard_deviation=sd, policy_type='BS', base_stock_level=S)
        per = sim_costs(net, T, rng.randint(1, 10 ** 6))
        judge('base-stock-normal', dict(L=L, mu=mu, sd=sd, h=h, p=p, S=S), per, float(newsvendor_normal_cost(S, h, p, mu * L, sd * math.sqrt(L))), 0.005)
        # (ii) serial system, echelon levels at / above the optimum
        N = rng.choice([2, 3]); p = rng.choice([8, 15])
        he = {k: rng.choice([1, 2]) for k in range(1, N + 1)}; Ls = {k: rng.choice([1, 2]) for k in range(1, N + 1)}
        if ds.mean != mu: ds.mean = mu
        ds.standard_deviation = sd
        S_opt, _ = ssm_serial.optimize_base_stock_levels(num_nodes=N, echelon_holding_cost=he, lead_time=Ls, stockout_cost=p, demand_source=ds)
        factor = [1.5, 1.0, 1.3, 1.15][j % 4]
        S_ech = {k: round(float(v) * factor, 2) for k, v in S_opt.items()}
        for k in range(2, N + 1): S_ech[k] = max(S_ech[k], S_ech[k - 1])
        analytic = float(ssm_serial.expected_cost(S_ech, num_nodes=N, echelon_holding_cost=he, lead_time=Ls, stockout_cost=p, demand_source=ds))
        order = list(range(N, 0, -1))
        local_h = {k: sum(he[i] for i in range(k, N + 1)) for k in range(1, N + 1)}
        net = serial_system(N, node_order_in_system=order, local_holding_cost=local_h, stockout_cost={k: (p if k == 1 else 0) for k in order},
                            shipment_lead_time=Ls, demand_type='N', mean=mu, standard_deviation=sd, policy_type='BS', base_stock_level={k: 0 for k in order})
        S_loc = echelon_to_local_base_stock_levels(net, S_ech)
        for n in net.nodes:
            n.inventory_policy.base_stock_level = S_loc[n.index]
        per = sim_costs(net, T, rng.randint(1, 10 ** 6))
        judge('serial-ssm-normal', dict(N=N, mu=mu, sd=sd, he=he, L=Ls, p=p, S_ech=S_ech, factor=factor), per, analytic, 0.02)
    chk.extra['statistical_tests'] = tests


def expectation_stream(chk, n):
    """EXACT (no sampling): for i.i.d. demand with a small finite pmf the expectation of the period cost is a finite sum over all demand
    sequences. Implementation: simulate every sequence (deterministic demand lists) and weight by its probability; analytical side:
    newsvendor_discrete on the pmf of DemandSource.lead_time_demand_distribution(L). Model: expect_list over the simulator model and
    nvd_cost of the convolution (the two sides of C15_expected_period_cost), evaluated in Coq."""
    import itertools
    from stockpyl.demand_source import DemandSource
    from stockpyl.newsvendor import newsvendor_discrete
    rng = chk.rng; cases = []
    for _ in range(n):
        m = rng.choice([2, 3]); off = rng.choice([0, 0, 1, 3]); L = rng.choice([1, 2]); T = L + rng.choice([0, 1]); t = T - 1
        w = [rng.randint(1, 5) for _ in range(m)]; tot = 8 if m == 2 else 16
        w = [max(1, round(x * tot / sum(w))) for x in w]; w[-1] += tot - sum(w)
        if min(w) < 1: w = [tot // m] * m; w[-1] += tot - sum(w)
        pm = [Fraction(x, tot) for x in w]
        S = rng.randint(max(0, L * off - 1), L * (off + m - 1) + 2)
        olt = rng.randint(1, L) if rng.random() < 0.5 else 0        # part of the lead time L as ORDER lead time (implementation side only: the law depends on OLT + SLT)
        cases.append(dict(stream='expectation', m=m, off=off, L=L, olt=olt, T=T, t=t, pm=pm, S=S, h=Fraction(rng.randint(1, 12), 4), p=Fraction(rng.randint(0, 80), 4)))
    exprs = []
    for c in cases:
        dss = '[' + '; '.join(['(fun _ : N => false)'] * c['T']) + ']'
        exprs.append('[qobs (expect_list %s %s %s (period_cost (inject_Z %s) %s %s %s %s %s)); qobs (nvd_cost %s %s %s (pmf_of_list (%s * %s) (conv_pow %s %s)))]'
                     % (cnat(c['T']), cnat(c['off']), cqlist(c['pm']), cz(c['S']), cq(c['h']), cq(c['p']), cnat(c['L']), dss, cnat(c['t']),
                        cq(c['h']), cq(c['p']), cz(c['S']), cnat(c['L']), cnat(c['off']), cnat(c['L']), cqlist(c['pm'])))
    ok, log = coq_make(['Sim/NVExpect.vo'])
    vals = None
    if not ok: chk.broken.append(('Sim/NVExpect.vo', log[-600:]))
    else:
        try: vals = coq_eval_sharded('c15exp', 'Alg.Gen Alg.NVDiscrete Sim.Model Sim.Single Sim.NVExpect', '', exprs, shard=10)
        except Exception as e: chk.broken.append(('model-evaluation-expectation', str(e)[-500:]))
    for i, c in enumerate(cases):
        vals_ = list(range(c['off'], c['off'] + c['m']))
        try:
            exp = Fraction(0)
            for seq in itertools.product(range(c['m']), repeat=c['T']):
                pr = Fraction(1)
                for j in seq: pr *= c['pm'][j]
                node = dict(slt=c['L'] - c['olt'], olt=c['olt'], pol=['BS', c['S']], cap=None, init_il=None, h=c['h'], p=c['p'], ith=None, rev=Fraction(0),
                            demand=[vals_[j] for j in seq], dis=None, init_orders=0, init_ships=0)
                r = simlib.run_impl(dict(kind='single', ids=[1], edges=[], T=c['T'], nodes={1: node}))
                exp += pr * r['recs'][c['t']][1]['TC']
            ds = DemandSource(type='CD', demand_list=vals_, probabilities=[float(x) for x in c['pm']])
            ltd = ds.lead_time_demand_distribution(c['L'])
            _, an = newsvendor_discrete(float(c['h']), float(c['p']), demand_pmf={int(x): float(y) for x, y in zip(ltd.xk, ltd.pk)}, base_stock_level=c['S'])
        except Exception as e:
            chk.fail('long-run|expected-cost|raises-%s' % exc_kind(e), '%s: %s' % (type(e).__name__, str(e)[:200]), c); chk.case(c, False); continue
        if not close(exp, F(an)):
            chk.fail('long-run|expected-cost|enumeration-vs-newsvendor_discrete',
                     'i.i.d. demand %s w.p. %s, L=%d (order lead time %d + shipment lead time %d), S=%d, h=%s, p=%s: expected period-%d cost over all %d demand sequences (implementation runs) = %s but newsvendor_discrete on the lead-time pmf gives %r'
                     % (vals_, [str(x) for x in c['pm']], c['L'], c['olt'], c['L'] - c['olt'], c['S'], c['h'], c['p'], c['t'], c['m'] ** c['T'], float(exp), an), c)
        if vals is not None:
            chk.traces += 1
            me, mn = qv(vals[i][0]), qv(vals[i][1])
            if me != exp:
                chk.mismatch('expectation over all demand sequences: simulator model %s vs implementation runs %s' % (me, exp), c)
            if not close(mn, F(an)):
                chk.mismatch('nvd_cost of the convolved pmf %s vs newsvendor_discrete on lead_time_demand_distribution %r' % (mn, an), c)
        chk.count('expectation:L=%d' % c['L']); chk.count('expectation:order-lead-time=%d' % c['olt']); chk.count('expectation:support=%d' % c['m'])
        chk.case(c, 0 < c['S'] - c['L'] * c['off'] < c['L'] * (c['m'] - 1))


def analytic_stream(chk, n):
    """deterministic: the analytical side at levels at, away from and BELOW the optimum (0 and negative levels = planned backorders), through
    both evaluation entry points, against a direct summation / closed form written here; and the serial SSM cost through the network= entry
    point with arbitrary node labels against the canonical-label call"""
    import scipy.stats as st
    from stockpyl import newsvendor as nv, ssm_serial
    from stockpyl.ss import s_s_cost_discrete
    from stockpyl.supply_chain_network import serial_system
    from stockpyl.demand_source import DemandSource
    rng = chk.rng
    def pois_cost(S, h, p, mean):
        hi = int(mean + 12 * math.sqrt(mean) + 30)
        return sum(float(st.poisson.pmf(d, mean)) * (h * max(0, S - d) + p * max(0, d - S)) for d in range(0, hi))
    def norm_cost(S, h, p, mu, sd):
        z = (S - mu) / sd; pdf = math.exp(-z * z / 2) / math.sqrt(2 * math.pi); cdf = 0.5 * (1 + math.erf(z / math.sqrt(2)))
        n = sd * (pdf - z * (1 - cdf)); nbar = n + (S - mu)
        return h * nbar + p * n
    def report(api, params, got, want):
        chk.fail('long-run|analytical-cost|%s|level%s' % (api, '<0' if params['S'] < 0 else '=0' if params['S'] == 0 else '>0'),
                 '%s%r = %r but the expected one-period cost computed directly is %r' % (api, params, got, want), dict(stream='analytic', api=api, params=params))
    for _ in range(n):
        h = rng.choice([1, 2, 0.5]); p = rng.choice([4, 9, 19, 0.5]); mean = rng.choice([0.5, 1.5, 3, 6, 12.5])
        S = rng.choice([0, 0, -1, -2, -5, 1, int(mean), int(mean) + 3, int(2 * mean) + 5])
        params = dict(S=S, h=h, p=p, mean=mean)
        want = pois_cost(S, h, p, mean)
        try:
            got = float(nv.newsvendor_poisson_cost(S, h, p, mean))
            if not close(got, want, 1e-7, 1e-7): report('newsvendor_poisson_cost', params, got, want)
            S2, got2 = nv.newsvendor_poisson(h, p, mean, base_stock_level=S)
            if S2 != S or not close(float(got2), want, 1e-7, 1e-7): report('newsvendor_poisson(base_stock_level=S)', params, (S2, float(got2)), (S, want))
        except Exception as e:
            chk.fail('long-run|analytical-cost|newsvendor_poisson|raises-%s' % exc_kind(e), '%r: %s' % (params, str(e)[:200]), dict(stream='analytic', params=params))
        mu = rng.choice([10, 20, 50]); sd = mu * rng.choice([0.05, 0.1, 0.15]); Sn = rng.choice([0, 0.0, -3.5, mu, round(mu + 2 * sd, 2), round(mu - 3 * sd, 2), 1.5 * mu])
        params = dict(S=Sn, h=h, p=p, mean=mu, sd=sd); want = norm_cost(Sn, h, p, mu, sd)
        try:
            got = float(nv.newsvendor_normal_cost(Sn, h, p, mu, sd))
            if not close(got, want, 1e-7, 1e-7): report('newsvendor_normal_cost', params, got, want)
            S2, got2 = nv.newsvendor_normal(h, p, mu, sd, base_stock_level=Sn)
            if S2 != Sn or not close(float(got2), want, 1e-7, 1e-7): report('newsvendor_normal(base_stock_level=S)', params, (S2, float(got2)), (Sn, want))
        except Exception as e:
            chk.fail('long-run|analytical-cost|newsvendor_normal|raises-%s' % exc_kind(e), '%r: %s' % (params, str(e)[:200]), dict(stream='analytic', params=params))
        chk.count('analytic:poisson-level=%s' % ('<0' if S < 0 else '=0' if S == 0 else '>0')); chk.case(dict(stream='analytic', S=S, Sn=Sn), S <= 0 or Sn <= 0)
    # serial SSM cost: network= entry point with arbitrary labels vs the canonical parameter form
    for _ in range(max(2, n // 10)):
        N = rng.choice([3, 3, 4]); mu = rng.choice([2, 3]); p = rng.choice([8, 15])
        he = [rng.choice([1, 2]) for _ in range(N)]; Ls = [rng.choice([1, 2]) for _ in range(N)]       # by position, upstream first
        S_pos = sorted([rng.randint(2, 6) + 3 * k for k in range(N)], reverse=True)                    # echelon levels, upstream first (largest)
        labels = rng.sample(range(1, 9), N)
        try:
            loc_h = [sum(he[:k + 1]) for k in range(N)]
            net = serial_system(N, node_order_in_system=labels, node_order_in_lists=labels, local_holding_cost=loc_h, echelon_holding_cost=he, stockout_cost=[0] * (N - 1) + [p],
                                shipment_lead_time=Ls, demand_type='P', mean=mu, policy_type='BS', base_stock_level=[0] * N)
            got = float(ssm_serial.expected_cost({labels[k]: S_pos[k] for k in range(N)}, network=net))
            # canonical parameter form: stage N upstream ... stage 1 downstream
            want = float(ssm_serial.expected_cost({N - k: S_pos[k] for k in range(N)}, num_nodes=N, echelon_holding_cost={N - k: he[k] for k in range(N)},
                                                  lead_time={N - k: Ls[k] for k in range(N)}, stockout_cost=p, demand_source=DemandSource(type='P', mean=mu)))
        except Exception as e:
            chk.fail('long-run|analytical-cost|ssm expected_cost(network=)|raises-%s' % exc_kind(e), str(e)[:200], dict(stream='analytic', labels=labels)); continue
        params = dict(labels=labels, S=S_pos, he=he, L=Ls, p=p, mean=mu)
        if not close(got, want, 1e-9, 1e-9):
            chk.fail('long-run|analytical-cost|ssm expected_cost(network=)|depends-on-node-labels', 'expected_cost with the network labelled %s (upstream first) = %r, with canonical parameters = %r; %r' % (labels, got, want, params),
                     dict(stream='analytic', params=params))
        chk.count('analytic:ssm-network-labels'); chk.case(dict(stream='analytic', params=params), True)


# ------------------------------------------------------------------------------------------------
# serial systems handled as OBJECTS: arbitrary labels, node list in any order, the same object used for the analytical cost, the
# conversion of the levels and the simulation

def serial_build(c):
    """the serial network of case c. chain = labels upstream -> downstream; attributes by position (upstream first).
    build 'serial': serial_system (node list = chain); build 'edges': network_from_edges with the edges in the order c['edges']
    (the node list then follows the order in which the labels appear in the edge list)."""
    from stockpyl.supply_chain_network import serial_system, network_from_edges
    from stockpyl.demand_source import DemandSource
    chain = [int(x) for x in c['chain']]; N = len(chain); he = c['he']
    kw = dict(local_holding_cost=[sum(he[:k + 1]) for k in range(N)], echelon_holding_cost=list(he), stockout_cost=[0] * (N - 1) + [c['p']],
              shipment_lead_time=list(c['L']), policy_type='BS', base_stock_level=[0] * N)
    if c['build'] == 'serial':
        return serial_system(N, node_order_in_system=chain, node_order_in_lists=chain, demand_type='P', mean=c['mean'], **kw)
    return network_from_edges([tuple(int(x) for x in e) for e in c['edges']], node_order_in_lists=chain,
                              demand_source=[None] * (N - 1) + [DemandSource(type='P', mean=c['mean'])], **kw)


def serial_fingerprint(net):
    """what a caller can see of a serial network: node list, labels, links, the data the SSM and the simulator read"""
    out = []
    for n in net.nodes:
        ds = n.demand_source
        out.append((n.index, list(n.predecessor_indices()), list(n.successor_indices()), n.local_holding_cost, n.echelon_holding_cost, n.shipment_lead_time,
                    n.stockout_cost, (ds.type, ds.mean) if ds is not None and ds.type is not None else None,
                    n.inventory_policy.base_stock_level if n.inventory_policy is not None else None, net.nodes_by_index.get(n.index) is n))
    return out


def chain_of(net):
    """node objects from the source to the sink, found by walking the links (independent of labels and of the node list)"""
    n = net.source_nodes[0]; out = []
    while n is not None and len(out) <= len(net.nodes):
        out.append(n); n = n.get_one_successor()
    return out


def local_levels_formula(chain, S):
    """local levels of echelon levels S (by label) on the chain (upstream first): with S-minus_j = min of the echelon levels of stage j and of every
    stage upstream of it, local_j = S-minus_j - S-minus_(successor of j), local_sink = S-minus_sink"""
    N = len(chain); sm = [min(Fraction(S[chain[i]]) for i in range(k + 1)) for k in range(N)]
    return {chain[k]: (sm[k] - sm[k + 1] if k < N - 1 else sm[k]) for k in range(N)}, {chain[k]: sm[k] for k in range(N)}


def serial_object_oracle(c):
    """returns [(signature, what)]; deterministic (Poisson demand of the simulation runs under a fixed seed on both objects)"""
    from stockpyl import ssm_serial
    from stockpyl.demand_source import DemandSource
    from stockpyl.supply_chain_network import echelon_to_local_base_stock_levels, local_to_echelon_base_stock_levels
    import stockpyl.sim as sim
    bad = []
    chain = [int(x) for x in c['chain']]; N = len(chain); S = {int(k): v for k, v in c['S_ech'].items()}
    net = serial_build(c)
    listing = 'upstream-first' if [n.index for n in net.nodes] == chain else 'not-upstream-first'
    shape = 'N=%s|node-list-%s' % (N if N < 3 else '>=3', listing)
    fp0 = serial_fingerprint(net); modified = None
    canon = dict(num_nodes=N, echelon_holding_cost={N - k: c['he'][k] for k in range(N)}, lead_time={N - k: c['L'][k] for k in range(N)}, stockout_cost=c['p'])
    # (1) the analytical entry points with the network given as an object: value as with the canonical parameters, caller's object untouched
    for api in c.get('calls') or []:
        try:
            if api == 'expected_cost':
                got = float(ssm_serial.expected_cost(dict(S), network=net))
                want = float(ssm_serial.expected_cost({N - k: S[chain[k]] for k in range(N)}, demand_source=DemandSource(type='P', mean=c['mean']), **canon))
                same = close(got, want, 1e-9, 1e-9)
            elif api == 'optimize_base_stock_levels':
                gS, gC = ssm_serial.optimize_base_stock_levels(network=net)
                wS, wC = ssm_serial.optimize_base_stock_levels(demand_source=DemandSource(type='P', mean=c['mean']), **canon)
                got = ({k: float(v) for k, v in gS.items()}, float(gC)); want = ({chain[k]: float(wS[N - k]) for k in range(N)}, float(wC))
                same = got[0] == want[0] and close(got[1], want[1], 1e-9, 1e-9)
            else:
                gS = ssm_serial.newsvendor_heuristic(network=net)
                wS = ssm_serial.newsvendor_heuristic(demand_source=DemandSource(type='P', mean=c['mean']), **canon)
                got = {k: float(v) for k, v in gS.items()}; want = {chain[k]: float(wS[N - k]) for k in range(N)}
                same = sorted(got) == sorted(want) and all(close(got[k], want[k], 1e-9, 1e-9) for k in got)
            if not same:
                bad.append(('long-run|analytical-cost|ssm %s(network=)|depends-on-node-labels' % api,
                            '%s with the network labelled %s (upstream first), node list %s = %r, with canonical parameters (relabelled) = %r' % (api, chain, [x[0] for x in fp0], got, want)))
        except Exception as e:
            bad.append(('long-run|analytical-cost|ssm %s(network=)|raises-%s' % (api, exc_kind(e)), '%s: %s' % (type(e).__name__, str(e)[:200])))
        fp1 = serial_fingerprint(net)
        if fp1 != fp0:
            bad.append(("ssm_serial.%s(network=)|modifies-the-caller's-network" % api,
                        'network labelled %s (upstream first): after %s(network=net) the caller\'s object reads (label, predecessors, successors, h, echelon h, L, p, demand, level, registered) = %r, before the call %r'
                        % (chain, api, fp1, fp0)))
            modified = api; break
    # (2) conversion of the echelon levels against the formula, on the same object (on a fresh one if (1) found the object modified: the conversion
    # is then judged on its own, and the modified object goes on to (3))
    want_loc, s_minus = local_levels_formula(chain, S)
    got_loc = None; cnet = net if modified is None else serial_build(c)
    try:
        S_in = dict(S); got_loc = echelon_to_local_base_stock_levels(cnet, S_in)
        if S_in != S:
            bad.append(('echelon_to_local_base_stock_levels|modifies-its-argument', 'the dict of echelon levels %r reads %r after the call' % (S, S_in)))
        if sorted(got_loc) != sorted(want_loc) or any(F(got_loc[k]) != want_loc[k] for k in want_loc):
            bad.append(('echelon_to_local_base_stock_levels|%s' % shape,
                        'chain %s (upstream first), node list %s, echelon levels %r: local levels %r but S-minus_j - S-minus_successor gives %r'
                        % (chain, [n.index for n in net.nodes], S, jsonable(got_loc), jsonable(want_loc))))
        back = local_to_echelon_base_stock_levels(cnet, dict(got_loc))
        if any(F(back[k]) != s_minus[k] for k in s_minus):
            bad.append(('local_to_echelon_base_stock_levels|round-trip|%s' % shape,
                        'chain %s, node list %s, echelon levels %r -> local %r -> echelon %r, expected the S-minus levels %r'
                        % (chain, [n.index for n in net.nodes], S, jsonable(got_loc), jsonable(back), jsonable(s_minus))))
    except Exception as e:
        bad.append(('echelon_to_local_base_stock_levels|raises-%s' % exc_kind(e), '%s: %s (chain %s)' % (type(e).__name__, str(e)[:200], chain)))
    # (3) the same object, with the converted levels installed by label, simulated against a freshly built twin that was never handed to ssm_serial
    if c.get('T') and got_loc is not None:
        try:
            twin = serial_build(c)
            if modified is not None: got_loc = echelon_to_local_base_stock_levels(net, dict(S))       # what the caller's script would do next
            for lab in chain:
                net.nodes_by_index[lab].inventory_policy.base_stock_level = float(got_loc[lab])
                twin.nodes_by_index[lab].inventory_policy.base_stock_level = float(want_loc[lab])
            traj = []
            for w in (net, twin):
                sim.issued_backorder_warning = False
                with warnings.catch_warnings():
                    warnings.simplefilter('ignore')
                    sim.simulation(w, c['T'], rand_seed=c['seed'], progress_bar=False, consistency_checks='N')
                ch = chain_of(w)
                traj.append([[float(n.state_vars[t].total_cost_incurred) for n in ch] + [float(n.state_vars[t].inventory_level[n.product_indices[0]]) for n in ch] for t in range(c['T'])])
            if traj[0] != traj[1]:
                t = next(i for i in range(c['T']) if traj[0][i] != traj[1][i])
                bad.append(('simulation of a network after ssm_serial calls and level conversion on it|trajectory-differs-from-fresh-network|%s' % shape,
                            'chain %s, calls %s, echelon levels %r: period %d (cost per stage, then IL per stage, upstream first) = %r on the object used for the analytical calls and the conversion, %r on a fresh network with the local levels %r'
                            % (chain, c.get('calls'), S, t, traj[0][t], traj[1][t], jsonable(want_loc))))
        except Exception as e:
            bad.append(('simulation of a network after ssm_serial calls and level conversion on it|raises-%s' % exc_kind(e), '%s: %s (chain %s, calls %s)' % (type(e).__name__, str(e)[:200], chain, c.get('calls'))))
    return bad, listing


def serial_object_case(rng, full):
    """full: analytical calls + simulation on the same object (3-4 stages); otherwise conversion only (2-6 stages, levels not necessarily monotone)"""
    N = rng.choice([3, 3, 4]) if full else rng.randint(2, 6)
    scheme = rng.choice(['1..N upstream-first', 'N..1', '0..N-1', 'random'])
    chain = {'1..N upstream-first': list(range(1, N + 1)), 'N..1': list(range(N, 0, -1)), '0..N-1': rng.sample(range(N), N), 'random': rng.sample(range(1, 12), N)}[scheme]
    edges = [[chain[k], chain[k + 1]] for k in range(N - 1)]
    how = rng.choice(['supplier-end', 'customer-end', 'shuffled'])
    if how == 'customer-end': edges.reverse()
    elif how == 'shuffled': rng.shuffle(edges)
    build = rng.choice(['serial', 'edges', 'edges'])
    if full:
        lv = sorted([rng.randint(2, 6) + 3 * k for k in range(N)], reverse=True)      # echelon levels, upstream first (largest)
    else:
        lv = sorted([rng.choice([rng.randint(0, 40), rng.randint(0, 160) / 4]) for _ in range(N)], reverse=True)
        if rng.random() < 0.4: rng.shuffle(lv)                                          # not monotone: the S-minus step matters
    c = dict(stream='serial-object', build=build, labels=scheme, edge_order=how, chain=chain, edges=edges, he=[rng.choice([1, 2]) for _ in range(N)],
             L=[rng.choice([1, 2]) for _ in range(N)], p=rng.choice([8, 15]), mean=rng.choice([2, 3]), S_ech={chain[k]: lv[k] for k in range(N)})
    if full:
        apis = ['expected_cost', 'optimize_base_stock_levels', 'newsvendor_heuristic']
        c.update(calls=[rng.choice(apis) for _ in range(rng.randint(1, 2))], T=rng.randint(20, 40), seed=rng.randint(1, 10 ** 6))
    return c


def serial_object_stream(chk, n_full, n_conv):
    for c in [serial_object_case(chk.rng, True) for _ in range(n_full)] + [serial_object_case(chk.rng, False) for _ in range(n_conv)]:
        bad, listing = serial_object_oracle(c)
        for sig, what in bad: chk.fail(sig, what, c)
        chk.count('serial-object:%s' % ('analytical+conversion+simulation' if c.get('T') else 'conversion'))
        chk.count('serial-object:node-list-%s' % listing); chk.count('serial-object:labels=%s' % c['labels'])
        chk.case(c, len(c['chain']) >= 3 and (listing != 'upstream-first' or c['labels'] != 'N..1'))


DS_ATTRS = {'N': dict(mean=[5, 20, 50], standard_deviation=[0.5, 1, 2, 7.5]), 'P': dict(mean=[2, 4.5, 9]), 'UD': dict(lo=[0, 2], hi=[5, 9]),
            'UC': dict(lo=[0, 2.5], hi=[5.5, 9]), 'CD': dict(demand_list=[[0, 1, 2], [1, 3, 5, 7]], probabilities=[None])}


def demand_source_stream(chk, n):
    """deterministic: a DemandSource re-used through its setters must describe the same lead-time demand as a fresh object with the
    same attributes (the analytical side of every comparison above reads the demand through it)"""
    from stockpyl.demand_source import DemandSource
    rng = chk.rng
    def fresh(state):
        d = DemandSource()
        for k, v in state.items(): setattr(d, k, v)
        return d
    def describe(d, L):
        dist = d.lead_time_demand_distribution(L)
        return [float(dist.mean()), float(dist.std()), float(dist.cdf(dist.mean())), float(dist.ppf(0.9))]
    fresh_seen = {}
    def describe_fresh(state, L):
        # a fresh object is a function of its attributes only: evaluate each (attributes, L) once (the numerical moments of sums of uniforms are slow)
        key = repr((sorted(state.items()), L))
        if key not in fresh_seen: fresh_seen[key] = describe(fresh(state), L)
        return fresh_seen[key]
    for _ in range(n):
        state = {}; obj = DemandSource(); ops = []
        for step in range(rng.randint(3, 8)):
            if step == 0 or rng.random() < 0.2:
                ty = rng.choice(list(DS_ATTRS)); upd = {'type': ty}
                for a, vals in DS_ATTRS[ty].items(): upd[a] = rng.choice(vals)
                if ty == 'CD': upd['probabilities'] = [1.0 / len(upd['demand_list'])] * len(upd['demand_list'])
            else:
                ty = state['type']; a = rng.choice([x for x in DS_ATTRS[ty] if x != 'probabilities']); upd = {a: rng.choice(DS_ATTRS[ty][a])}
                if a == 'demand_list': upd['probabilities'] = [1.0 / len(upd[a])] * len(upd[a])
            for k, v in upd.items(): setattr(obj, k, v)
            state.update(upd); ops.append(upd)
            L = rng.choice([1, 2, 3])
            case = dict(stream='demand-source', ops=jsonable(ops), L=L)
            try:
                a_ = describe(obj, L); b_ = describe_fresh(state, L)
            except Exception as e:
                chk.fail('DemandSource.lead_time_demand_distribution|raises-%s' % exc_kind(e), '%s: %s' % (type(e).__name__, str(e)[:200]), case); break
            if a_ != b_:
                chk.fail('DemandSource.lead_time_demand_distribution|stale-after-setter|%s' % '+'.join(sorted(upd)),
                         'after %s the re-used object gives (mean, sd, cdf(mean), ppf(0.9)) = %s for L=%d, a fresh object with the same attributes %s' % (upd, a_, L, b_), case)
                break
        chk.count('demand_source_sequences'); chk.case(dict(stream='demand-source', ops=jsonable(ops)), len(ops) > 3)


def run(chk):
    from props import c15_cs
    from props import c15_ssim
    chk.rule = RULE + ' ' + c15_cs.RULE_CS + ' ' + c15_ssim.RULE_SS
    chk.trusted += ['single-stage network NW1 (coq/Sim/Single.v) is an instance of the simulator model Sim/Model.v, which is tied to /repo by the C06 correspondence; here additionally by exact comparison of IL / on-order / cost trajectories on generated single-stage instances',
                    'statistical stream: NumPy generators, batch-means normal approximation — search only, never a proof']
    chk.assume += ['ergodic convergence of time averages and the distributional assumptions about NumPy samples are not theorems about code',
                   'floating point: integer demands and rates k/4 keep the implementation exact in the exact stream']
    chk.proof()
    quick = chk.tier == 'quick'
    n = 60 if quick else 600
    cases = [single_case(chk.rng) for _ in range(n)]
    impls = []
    for c in cases:
        try:
            impls.append(simlib.run_impl(c))
        except Exception as e:
            impls.append(None); chk.fail('simulation|single-stage|raises-%s' % exc_kind(e), str(e)[:200], c)
    m = 30 if quick else 150
    vals = coq_eval_sharded('c15', 'Sim.Model Sim.Single', '', [coq_single(c) for c in cases[:m]], shard=15)
    for i, (c, r) in enumerate(zip(cases, impls)):
        if r is None: chk.case(c, False); continue
        nd = c['nodes'][1]
        for sig, what in pathwise_oracle(c, r['recs']):
            chk.fail('simulation|single-stage|pathwise-' + sig, what, c)
        if i < m:
            chk.traces += 1
            mod = [(qv(a), qv(b), qv(cc)) for a, b, cc in vals[i]]
            imp = [(R[1]['IL'], R[1]['supp'][None]['OO'], R[1]['TC']) for R in r['recs']]
            if mod != imp:
                chk.mismatch('NW1 run %r vs implementation %r' % (jsonable(mod[:6]), jsonable(imp[:6])), c)
        nontriv = nd['slt'] + nd['olt'] >= 1 and any(R[1]['IL'] < 0 for R in r['recs']) and any(R[1]['IL'] > 0 for R in r['recs'])
        chk.count('L=%d' % nd['slt']); chk.count('order-lead-time=%d' % nd['olt']); chk.case(c, nontriv, simlib.case_key(c))
    import time
    secs = chk.extra.setdefault('stream_seconds', {}); t0 = time.time()
    def lap(name):
        nonlocal t0
        secs[name] = round(time.time() - t0, 1); t0 = time.time()
    demand_source_stream(chk, 60 if quick else 600); lap('demand-source')
    expectation_stream(chk, 20 if quick else 200); lap('expectation')
    analytic_stream(chk, 60 if quick else 600); lap('analytic')
    serial_object_stream(chk, 12 if quick else 80, 60 if quick else 600); lap('serial-object')
    # pathwise Clark-Scarf recursion (Sim/CS*.v, C15_serial_clark_scarf): checked period by period on the implementation, exact
    from props import c15_cs
    c15_cs.clark_scarf_stream(chk, 50 if quick else 400); lap('clark-scarf')
    # expectation step for serial systems (Sim/SerialExp*.v: E[period cost] = SSM.topdown): every demand sequence of a small pmf simulated and weighted, exact
    from props import c15_serialexp
    c15_serialexp.serial_expectation_stream(chk, 5 if quick else 40); lap('serial-expectation')
    # (s,S) stage = the chain of ss.py (Sim/SSim*.v): pathwise, chain step, exact expectation, long-run value within the proved bound
    from props import c15_ssim
    c15_ssim.sS_stage_stream(chk, 50 if quick else 500); lap('sS-stage')
    statistical(chk, 6000 if quick else 40000, 3 if quick else 10); lap('statistical')
    library_band_stream(chk, 3 if quick else 20); lap('library-band')
    if (chk.broken or chk.mismatches) and not chk.fails:
        for _ in range(10 * n):
            c = single_case(chk.rng)
            try: r = simlib.run_impl(c)
            except Exception as e:
                chk.fail('simulation|single-stage|raises-%s' % exc_kind(e), str(e)[:200], c); break
            bad = pathwise_oracle(c, r['recs'])
            if bad:
                chk.fail('simulation|single-stage|pathwise-' + bad[0][0], bad[0][1], c); break


def replay(chk, rp):
    c = rp['case']
    if c.get('stream') == 'statistical':
        print('statistical case: re-run ./check C15 --tier quick with the same seed to reproduce'); return
    if c.get('kind') in ('sS-pathwise', 'sS-expectation'):
        from props import c15_ssim
        c15_ssim.replay_sS_stage(chk, c); chk.case(c, True); return
    if c.get('stream') == 'serial-expectation' or c.get('kind') == 'serial-expectation':
        from props import c15_serialexp
        print('serial-expectation case: re-evaluated'); c15_serialexp.replay_case(chk, c) if hasattr(c15_serialexp, 'replay_case') else print('re-run ./check C15 with the same seed (deterministic, exact)'); return
    if 'S_loc' in c and 'chain' in c and c.get('stream') is None:
        from props import c15_cs
        c15_cs.replay_clark_scarf(chk, c); chk.case(c, True); return
    if c.get('stream') == 'serial-object':
        bad, _ = serial_object_oracle(c)
        for sig, what in bad:
            print(sig, '::', what); chk.fail(sig, what, c)
        chk.case(c); return
    if c.get('stream') == 'analytic':
        print('analytic case: re-run ./check C15 --tier quick with the same seed to reproduce (deterministic)'); return
    if c.get('stream') == 'expectation':
        print('expectation case: re-run ./check C15 --tier quick with the same seed to reproduce (exact enumeration, deterministic)'); return
    if c.get('stream') == 'demand-source':
        from stockpyl.demand_source import DemandSource
        obj = DemandSource(); state = {}
        for upd in c['ops']:
            for k, v in upd.items(): setattr(obj, k, v)
            state.update(upd)
        d = DemandSource()
        for k, v in state.items(): setattr(d, k, v)
        L = c.get('L', 1)
        a = obj.lead_time_demand_distribution(L); b = d.lead_time_demand_distribution(L)
        print('re-used:', a.mean(), a.std(), ' fresh:', b.mean(), b.std())
        if (float(a.mean()), float(a.std())) != (float(b.mean()), float(b.std())):
            chk.fail('DemandSource.lead_time_demand_distribution|stale-after-setter|%s' % '+'.join(sorted(c['ops'][-1])), 're-used object differs from a fresh one', c)
        chk.case(c); return
    c = simlib.case_from_json(c)
    r = simlib.run_impl(c)
    for sig, what in pathwise_oracle(c, r['recs']):
        chk.fail('simulation|single-stage|pathwise-' + sig, what, c)
    chk.case(c)
